// Witness probe for C19 (bounded): the two finite-difference formulas are exact on polynomials of degree <= 4 (first) / <= 3
// (second), linear in f, and have the classical leading error term on x^5 / x^4.
use bacon_sci::differentiate::{derivative, second_derivative};
fn main() {
    let mut found = Vec::new();
    let p = |x: f64| 0.5 * x.powi(4) - 2.0 * x.powi(3) + x * x - 3.0 * x + 7.0; let dp = |x: f64| 2.0 * x.powi(3) - 6.0 * x * x + 2.0 * x - 3.0;
    let c = |x: f64| -1.5 * x.powi(3) + x * x + 4.0 * x - 2.0; let d2c = |x: f64| -9.0 * x + 2.0;
    for x in [-1.3, 0.0, 0.7, 2.5] { for h in [0.5, 0.1, 0.01] {
        let d: f64 = derivative(p, x, h); if (d - dp(x)).abs() > 1e-9 * (1.0 + dp(x).abs()) / h { found.push(format!("derivative of a quartic at {x}, h={h}: {d} vs {}", dp(x))); }
        let s: f64 = second_derivative(c, x, h); if (s - d2c(x)).abs() > 1e-8 * (1.0 + d2c(x).abs()) / (h * h) { found.push(format!("second_derivative of a cubic at {x}, h={h}: {s} vs {}", d2c(x))); }
        // leading error terms:  f' - D = h^4 f^(5)/30,  D2 - f'' = h^2 f^(4)/12
        let d5: f64 = derivative(|t: f64| t.powi(5), x, h); let want = 5.0 * x.powi(4) - h.powi(4) * 120.0 / 30.0;
        if (d5 - want).abs() > 1e-8 * (1.0 + want.abs()) / h { found.push(format!("derivative of x^5 at {x}, h={h}: {d5}, formula predicts {want}")); }
        let s4: f64 = second_derivative(|t: f64| t.powi(4), x, h); let want2 = 12.0 * x * x + h * h * 24.0 / 12.0;
        if (s4 - want2).abs() > 1e-7 * (1.0 + want2.abs()) / (h * h) { found.push(format!("second_derivative of x^4 at {x}, h={h}: {s4}, formula predicts {want2}")); }
    } }
    found.truncate(8);
    println!("{{\"found\": {}, \"failures\": {:?}}}", !found.is_empty(), found);
    std::process::exit(if found.is_empty() { 0 } else { 1 });
}
