// Witness probes for C13: coefficient editing on the real crate.
use bacon_sci::polynomial::Polynomial;
fn main() {
    let mut found = Vec::new();
    // purge_coefficient(k) with k == number of coefficients: a power the polynomial does not have
    let mut p: Polynomial<f64> = Polynomial::from_slice(&[3.0, 2.0, 1.0]); // 3x^2+2x+1
    let before = p.get_coefficients();
    let r = std::panic::catch_unwind(move || { p.purge_coefficient(3); p.get_coefficients() });
    match r { Ok(after) => if after != before { found.push(format!("purge_coefficient(3) on 3x^2+2x+1 changed {:?} -> {:?}", before, after)); },
              Err(_) => found.push("purge_coefficient(3) panicked".to_string()) }
    let mut p: Polynomial<f64> = Polynomial::from_slice(&[3.0, 2.0, 1.0]);
    let before = p.get_coefficients();
    let r = std::panic::catch_unwind(move || { p.purge_coefficient(7); p.get_coefficients() });
    match r { Ok(after) => if after != before { found.push(format!("purge_coefficient(7) changed {:?} -> {:?}", before, after)); },
              Err(_) => found.push("purge_coefficient(7) on a quadratic panicked (index out of bounds)".to_string()) }
    let mut p: Polynomial<f64> = Polynomial::from_slice(&[3.0, 2.0, 1.0]);
    p.purge_coefficient(1);
    if p.get_coefficients() != vec![3.0, 0.0, 1.0] { found.push(format!("purge_coefficient(1) gave {:?}", p.get_coefficients())); }
    let mut p: Polynomial<f64> = Polynomial::from_slice(&[3.0, 2.0, 1.0]);
    p.purge_coefficient(2);
    if p.get_coefficient(2) != 0.0 || p.get_coefficient(1) != 2.0 || p.get_coefficient(0) != 1.0 { found.push(format!("purge_coefficient(2) gave {:?}", p.get_coefficients())); }
    // arithmetic agrees with the reference coefficient map, in every ownership form and for every pair of degrees
    {
        let mut seed = 1313u64;
        let mut rnd = move || { seed = seed.wrapping_mul(6364136223846793005).wrapping_add(1442695040888963407); (((seed >> 33) as f64 / (1u64 << 31) as f64) * 2.0 - 1.0) * 8.0 };
        for trial in 0..120 {
            let (da, db) = (trial % 6, (trial / 6) % 5);
            let mut a: Vec<f64> = (0..=da).map(|_| rnd().round() / 2.0).collect(); let mut b: Vec<f64> = (0..=db).map(|_| rnd().round() / 2.0).collect();
            if a[da] == 0.0 { a[da] = 1.5; } if b[db] == 0.0 { b[db] = -2.0; }
            let pa: Polynomial<f64> = Polynomial::from_slice(&a.iter().rev().cloned().collect::<Vec<_>>()); let pb: Polynomial<f64> = Polynomial::from_slice(&b.iter().rev().cloned().collect::<Vec<_>>());
            let at = |v: &Vec<f64>, k: usize| if k < v.len() { v[k] } else { 0.0 };
            let n = da.max(db) + 1;
            let forms: Vec<(&str, Polynomial<f64>, f64)> = vec![("&a + &b", &pa + &pb, 1.0), ("&a - &b", &pa - &pb, -1.0), ("a + &b", pa.clone() + &pb, 1.0), ("a - &b", pa.clone() - &pb, -1.0),
                ("&a + b", &pa + pb.clone(), 1.0), ("&a - b", &pa - pb.clone(), -1.0), ("a + b", pa.clone() + pb.clone(), 1.0), ("a - b", pa.clone() - pb.clone(), -1.0),
                ("a += &b", { let mut t = pa.clone(); t += &pb; t }, 1.0), ("a -= &b", { let mut t = pa.clone(); t -= &pb; t }, -1.0)];
            for (name, r, sg) in forms.iter() {
                for k in 0..n { let want = at(&a, k) + sg * at(&b, k); if (r.get_coefficient(k) - want).abs() > 1e-12 { found.push(format!("{name} (deg {da}, deg {db}): coefficient of x^{k} is {} instead of {want}", r.get_coefficient(k))); break; } }
            }
            let sc = 2.5;
            let rs = &pa * sc; let rn = -&pa; let rd = &pa / sc;
            for k in 0..=da { if (rs.get_coefficient(k) - a[k] * sc).abs() > 1e-12 || (rn.get_coefficient(k) + a[k]).abs() > 1e-12 || (rd.get_coefficient(k) - a[k] / sc).abs() > 1e-12 { found.push(format!("scalar op / negation (deg {da}): coefficient {k} wrong")); break; } }
            let x0 = 0.7; let via = (&pa - &pb).evaluate(x0); if (via - (pa.evaluate(x0) - pb.evaluate(x0))).abs() > 1e-9 * (1.0 + via.abs()) { found.push(format!("(a-b)(x) != a(x) - b(x) for deg {da}, deg {db}")); }
        }
        let mut seen = std::collections::BTreeSet::new();
        found.retain(|f| seen.insert(f.split(" (deg").next().unwrap().to_string()));
    }
    println!("{{\"found\": {}, \"failures\": {:?}}}", !found.is_empty(), found);
    std::process::exit(if found.is_empty() { 0 } else { 1 });
}
