// Witness probes for C13: coefficient editing on the real crate.
use bacon_sci::polynomial::Polynomial;
fn main() {
    let mut found = Vec::new();
    // purge_coefficient(k) with k == number of coefficients: a power the polynomial does not have
    let mut p: Polynomial<f64> = Polynomial::from_slice(&[3.0, 2.0, 1.0]); // 3x^2+2x+1
    let before = p.get_coefficients();
    let r = std::panic::catch_unwind(move || { p.purge_coefficient(3); p.get_coefficients() });
    match r { Ok(after) => if after != before { found.push(format!("purge_coefficient(3) on 3x^2+2x+1 changed {:?} -> {:?}", before, after)); },
              Err(_) => found.push("purge_coefficient(3) panicked".to_string()) }
    let mut p: Polynomial<f64> = Polynomial::from_slice(&[3.0, 2.0, 1.0]);
    let before = p.get_coefficients();
    let r = std::panic::catch_unwind(move || { p.purge_coefficient(7); p.get_coefficients() });
    match r { Ok(after) => if after != before { found.push(format!("purge_coefficient(7) changed {:?} -> {:?}", before, after)); },
              Err(_) => found.push("purge_coefficient(7) on a quadratic panicked (index out of bounds)".to_string()) }
    let mut p: Polynomial<f64> = Polynomial::from_slice(&[3.0, 2.0, 1.0]);
    p.purge_coefficient(1);
    if p.get_coefficients() != vec![3.0, 0.0, 1.0] { found.push(format!("purge_coefficient(1) gave {:?}", p.get_coefficients())); }
    let mut p: Polynomial<f64> = Polynomial::from_slice(&[3.0, 2.0, 1.0]);
    p.purge_coefficient(2);
    if p.get_coefficient(2) != 0.0 || p.get_coefficient(1) != 2.0 || p.get_coefficient(0) != 1.0 { found.push(format!("purge_coefficient(2) gave {:?}", p.get_coefficients())); }
    println!("{{\"found\": {}, \"failures\": {:?}}}", !found.is_empty(), found);
    std::process::exit(if found.is_empty() { 0 } else { 1 });
}
