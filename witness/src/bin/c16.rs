// Witness probe for C16 (bounded): free and clamped cubic splines on non-uniform knots: interpolation, C2 continuity at interior
// knots (finite differences of the evaluated spline), end conditions, exactness on cubics (clamped) / lines (free), Err cases.
use bacon_sci::interp::{spline_clamped, spline_free};
fn main() {
    let mut found = Vec::new();
    let mut seed = 1616u64;
    let mut rnd = move || { seed = seed.wrapping_mul(6364136223846793005).wrapping_add(1442695040888963407); ((seed >> 33) as f64 / (1u64 << 31) as f64) * 2.0 - 1.0 };
    for trial in 0..60 {
        let n = 3 + trial % 7;
        let mut xs = vec![rnd()]; for _ in 1..n { let l = *xs.last().unwrap(); xs.push(l + 0.2 + (rnd() + 1.0) * 0.9); }
        let cubic = |x: f64| 0.5 * x * x * x - 1.5 * x * x + 0.25 * x + 2.0; let dcubic = |x: f64| 1.5 * x * x - 3.0 * x + 0.25;
        let ys_c: Vec<f64> = xs.iter().map(|x| cubic(*x)).collect();
        let ys_r: Vec<f64> = xs.iter().map(|_| rnd() * 3.0).collect();
        // clamped reproduces a cubic
        match spline_clamped(&xs, &ys_c, (dcubic(xs[0]), dcubic(xs[n - 1])), 1e-12) {
            Err(e) => found.push(format!("spline_clamped(cubic) Err({e}) on {xs:?}")),
            Ok(s) => { for k in 0..40 { let x = (xs[0] + (xs[n - 1] - xs[0]) * k as f64 / 39.0).min(xs[n - 1]); match s.evaluate(x) { Ok(v) => if (v - cubic(x)).abs() > 1e-8 * (1.0 + cubic(x).abs()) { found.push(format!("clamped spline does not reproduce the cubic at {x}: {v} vs {} (knots {xs:?})", cubic(x))); break; }, Err(e) => { found.push(format!("clamped evaluate({x}) inside the knot range: Err({e})")); break; } } } }
        }
        // free reproduces a line
        let ys_l: Vec<f64> = xs.iter().map(|x| 2.0 * x - 1.0).collect();
        if let Ok(s) = spline_free(&xs, &ys_l, 1e-12) { for k in 0..20 { let x = (xs[0] + (xs[n - 1] - xs[0]) * k as f64 / 19.0).min(xs[n - 1]); if let Ok(v) = s.evaluate(x) { if (v - (2.0 * x - 1.0)).abs() > 1e-9 { found.push(format!("free spline does not reproduce a line at {x}")); break; } } } } else { found.push("spline_free(line) Err".into()); }
        // random data: interpolation, C1/C2 at interior knots, end conditions
        for which in 0..2 {
            let (sl, sr) = (rnd(), rnd());
            let sp = if which == 0 { spline_free(&xs, &ys_r, 1e-12) } else { spline_clamped(&xs, &ys_r, (sl, sr), 1e-12) };
            let name = if which == 0 { "free" } else { "clamped" };
            let s = match sp { Ok(s) => s, Err(e) => { found.push(format!("spline_{name} Err({e}) on increasing knots {xs:?}")); continue; } };
            for i in 0..n { if let Ok(v) = s.evaluate(xs[i]) { if (v - ys_r[i]).abs() > 1e-9 * (1.0 + ys_r[i].abs()) { found.push(format!("{name} spline misses data point {i}: {v} vs {}", ys_r[i])); break; } } }
            let h = 1e-5;
            for i in 1..n - 1 {
                let (l1, r1) = (s.evaluate_derivative(xs[i] - h).unwrap().1, s.evaluate_derivative(xs[i] + h).unwrap().1);
                if (l1 - r1).abs() > 1e-3 * (1.0 + l1.abs()) { found.push(format!("{name} spline: first derivative jumps at interior knot {i}: {l1} vs {r1} (knots {xs:?})")); break; }
                let d2l = (s.evaluate_derivative(xs[i] - h).unwrap().1 - s.evaluate_derivative(xs[i] - 2.0 * h).unwrap().1) / h;
                let d2r = (s.evaluate_derivative(xs[i] + 2.0 * h).unwrap().1 - s.evaluate_derivative(xs[i] + h).unwrap().1) / h;
                if (d2l - d2r).abs() > 2e-2 * (1.0 + d2l.abs()) { found.push(format!("{name} spline: second derivative jumps at interior knot {i}: {d2l} vs {d2r} (knots {xs:?})")); break; }
            }
            if which == 1 {
                let (d0, dn) = (s.evaluate_derivative(xs[0]).unwrap().1, s.evaluate_derivative(xs[n - 1]).unwrap().1);
                if (d0 - sl).abs() > 1e-8 * (1.0 + sl.abs()) || (dn - sr).abs() > 1e-8 * (1.0 + sr.abs()) { found.push(format!("clamped spline end slopes {d0}, {dn} instead of {sl}, {sr}")); }
            } else {
                let e2 = (s.evaluate_derivative(xs[0] + h).unwrap().1 - s.evaluate_derivative(xs[0]).unwrap().1) / h;
                if e2.abs() > 1e-2 * (1.0 + ys_r.iter().fold(0.0f64, |a, b| a.max(b.abs()))) * 10.0 { found.push(format!("free spline: second derivative at the left end is {e2}")); }
            }
            if s.evaluate(xs[0] - 0.5).is_ok() || s.evaluate(xs[n - 1] + 0.5).is_ok() { found.push(format!("{name} spline evaluates outside the knot range")); }
        }
    }
    if spline_free(&[0.0, 1.0, 0.5], &[0.0, 1.0, 2.0], 1e-9).is_ok() { found.push("spline_free accepted decreasing knots".into()); }
    if spline_free(&[0.0], &[0.0], 1e-9).is_ok() { found.push("spline_free accepted a single point".into()); }
    if spline_clamped(&[0.0, 1.0], &[0.0], (0.0, 0.0), 1e-9).is_ok() { found.push("spline_clamped accepted mismatched lengths".into()); }
    let mut seen = std::collections::BTreeSet::new();
    found.retain(|f| seen.insert(f.chars().take(40).collect::<String>()));
    found.truncate(8);
    println!("{{\"found\": {}, \"failures\": {:?}}}", !found.is_empty(), found);
    std::process::exit(if found.is_empty() { 0 } else { 1 });
}
