// Witness probe for C18: degree of every constructor, and every coefficient against the classical closed forms
// (integer recurrences / binomial sums evaluated exactly in i128) up to rounding.
use bacon_sci::special::{chebyshev, chebyshev_second, legendre, hermite, laguerre};
fn binom(n: i128, k: i128) -> i128 { let mut r: i128 = 1; for i in 0..k { r = r * (n - i) / (i + 1); } r }
// integer three-term recurrences  p_{k+1} = a x p_k - b(k) p_{k-1}
fn rec(n: usize, p0: Vec<i128>, p1: Vec<i128>, a: i128, b: &dyn Fn(i128) -> i128) -> Vec<i128> {
    if n == 0 { return p0; }
    let (mut prev, mut cur) = (p0, p1);
    for k in 1..n {
        let mut next = vec![0i128; k + 2];
        for (i, c) in cur.iter().enumerate() { next[i + 1] += a * c; }
        for (i, c) in prev.iter().enumerate() { next[i] -= b(k as i128) * c; }
        prev = cur; cur = next;
    }
    cur
}
fn main() {
    let mut found = Vec::new();
    for n in 0u32..=20 {
        let nn = n as usize;
        let cheb: Vec<f64> = rec(nn, vec![1], vec![0, 1], 2, &|_| 1).iter().map(|&c| c as f64).collect();
        let cheb2: Vec<f64> = rec(nn, vec![1], vec![0, 2], 2, &|_| 1).iter().map(|&c| c as f64).collect();
        let herm: Vec<f64> = rec(nn, vec![1], vec![0, 2], 2, &|k| 2 * k).iter().map(|&c| c as f64).collect();
        // P_n = 2^-n sum_k (-1)^k C(n,k) C(2n-2k,n) x^(n-2k);   L_n = sum_k (-1)^k C(n,k)/k! x^k
        let mut leg = vec![0.0f64; nn + 1];
        for k in 0..=nn / 2 { let c = binom(n as i128, k as i128) * binom(2 * (n as i128) - 2 * k as i128, n as i128); leg[nn - 2 * k] = (if k % 2 == 0 { 1.0 } else { -1.0 }) * c as f64 / 2f64.powi(n as i32); }
        let mut lag = vec![0.0f64; nn + 1];
        let mut fact: f64 = 1.0;
        for k in 0..=nn { if k > 0 { fact *= k as f64; } lag[k] = (if k % 2 == 0 { 1.0 } else { -1.0 }) * binom(n as i128, k as i128) as f64 / fact; }
        for tol in [1e-14, 1e-12, 1e-10, 1e-8, 1e-6] {
            for (name, q, exact) in [("chebyshev", chebyshev::<f64>(n, tol).unwrap(), &cheb), ("chebyshev_second", chebyshev_second::<f64>(n, tol).unwrap(), &cheb2),
                                     ("legendre", legendre::<f64>(n, tol).unwrap(), &leg), ("hermite", hermite::<f64>(n, tol).unwrap(), &herm), ("laguerre", laguerre::<f64>(n, tol).unwrap(), &lag)] {
                if q.order() != nn { found.push(format!("{name}({n}, {tol:e}) has degree {}", q.order())); continue; }
                for (k, &e) in exact.iter().enumerate() {
                    let c = q.get_coefficient(k);
                    if (c - e).abs() > 1e-11 * e.abs() + tol { found.push(format!("{name}({n}, {tol:e}): coefficient of x^{k} is {c:e}, closed form {e:e}")); break; }
                }
            }
        }
    }
    found.truncate(12);
    println!("{{\"found\": {}, \"failures\": {:?}}}", !found.is_empty(), found);
    std::process::exit(if found.is_empty() { 0 } else { 1 });
}
