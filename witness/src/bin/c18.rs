// Witness probe for C18: Chebyshev constructor degree.
use bacon_sci::special::{chebyshev, chebyshev_second, legendre, hermite, laguerre};
fn main() {
    let mut found = Vec::new();
    for n in 0u32..=20 {
        for tol in [1e-14, 1e-12, 1e-10, 1e-8, 1e-6] {
            let p = chebyshev::<f64>(n, tol).unwrap();
            if p.order() != n as usize { found.push(format!("chebyshev({n}, {tol:e}) has degree {}", p.order())); }
            for (name, q) in [("chebyshev_second", chebyshev_second::<f64>(n, tol).unwrap()), ("legendre", legendre::<f64>(n, tol).unwrap()),
                              ("hermite", hermite::<f64>(n, tol).unwrap()), ("laguerre", laguerre::<f64>(n, tol).unwrap())] {
                if q.order() != n as usize { found.push(format!("{name}({n}, {tol:e}) has degree {}", q.order())); }
            }
        }
    }
    found.truncate(12);
    println!("{{\"found\": {}, \"failures\": {:?}}}", !found.is_empty(), found);
    std::process::exit(if found.is_empty() { 0 } else { 1 });
}
