// Witness probes for C17: linear_fit normal equations and curve_fit on a model linear in its parameters.
use bacon_sci::optimize::{curve_fit, linear_fit, CurveFitParams};
use nalgebra::SVector;
use std::sync::atomic::{AtomicUsize, Ordering};
static CALLS: AtomicUsize = AtomicUsize::new(0);
fn main() {
    let mut found = Vec::new();
    let xs: Vec<f64> = (0..9).map(|i| -2.0 + 0.5 * i as f64).collect();
    let ys: Vec<f64> = xs.iter().map(|x| 1.5 + 0.7 * x).collect();
    // linear_fit reproduces exactly linear data
    let p = linear_fit(&xs, &ys).unwrap();
    if (p.get_coefficient(0) - 1.5).abs() > 1e-12 || (p.get_coefficient(1) - 0.7).abs() > 1e-12 {
        found.push(format!("linear_fit on 1.5+0.7x gave {:?}", p.get_coefficients()));
    }
    if linear_fit(&xs, &ys[1..]).is_ok() { found.push("linear_fit accepted mismatched lengths".to_string()); }
    // curve_fit with the finite-difference Jacobian on the same data, model a + b x (budgeted)
    let model = |x: f64, p: &SVector<f64, 2>| { if CALLS.fetch_add(1, Ordering::Relaxed) > 200_000 { panic!("budget"); } p[0] + p[1] * x };
    let params = CurveFitParams::<f64> { damping: 2.0, tolerance: 1e-10, h: 0.1, damping_mult: 1.5 };
    let r = std::panic::catch_unwind(|| curve_fit(model, &xs, &ys, &[1.0, 1.0], &params));
    match r {
        Ok(Ok(q)) => if (q[0] - 1.5).abs() > 1e-4 || (q[1] - 0.7).abs() > 1e-4 { found.push(format!("curve_fit on data from 1.5+0.7x (start (1,1)) returned ({}, {})", q[0], q[1])); },
        Ok(Err(e)) => found.push(format!("curve_fit on linear data returned Err({e})")),
        Err(_) => found.push("curve_fit on linear data exhausted the model-call budget (200000 calls)".to_string()),
    }
    for (tol, h, d) in [(-1.0, 0.1, 2.0), (1e-6, -0.1, 2.0), (1e-6, 0.1, -2.0)] {
        let pr = CurveFitParams::<f64> { damping: d, tolerance: tol, h, damping_mult: 1.5 };
        if curve_fit(|x: f64, p: &SVector<f64, 2>| p[0] + p[1] * x, &xs, &ys, &[1.0, 1.0], &pr).is_ok() { found.push(format!("curve_fit accepted tol={tol} h={h} damping={d}")); }
    }
    println!("{{\"found\": {}, \"failures\": {:?}}}", !found.is_empty(), found);
    std::process::exit(if found.is_empty() { 0 } else { 1 });
}
