// Witness probes for C07 (bracketing root finders) on the real crate.
use bacon_sci::roots::{bisection, brent, itp};
use std::cell::RefCell;

fn main() {
    let mut found = Vec::new();
    // bisection: evaluation points must stay inside the bracket, result inside bracket near a sign change
    let cases: Vec<(f64, f64, Box<dyn Fn(f64) -> f64>, &str)> = vec![
        (1.0, 2.0, Box::new(|x| x * x - 2.0), "x^2-2 on (1,2)"),
        (-1.0, 3.0, Box::new(|x| x - 0.9), "x-0.9 on (-1,3)"),
        (10.0, 12.0, Box::new(|x| x - 11.3), "x-11.3 on (10,12)"),
        (-3.0, -1.0, Box::new(|x| 2.2 + x), "x+2.2 on (-3,-1)"),
        (0.5, 4.0, Box::new(|x| 1.0 - x), "1-x on (0.5,4)"),
    ];
    for (a, b, f, name) in cases.iter() {
        for tol in [1e-3, 1e-8] {
            let pts = RefCell::new(Vec::new());
            let r = bisection((*a, *b), |x| { pts.borrow_mut().push(x); f(x) }, tol, 200);
            let outside: Vec<f64> = pts.borrow().iter().cloned().filter(|x| *x < *a || *x > *b).collect();
            if !outside.is_empty() {
                found.push(format!("bisection {name} tol={tol}: evaluated outside bracket at {:?}", &outside[..outside.len().min(3)]));
            }
            if let Ok(x) = r {
                let w = 4.0 * tol * x.abs().max(1.0);
                let lo = (x - w).max(*a); let hi = (x + w).min(*b);
                if x < *a || x > *b || f(lo) * f(hi) > 0.0 {
                    found.push(format!("bisection {name} tol={tol}: Ok({x}) has no sign change within tolerance / outside bracket"));
                }
            }
        }
    }
    // itp
    for (a, b, f, name) in cases.iter() {
        let count = RefCell::new(0usize);
        let r = itp((*a, *b), |x| { *count.borrow_mut() += 1; if *count.borrow() > 10000 { return f64::NAN; } f(x) }, 0.1, 2.0, 1.0, 1e-6);
        match r {
            Ok(x) if x.is_nan() || *count.borrow() > 10000 => found.push(format!("itp {name}: Ok({x}) after {} evaluations (budget exhausted or NaN)", count.borrow())),
            Ok(x) => { if (f(x - 4e-6) * f(x + 4e-6)) > 0.0 { found.push(format!("itp {name}: Ok({x}) not near a sign change")); } }
            Err(_) => {}
        }
    }
    for (a, b, f, name) in cases.iter() {
        let r = brent((*a, *b), |x| f(x), 1e-9);
        if let Ok(x) = r { if x < *a || x > *b || f(x).abs() > 1e-6 { found.push(format!("brent {name}: Ok({x}) residual {}", f(x))); } }
    }
    // ITP's evaluation bound (n_1/2 + n_0 iterations, plus the two end points), in both orientations of the bracket and of f
    for (name, f, a, b) in [("-(x-0.3)^5 on (0,1)", (|x: f64| -(x - 0.3).powi(5)) as fn(f64) -> f64, 0.0, 1.0), ("(x-0.3)^5 on (0,1)", (|x: f64| (x - 0.3).powi(5)) as fn(f64) -> f64, 0.0, 1.0),
                            ("-(x^3) on (-1,10)", (|x: f64| -(x * x * x)) as fn(f64) -> f64, -1.0, 10.0), ("x^3 on (-1,10)", (|x: f64| x * x * x) as fn(f64) -> f64, -1.0, 10.0),
                            ("(x-0.3)^5 on (1,0)", (|x: f64| (x - 0.3).powi(5)) as fn(f64) -> f64, 1.0, 0.0), ("-(x^3) on (10,-1)", (|x: f64| -(x * x * x)) as fn(f64) -> f64, 10.0, -1.0)] {
        let c = std::cell::Cell::new(0usize);
        let r = itp((a, b), |x| { c.set(c.get() + 1); if c.get() > 20000 { return f64::NAN; } f(x) }, 0.1, 2.0, 1.0, 1e-6);
        let bound = (((b - a) as f64).abs() / 2e-6).log2().ceil() as usize + 1 + 2;
        if r.is_ok() && c.get() > bound + 4 { found.push(format!("itp {name}: {} function evaluations, the method's bound is {bound}", c.get())); }
    }
    // invalid parameters give Err; every call stays within an evaluation budget (a callback that panics past the budget,
    // caught here, makes a non-terminating loop observable)
    {
        use std::panic::{catch_unwind, AssertUnwindSafe};
        std::panic::set_hook(Box::new(|_| {}));
        let budget = 5000usize;
        let mut guarded = |name: &str, call: &mut dyn FnMut(&mut dyn FnMut(f64) -> f64) -> Option<bool>, want_err: bool| {
            let cnt = std::cell::Cell::new(0usize);
            let mut cb = |x: f64| -> f64 { cnt.set(cnt.get() + 1); if cnt.get() > budget { panic!("budget"); } x * x - 2.0 };
            let r = catch_unwind(AssertUnwindSafe(|| call(&mut cb)));
            match r {
                Err(_) => found.push(format!("{name}: more than {budget} function evaluations (does not terminate)")),
                Ok(Some(is_ok)) => { if want_err && is_ok { found.push(format!("{name}: returned Ok instead of Err")); } }
                Ok(None) => {}
            }
        };
        guarded("brent with tolerance -1e-3", &mut |cb| Some(brent((1.0, 2.0), |x| cb(x), -1e-3).is_ok()), true);
        guarded("brent on a bracket without sign change", &mut |cb| Some(brent((2.0, 3.0), |x| cb(x), 1e-6).is_ok()), true);
        guarded("brent (1,2) tol 1e-10", &mut |cb| Some(brent((1.0, 2.0), |x| cb(x), 1e-10).is_ok()), false);
        guarded("itp with tolerance -1e-3", &mut |cb| Some(itp((1.0, 2.0), |x| cb(x), 0.1, 2.0, 1.0, -1e-3).is_ok()), true);
        guarded("itp with k_1 = -1", &mut |cb| Some(itp((1.0, 2.0), |x| cb(x), -1.0, 2.0, 1.0, 1e-6).is_ok()), true);
        guarded("itp with k_2 = 0.5", &mut |cb| Some(itp((1.0, 2.0), |x| cb(x), 0.1, 0.5, 1.0, 1e-6).is_ok()), true);
        guarded("itp on a bracket without sign change", &mut |cb| Some(itp((2.0, 3.0), |x| cb(x), 0.1, 2.0, 1.0, 1e-6).is_ok()), true);
        guarded("itp (1,2) tol 1e-10", &mut |cb| Some(itp((1.0, 2.0), |x| cb(x), 0.1, 2.0, 1.0, 1e-10).is_ok()), false);
        guarded("bisection with tolerance -1e-3", &mut |cb| Some(bisection((1.0, 2.0), |x| cb(x), -1e-3, 100).is_ok()), true);
        guarded("bisection on a bracket without sign change", &mut |cb| Some(bisection((2.0, 3.0), |x| cb(x), 1e-6, 100).is_ok()), true);
    }
    println!("{{\"found\": {}, \"failures\": {:?}}}", !found.is_empty(), found);
    std::process::exit(if found.is_empty() { 0 } else { 1 });
}
