// Witness probes for C07 (bracketing root finders) on the real crate.
use bacon_sci::roots::{bisection, brent, itp};
use std::cell::RefCell;

fn main() {
    let mut found = Vec::new();
    // bisection: evaluation points must stay inside the bracket, result inside bracket near a sign change
    let cases: Vec<(f64, f64, Box<dyn Fn(f64) -> f64>, &str)> = vec![
        (1.0, 2.0, Box::new(|x| x * x - 2.0), "x^2-2 on (1,2)"),
        (-1.0, 3.0, Box::new(|x| x - 0.9), "x-0.9 on (-1,3)"),
        (10.0, 12.0, Box::new(|x| x - 11.3), "x-11.3 on (10,12)"),
        (-3.0, -1.0, Box::new(|x| 2.2 + x), "x+2.2 on (-3,-1)"),
        (0.5, 4.0, Box::new(|x| 1.0 - x), "1-x on (0.5,4)"),
    ];
    for (a, b, f, name) in cases.iter() {
        for tol in [1e-3, 1e-8] {
            let pts = RefCell::new(Vec::new());
            let r = bisection((*a, *b), |x| { pts.borrow_mut().push(x); f(x) }, tol, 200);
            let outside: Vec<f64> = pts.borrow().iter().cloned().filter(|x| *x < *a || *x > *b).collect();
            if !outside.is_empty() {
                found.push(format!("bisection {name} tol={tol}: evaluated outside bracket at {:?}", &outside[..outside.len().min(3)]));
            }
            if let Ok(x) = r {
                let w = 4.0 * tol * x.abs().max(1.0);
                let lo = (x - w).max(*a); let hi = (x + w).min(*b);
                if x < *a || x > *b || f(lo) * f(hi) > 0.0 {
                    found.push(format!("bisection {name} tol={tol}: Ok({x}) has no sign change within tolerance / outside bracket"));
                }
            }
        }
    }
    // itp
    for (a, b, f, name) in cases.iter() {
        let count = RefCell::new(0usize);
        let r = itp((*a, *b), |x| { *count.borrow_mut() += 1; if *count.borrow() > 10000 { return f64::NAN; } f(x) }, 0.1, 2.0, 1.0, 1e-6);
        match r {
            Ok(x) if x.is_nan() || *count.borrow() > 10000 => found.push(format!("itp {name}: Ok({x}) after {} evaluations (budget exhausted or NaN)", count.borrow())),
            Ok(x) => { if (f(x - 4e-6) * f(x + 4e-6)) > 0.0 { found.push(format!("itp {name}: Ok({x}) not near a sign change")); } }
            Err(_) => {}
        }
    }
    for (a, b, f, name) in cases.iter() {
        let r = brent((*a, *b), |x| f(x), 1e-9);
        if let Ok(x) = r { if x < *a || x > *b || f(x).abs() > 1e-6 { found.push(format!("brent {name}: Ok({x}) residual {}", f(x))); } }
    }
    println!("{{\"found\": {}, \"failures\": {:?}}}", !found.is_empty(), found);
    std::process::exit(if found.is_empty() { 0 } else { 1 });
}
