// Witness probe for C03 (Runge-Kutta part): every accepted point of RungeKutta45 / RungeKutta23 is compared with
// one step of the published Fehlberg 4(5) / Bogacki-Shampine 3(2) scheme taken from the previous point.
use bacon_sci::ivp::{rk::{RungeKutta23, RungeKutta45}, IVPSolver, UserError};
use bacon_sci::BSVector;
fn f(t: f64, y: &[f64]) -> [f64; 2] { [t * y[1] + y[0].sin(), -y[0] + 0.3 * t * t - 0.1 * y[1] * y[1]] }
fn deriv(t: f64, y: &[f64], _: &mut ()) -> Result<BSVector<f64, 2>, UserError> { Ok(BSVector::from_column_slice(&f(t, y))) }
fn rk_step(c: &[f64], a: &[&[f64]], b: &[f64], e: &[f64], t: f64, y: [f64; 2], h: f64) -> ([f64; 2], f64) {
    let s = c.len(); let mut k: Vec<[f64; 2]> = Vec::new();
    for i in 0..s { let mut yy = y; for j in 0..i { for d in 0..2 { yy[d] += a[i][j] * k[j][d]; } } let v = f(t + c[i] * h, &yy); k.push([h * v[0], h * v[1]]); }
    let mut out = y; let mut er = [0.0; 2];
    for i in 0..s { for d in 0..2 { out[d] += b[i] * k[i][d]; er[d] += e[i] * k[i][d]; } }
    (out, (er[0] * er[0] + er[1] * er[1]).sqrt() / h)
}
fn main() {
    let mut found = Vec::new();
    // Fehlberg 4(5)
    let c45 = [0.0, 0.25, 3.0 / 8.0, 12.0 / 13.0, 1.0, 0.5];
    let a45: [&[f64]; 6] = [&[], &[0.25], &[3.0 / 32.0, 9.0 / 32.0], &[1932.0 / 2197.0, -7200.0 / 2197.0, 7296.0 / 2197.0],
        &[439.0 / 216.0, -8.0, 3680.0 / 513.0, -845.0 / 4104.0], &[-8.0 / 27.0, 2.0, -3544.0 / 2565.0, 1859.0 / 4104.0, -11.0 / 40.0]];
    let b4 = [25.0 / 216.0, 0.0, 1408.0 / 2565.0, 2197.0 / 4104.0, -0.2, 0.0];
    let b5 = [16.0 / 135.0, 0.0, 6656.0 / 12825.0, 28561.0 / 56430.0, -9.0 / 50.0, 2.0 / 55.0];
    let e45: Vec<f64> = (0..6).map(|i| b5[i] - b4[i]).collect();
    // Bogacki-Shampine 3(2)
    let c23 = [0.0, 0.5, 0.75, 1.0];
    let a23: [&[f64]; 4] = [&[], &[0.5], &[0.0, 0.75], &[2.0 / 9.0, 1.0 / 3.0, 4.0 / 9.0]];
    let b3 = [2.0 / 9.0, 1.0 / 3.0, 4.0 / 9.0, 0.0];
    let b2 = [7.0 / 24.0, 0.25, 1.0 / 3.0, 0.125];
    let e23: Vec<f64> = (0..4).map(|i| b3[i] - b2[i]).collect();
    let tol = 1e-5;
    for which in 0..2 {
        let path = if which == 0 {
            RungeKutta45::new().unwrap().with_maximum_dt(0.2).unwrap().with_minimum_dt(1e-6).unwrap().with_initial_time(0.0).unwrap().with_ending_time(2.0).unwrap()
                .with_tolerance(tol).unwrap().with_initial_conditions_slice(&[0.7, -0.4]).unwrap().with_derivative(deriv).solve(()).unwrap().collect_vec()
        } else {
            RungeKutta23::new().unwrap().with_maximum_dt(0.2).unwrap().with_minimum_dt(1e-6).unwrap().with_initial_time(0.0).unwrap().with_ending_time(2.0).unwrap()
                .with_tolerance(tol).unwrap().with_initial_conditions_slice(&[0.7, -0.4]).unwrap().with_derivative(deriv).solve(()).unwrap().collect_vec()
        };
        let name = if which == 0 { "RungeKutta45" } else { "RungeKutta23" };
        let path = match path { Ok(p) => p, Err(e) => { found.push(format!("{name}: solve failed: {e:?}")); continue; } };
        let (mut t, mut y) = (0.0, [0.7, -0.4]);
        for (k, (tn, yn)) in path.iter().enumerate() {
            let h = tn - t;
            let (r, err) = if which == 0 { rk_step(&c45, &a45, &b4, &e45, t, y, h) } else { rk_step(&c23, &a23, &b3, &e23, t, y, h) };
            let d = ((r[0] - yn[0]).powi(2) + (r[1] - yn[1]).powi(2)).sqrt();
            if d > 1e-12 * (1.0 + r[0].abs() + r[1].abs()) { found.push(format!("{name}: point {k} at t={tn} (h={h}) differs from one published step by {d:e}")); break; }
            if err > tol * (1.0 + 1e-9) { found.push(format!("{name}: point {k} at t={tn} accepted with error estimate per unit step {err:e} > tol {tol:e}")); break; }
            t = *tn; y = [yn[0], yn[1]];
        }
    }
    // ---- Adams: y' = g(t) does not depend on y, so the derivative history is g at the history times whatever the
    // predictor was; every yielded point must be an RK4 step or the Adams-Moulton corrector over the preceding equally spaced points
    {
        use bacon_sci::ivp::adams::{Adams3, Adams5};
        fn g(t: f64) -> f64 { (1.3 * t).cos() + 0.5 * t }
        fn gd(t: f64, _y: &[f64], _: &mut ()) -> Result<BSVector<f64, 1>, UserError> { Ok(BSVector::from_column_slice(&[g(t)])) }
        // (dt_max, tol): the second configuration forces rejected trials (roll-back after the start-up, step-size changes)
        for (order, dtmax, atol) in [(3usize, 0.05, 1e-3), (5, 0.05, 1e-3), (3, 0.4, 1e-8), (5, 0.4, 1e-8)] {
            let path = if order == 5 {
                Adams5::new().unwrap().with_maximum_dt(dtmax).unwrap().with_minimum_dt(1e-7).unwrap().with_tolerance(atol).unwrap().with_initial_time(0.0).unwrap()
                    .with_ending_time(1.02).unwrap().with_initial_conditions_slice(&[0.25]).unwrap().with_derivative(gd).solve(()).unwrap().collect_vec()
            } else {
                Adams3::new().unwrap().with_maximum_dt(dtmax).unwrap().with_minimum_dt(1e-7).unwrap().with_tolerance(atol).unwrap().with_initial_time(0.0).unwrap()
                    .with_ending_time(1.02).unwrap().with_initial_conditions_slice(&[0.25]).unwrap().with_derivative(gd).solve(()).unwrap().collect_vec()
            };
            let name = format!("Adams{order}(dt_max={dtmax}, tol={atol:e})");
            let path = match path { Ok(p) => p, Err(e) => { found.push(format!("{name}: solve failed: {e:?}")); continue; } };
            let am: &[f64] = if order == 5 { &[251.0 / 720.0, 646.0 / 720.0, -264.0 / 720.0, 106.0 / 720.0, -19.0 / 720.0] } else { &[5.0 / 12.0, 8.0 / 12.0, -1.0 / 12.0] };
            let mut pts: Vec<(f64, f64)> = vec![(0.0, 0.25)];
            for (k, (tn, yn)) in path.iter().enumerate() {
                let (t, y) = *pts.last().unwrap(); let h = tn - t;
                // RK4 on y' = g(t) is Simpson's rule
                let rk4 = y + h / 6.0 * (g(t) + 4.0 * g(t + 0.5 * h) + g(t + h));
                // Adams-Moulton corrector over the new time and the order-1 preceding equally spaced times
                let mut amv = y + h * am[0] * g(*tn);
                for j in 1..order { amv += h * am[j] * g(*tn - j as f64 * h); }
                let spaced = pts.len() >= order - 1 && (1..order - 1).all(|j| ((pts[pts.len() - j].0 - pts[pts.len() - 1 - j].0) - h).abs() < 1e-9);
                let ok = (rk4 - yn[0]).abs() < 1e-11 || (spaced && (amv - yn[0]).abs() < 1e-11);
                if !ok { found.push(format!("{name}: point {k} at t={tn} (h={h:.6}) is neither an RK4 step ({:e} off) nor the Adams-Moulton update of the preceding equally spaced points ({:e} off)", (rk4 - yn[0]).abs(), (amv - yn[0]).abs())); break; }
                pts.push((*tn, yn[0]));
            }
        }
    }
    // ---- BDF: y' = g(t): every yielded point is an RK4 step or satisfies the implicit BDF formula of the advertised order at the NEW time
    {
        use bacon_sci::ivp::bdf::{BDF2, BDF6};
        fn g(t: f64) -> f64 { (1.3 * t).cos() + 0.5 * t }
        fn gd(t: f64, _y: &[f64], _: &mut ()) -> Result<BSVector<f64, 1>, UserError> { Ok(BSVector::from_column_slice(&[g(t)])) }
        for k in [2usize, 6] {
            let tol = 1e-4;
            let path = if k == 6 {
                BDF6::new().unwrap().with_maximum_dt(0.05).unwrap().with_minimum_dt(1e-7).unwrap().with_tolerance(tol).unwrap().with_initial_time(0.0).unwrap()
                    .with_ending_time(1.02).unwrap().with_initial_conditions_slice(&[0.25]).unwrap().with_derivative(gd).solve(()).unwrap().collect_vec()
            } else {
                BDF2::new().unwrap().with_maximum_dt(0.05).unwrap().with_minimum_dt(1e-7).unwrap().with_tolerance(tol).unwrap().with_initial_time(0.0).unwrap()
                    .with_ending_time(1.02).unwrap().with_initial_conditions_slice(&[0.25]).unwrap().with_derivative(gd).solve(()).unwrap().collect_vec()
            };
            let name = format!("BDF{k}");
            let path = match path { Ok(p) => p, Err(e) => { found.push(format!("{name}: solve failed: {e:?}")); continue; } };
            if path.is_empty() { found.push(format!("{name}: Ok but EMPTY path")); continue; }
            // y_{n+1} + a_1 y_n + ... + a_k y_{n+1-k} = b h f(t_{n+1})
            let (b, a): (f64, Vec<f64>) = if k == 6 { (60.0 / 147.0, vec![-360.0 / 147.0, 450.0 / 147.0, -400.0 / 147.0, 225.0 / 147.0, -72.0 / 147.0, 10.0 / 147.0]) } else { (2.0 / 3.0, vec![-4.0 / 3.0, 1.0 / 3.0]) };
            let mut pts: Vec<(f64, f64)> = vec![(0.0, 0.25)];
            for (i, (tn, yn)) in path.iter().enumerate() {
                let (t, y) = *pts.last().unwrap(); let h = tn - t;
                let rk4 = y + h / 6.0 * (g(t) + 4.0 * g(t + 0.5 * h) + g(t + h));
                let spaced = pts.len() >= k && (1..k).all(|j| ((pts[pts.len() - j].0 - pts[pts.len() - 1 - j].0) - h).abs() < 1e-9);
                let mut res = f64::INFINITY;
                if spaced { res = yn[0] - b * h * g(*tn); for j in 1..=k { res += a[j - 1] * pts[pts.len() - j].1; } }
                let ok = (rk4 - yn[0]).abs() < 1e-11 || res.abs() <= 2.0 * tol;
                if !ok { found.push(format!("{name}: point {i} at t={tn} (h={h:.6}) is neither an RK4 step ({:e} off) nor a solution of the BDF{k} formula at the new time (residual {:e}, tol {tol:e})", (rk4 - yn[0]).abs(), res.abs())); break; }
                pts.push((*tn, yn[0]));
            }
        }
    }
    found.truncate(8);
    println!("{{\"found\": {}, \"failures\": {:?}}}", !found.is_empty(), found);
    std::process::exit(if found.is_empty() { 0 } else { 1 });
}
