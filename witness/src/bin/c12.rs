// Witness probe for C12: reconstruction identity and degree of the remainder on the real crate.
use bacon_sci::polynomial::Polynomial;
fn main() {
    let mut found = Vec::new();
    let mut seed = 12345u64;
    let mut rnd = move || { seed = seed.wrapping_mul(6364136223846793005).wrapping_add(1442695040888963407); ((seed >> 33) as f64 / (1u64 << 31) as f64) * 2.0 - 1.0 };
    for trial in 0..400 {
        let dn = 1 + (trial % 12); let dd = trial % 7;
        // magnitudes up to 1e9: rounding residues of the eliminated leading term then exceed the zero tolerance and the loop meets the same power twice
        let mag = [1.0, 1e4, 1e8, 1e9][(trial / 5) % 4];
        let mut a: Vec<f64> = (0..=dn).map(|_| rnd() * 3.0 * mag).collect();
        let mut d: Vec<f64> = (0..=dd).map(|_| rnd() * 2.0).collect();
        if d[0].abs() < 0.1 { d[0] = 0.5; }
        if a[0].abs() < 0.1 { a[0] = 1.0; }
        if trial % 5 == 0 { // exact multiple
            let q: Polynomial<f64> = Polynomial::from_slice(&[1.0, -2.0, 0.5]);
            let dp: Polynomial<f64> = Polynomial::from_slice(&d);
            a = (&q * &dp).get_coefficients();
        }
        let ap: Polynomial<f64> = Polynomial::from_slice(&a);
        let dp: Polynomial<f64> = Polynomial::from_slice(&d);
        match ap.divide(&dp) {
            Ok((q, r)) => {
                if dd >= 1 && r.order() >= dp.order() && !(r.order() == 0) { found.push(format!("deg r = {} >= deg d = {} for a={a:?} d={d:?}", r.order(), dp.order())); }
                let rec = &(&q * &dp) + &r;
                // backward-error scale of the property: |q| |d| + |dividend|
                let qn: f64 = q.get_coefficients().iter().map(|x| x.abs()).sum(); let dn_: f64 = d.iter().map(|x| x.abs()).sum();
                let scale: f64 = qn * dn_ + a.iter().map(|x| x.abs()).sum::<f64>() + 1.0;
                for k in 0..=ap.order().max(rec.order()) {
                    if (rec.get_coefficient(k) - ap.get_coefficient(k)).abs() > 1e-11 * scale + 1e-9 { found.push(format!("q*d+r differs from the dividend at x^{k}: a={a:?} d={d:?}")); break; }
                }
            }
            Err(e) => found.push(format!("divide returned Err({e}) for a={a:?} d={d:?}")),
        }
    }
    // complex coefficients (bounded): reconstruction identity and degree of the remainder
    {
        use nalgebra::Complex; type C = Complex<f64>;
        let cases: Vec<(Vec<C>, Vec<C>)> = vec![
            (vec![C::new(1.0, 0.0), C::new(-1.0, 1.0), C::new(0.0, 0.0)], vec![C::new(1.0, 0.0), C::new(-1.0, 0.0)]),
            (vec![C::new(0.0, 1.0), C::new(0.0, 0.0), C::new(0.0, 0.0), C::new(0.0, 0.0), C::new(0.0, -1.0)], vec![C::new(1.0, 0.0), C::new(0.0, 0.0), C::new(1.0, 0.0)]),
            (vec![C::new(2.0, -1.0), C::new(0.0, 3.0), C::new(1.0, 1.0), C::new(-4.0, 0.5)], vec![C::new(0.0, 2.0), C::new(1.0, -1.0)]),
        ];
        for (a, d) in cases {
            let ap: Polynomial<C> = Polynomial::from_slice(&a); let dp: Polynomial<C> = Polynomial::from_slice(&d);
            match ap.divide(&dp) {
                Ok((q, r)) => {
                    if r.order() >= dp.order() && dp.order() > 0 { found.push(format!("complex: deg r = {} >= deg d = {} for a={a:?} d={d:?}", r.order(), dp.order())); }
                    // q*d + r by direct convolution (the crate's complex FFT product is a separate, known problem: C11 not decided)
                    let n = ap.order().max(q.order() + dp.order());
                    for k in 0..=n {
                        let mut v = if k <= r.order() { r.get_coefficient(k) } else { C::new(0.0, 0.0) };
                        for i in 0..=k.min(q.order()) { if k - i <= dp.order() { v += q.get_coefficient(i) * dp.get_coefficient(k - i); } }
                        let want = if k <= ap.order() { ap.get_coefficient(k) } else { C::new(0.0, 0.0) };
                        if (v - want).norm() > 1e-9 { found.push(format!("complex: q*d+r differs from the dividend at x^{k} by {:e}: a={a:?} d={d:?}", (v - want).norm())); break; }
                    }
                }
                Err(e) => found.push(format!("complex: divide returned Err({e}) for a={a:?} d={d:?}")),
            }
        }
    }
    let z: Polynomial<f64> = Polynomial::from_slice(&[0.0]);
    let one: Polynomial<f64> = Polynomial::from_slice(&[1.0, 2.0]);
    if one.divide(&z).is_ok() { found.push("division by the zero polynomial returned Ok".into()); }
    found.truncate(8);
    println!("{{\"found\": {}, \"failures\": {:?}}}", !found.is_empty(), found);
    std::process::exit(if found.is_empty() { 0 } else { 1 });
}
