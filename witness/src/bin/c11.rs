// Witness probe for C11 (bounded): products against the schoolbook convolution, real and complex, all degree combinations
// (degree >= 2 on both sides goes through the FFT path, which the contracts do not decide); commutativity; sum/difference.
use bacon_sci::polynomial::Polynomial;
use nalgebra::Complex;
type C = Complex<f64>;
fn conv<T: Copy + std::ops::Mul<Output = T> + std::ops::AddAssign + Default>(a: &[T], b: &[T]) -> Vec<T> {
    let mut r = vec![T::default(); a.len() + b.len() - 1];
    for (i, x) in a.iter().enumerate() { for (j, y) in b.iter().enumerate() { r[i + j] += *x * *y; } }
    r
}
fn main() {
    let mut found = Vec::new();
    let mut seed = 424242u64;
    let mut rnd = move || { seed = seed.wrapping_mul(6364136223846793005).wrapping_add(1442695040888963407); ((seed >> 33) as f64 / (1u64 << 31) as f64) * 2.0 - 1.0 };
    for trial in 0..200 {
        let (da, db) = (trial % 9, (trial / 9) % 8);
        // lowest power first here; from_slice wants the highest first
        let mut a: Vec<f64> = (0..=da).map(|_| (rnd() * 4.0).round() / 2.0).collect(); let mut b: Vec<f64> = (0..=db).map(|_| (rnd() * 4.0).round() / 2.0).collect();
        if a[da] == 0.0 { a[da] = 1.0; } if b[db] == 0.0 { b[db] = -1.5; }
        let pa: Polynomial<f64> = Polynomial::from_slice(&a.iter().rev().cloned().collect::<Vec<_>>()); let pb: Polynomial<f64> = Polynomial::from_slice(&b.iter().rev().cloned().collect::<Vec<_>>());
        let want = conv(&a, &b);
        // rounding bound proportional to machine epsilon x |a|_1 |b|_1 (the exact FFT stays below 1e-15 of it)
        let scale = if trial % 2 == 0 { 1.0 } else { 37.0 };
        let (pa, pb, want) = if scale == 1.0 { (pa, pb, want) } else { (&pa * scale, &pb * scale, want.iter().map(|w| w * scale * scale).collect::<Vec<_>>()) };
        let got = &pa * &pb; let got2 = &pb * &pa;
        let n1: f64 = a.iter().map(|x| (x * scale).abs()).sum::<f64>() * b.iter().map(|x| (x * scale).abs()).sum::<f64>();
        if got.order() != da + db { found.push(format!("real product deg {da} x {db}: the product has order {}", got.order())); }
        for k in 0..want.len() {
            if (got.get_coefficient(k) - want[k]).abs() > 2e-13 * (1.0 + n1) { found.push(format!("real product deg {da} x {db}: coefficient {k} is {} instead of {} (error {:e}, |a|_1|b|_1 = {n1})", got.get_coefficient(k), want[k], (got.get_coefficient(k) - want[k]).abs())); break; }
            if (got2.get_coefficient(k) - got.get_coefficient(k)).abs() > 1e-9 { found.push(format!("real product deg {da} x {db} not commutative at coefficient {k}")); break; }
        }
        if trial % 3 == 0 {
            let ca: Vec<C> = a.iter().map(|x| C::new(*x, (rnd() * 4.0).round() / 2.0)).collect(); let cb: Vec<C> = b.iter().map(|x| C::new((rnd() * 4.0).round() / 2.0, *x)).collect();
            let qa: Polynomial<C> = Polynomial::from_slice(&ca.iter().rev().cloned().collect::<Vec<_>>()); let qb: Polynomial<C> = Polynomial::from_slice(&cb.iter().rev().cloned().collect::<Vec<_>>());
            let mut want = vec![C::new(0.0, 0.0); ca.len() + cb.len() - 1];
            for (i, x) in ca.iter().enumerate() { for (j, y) in cb.iter().enumerate() { want[i + j] += *x * *y; } }
            let got = &qa * &qb;
            for k in 0..want.len() { if (got.get_coefficient(k) - want[k]).norm() > 1e-9 * (1.0 + want[k].norm()) { found.push(format!("complex product deg {da} x {db}: coefficient {k} is {} instead of {}", got.get_coefficient(k), want[k])); break; } }
        }
    }
    let mut seen = std::collections::BTreeSet::new();
    found.retain(|f| seen.insert(f.split(':').next().unwrap().split(" deg").next().unwrap().to_string()));
    println!("{{\"found\": {}, \"failures\": {:?}}}", !found.is_empty(), found);
    std::process::exit(if found.is_empty() { 0 } else { 1 });
}
