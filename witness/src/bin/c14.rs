// Witness probe for C14: Polynomial::roots and the orthogonal-polynomial zeros on the real crate.
use bacon_sci::polynomial::Polynomial;
use bacon_sci::special::{hermite_zeros, laguerre_zeros, legendre_zeros};
use nalgebra::Complex;
type C = Complex<f64>;
fn expand(roots: &[C], lead: f64) -> Vec<C> {
    let mut c = vec![C::new(lead, 0.0)];
    for r in roots { let mut n = vec![C::new(0.0, 0.0); c.len() + 1]; for (i, v) in c.iter().enumerate() { n[i + 1] += *v; n[i] -= *v * *r; } c = n; }
    c
}
fn check(name: &str, coef_re: Option<Vec<f64>>, coef_c: Vec<C>, truth: &[C], tol: f64, found: &mut Vec<String>) {
    let res = match &coef_re { Some(v) => Polynomial::<f64>::from_slice(&v.iter().rev().copied().collect::<Vec<_>>()).roots(tol, 1000), None => Polynomial::<C>::from_slice(&coef_c.iter().rev().copied().collect::<Vec<_>>()).roots(tol, 1000) };
    let deg = coef_c.len() - 1;
    match res {
        Err(e) => found.push(format!("{name}: roots() returned Err({e})")),
        Ok(rs) => {
            if rs.len() != deg { found.push(format!("{name}: {} roots for degree {deg}", rs.len())); return; }
            let scale: f64 = coef_c.iter().map(|c| c.norm()).sum::<f64>();
            let mut used = vec![false; truth.len()];
            for r in rs.iter() {
                if !r.re.is_finite() || !r.im.is_finite() { found.push(format!("{name}: non-finite root {r}")); return; }
                let mut v = C::new(0.0, 0.0); for c in coef_c.iter().rev() { v = v * *r + *c; }
                if v.norm() > 1e3 * tol.max(1e-13 * scale * 3f64.powi(deg as i32)) { found.push(format!("{name}: residual {} at returned root {r}", v.norm())); return; }
                let mut best = None; let mut bd = 1e9;
                for (i, t) in truth.iter().enumerate() { let d = (*t - *r).norm(); if d < bd { bd = d; best = Some(i); } }
                if let Some(i) = best { if bd > 1e-3 { found.push(format!("{name}: returned {r} is {bd} away from every true root")); return; } if used[i] { found.push(format!("{name}: true root {} returned twice (one root lost)", truth[i])); return; } used[i] = true; }
            }
        }
    }
}
fn main() {
    let mut found = Vec::new();
    let mut seed = 98765u64;
    let mut rnd = move || { seed = seed.wrapping_mul(6364136223846793005).wrapping_add(1442695040888963407); ((seed >> 33) as f64 / (1u64 << 31) as f64) * 2.0 - 1.0 };
    // sparse x^n - c
    for n in 1..=8usize { for c in [1.0f64, 2.0, -3.0] {
        let mut v = vec![0.0; n + 1]; v[0] = -c; v[n] = 1.0;
        let truth: Vec<C> = (0..n).map(|k| { let (m, a0) = if c > 0.0 { (c.powf(1.0 / n as f64), 0.0) } else { ((-c).powf(1.0 / n as f64), std::f64::consts::PI) }; C::from_polar(m, (a0 + 2.0 * std::f64::consts::PI * k as f64) / n as f64) }).collect();
        check(&format!("x^{n} - {c}"), Some(v.clone()), v.iter().map(|x| C::new(*x, 0.0)).collect(), &truth, 1e-8, &mut found);
    } }
    // separated random roots
    for trial in 0..300 {
        let deg = 1 + trial % 10;
        let mut roots: Vec<C> = Vec::new();
        let real_coeffs = trial % 3 != 0;
        let mut guard = 0;
        while roots.len() < deg && guard < 10000 {
            guard += 1;
            let z = C::new(rnd() * 3.0, if real_coeffs && (roots.len() + 1 == deg || trial % 2 == 0) { 0.0 } else { rnd() * 3.0 });
            if z.norm() > 3.0 { continue; }
            let mut cand = vec![z]; if real_coeffs && z.im != 0.0 { if z.im.abs() < 0.15 { continue; } cand.push(z.conj()); }
            if roots.len() + cand.len() > deg { continue; }
            if cand.iter().all(|c| roots.iter().all(|r| (*r - *c).norm() >= 0.3)) { roots.extend(cand); }
        }
        if roots.len() < deg { continue; }
        let lead = [1.0, 0.01, 250.0, -3.0][trial % 4];
        let cc = expand(&roots, lead);
        let re = if real_coeffs { Some(cc.iter().map(|c| c.re).collect::<Vec<f64>>()) } else { None };
        let tol = [1e-6, 1e-9][trial % 2] * lead.abs().max(1.0);
        check(&format!("trial {trial} deg {deg} lead {lead} roots {roots:?}"), re, cc, &roots, tol, &mut found);
    }
    // small coefficients with a lowered zero tolerance: the polynomial's OWN tolerance (not the default 1e-10) must govern the deflation
    for (k, lead) in [2.5e-11f64, 1e-12, -4e-11].iter().enumerate() {
        for roots in [vec![-1.5, 0.3, 1.0, 2.0], vec![-2.0, -0.7, 0.4, 1.1, 1.9, 2.8], vec![0.25, 1.0, 3.0]] {
            let truth: Vec<C> = roots.iter().map(|r| C::new(*r, 0.0)).collect();
            let cc = expand(&truth, *lead);
            let mut p = Polynomial::<f64>::from_slice(&cc.iter().rev().map(|c| c.re).collect::<Vec<f64>>());
            p.set_tolerance(1e-20).unwrap();
            let name = format!("small lead {lead:e} (case {k}), own tolerance 1e-20, roots {roots:?}");
            match p.roots(1e-14, 1000) {
                Err(e) => found.push(format!("{name}: roots() returned Err({e})")),
                Ok(rs) => {
                    if rs.len() != roots.len() { found.push(format!("{name}: {} roots for degree {}", rs.len(), roots.len())); continue; }
                    for t in truth.iter() { if rs.iter().filter(|r| (**r - *t).norm() < 1e-6).count() != 1 { found.push(format!("{name}: true root {t} not returned exactly once: {rs:?}")); break; } }
                }
            }
        }
    }
    match laguerre_zeros::<f64>(14, 5e-12, 1e-40, 10000) {
        Err(e) => found.push(format!("laguerre_zeros(14, 5e-12, 1e-40) = Err({e})")),
        Ok(mut z) => { z.sort_by(|a, b| a.partial_cmp(b).unwrap());
            if z.len() != 14 || z.windows(2).any(|w| (w[1] - w[0]).abs() < 1e-6) { found.push(format!("laguerre_zeros(14) with a small polynomial tolerance: not 14 distinct zeros: {z:?}")); } }
    }
    // orthogonal polynomial zeros
    for n in 0..=12u32 {
        for (nm, r, lo, hi) in [("legendre", legendre_zeros::<f64>(n, 1e-10, 1e-12, 1000), -1.0, 1.0), ("hermite", hermite_zeros::<f64>(n, 1e-10, 1e-12, 1000), -1e9, 1e9), ("laguerre", laguerre_zeros::<f64>(n, 1e-10, 1e-12, 1000), 0.0, 1e9)] {
            match r { Err(e) => found.push(format!("{nm}_zeros({n}) = Err({e})")), Ok(mut z) => {
                if z.len() != n as usize { found.push(format!("{nm}_zeros({n}) has {} entries", z.len())); continue; }
                z.sort_by(|a, b| a.partial_cmp(b).unwrap());
                if z.iter().any(|x| !x.is_finite() || *x < lo || *x > hi) { found.push(format!("{nm}_zeros({n}) outside the orthogonality interval: {z:?}")); continue; }
                if z.windows(2).any(|w| (w[1] - w[0]).abs() < 1e-6) { found.push(format!("{nm}_zeros({n}) not distinct: {z:?}")); }
                // each reported number is a zero of the classical polynomial: its three-term recurrence changes sign within 1e-6 (1 + |z|)
                let pn = |x: f64| -> f64 {
                    let (mut p0, mut p1) = (1.0f64, match nm { "legendre" => x, "hermite" => 2.0 * x, _ => 1.0 - x });
                    if n == 0 { return 1.0; }
                    for k in 1..n { let kf = k as f64; let p2 = match nm { "legendre" => ((2.0 * kf + 1.0) * x * p1 - kf * p0) / (kf + 1.0), "hermite" => 2.0 * x * p1 - 2.0 * kf * p0, _ => ((2.0 * kf + 1.0 - x) * p1 - kf * p0) / (kf + 1.0) }; p0 = p1; p1 = p2; }
                    p1
                };
                for x in z.iter() { let d = 1e-6 * (1.0 + x.abs()); if pn(x - d) * pn(x + d) > 0.0 { found.push(format!("{nm}_zeros({n}): {x} is not a zero of the classical polynomial (no sign change within {d:e})")); break; } }
            } }
        }
    }
    if std::env::var("C14_SKIP").is_ok() { found.retain(|f| !f.starts_with("x^")); }
    found.truncate(12);
    println!("{{\"found\": {}, \"failures\": {:?}}}", !found.is_empty(), found);
    std::process::exit(if found.is_empty() { 0 } else { 1 });
}
