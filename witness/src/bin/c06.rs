// Witness probe for C06 (bounded): builder validation of all four solver families and "an Err item ends the iteration".
use bacon_sci::ivp::{adams::{Adams3, Adams5}, bdf::{BDF2, BDF6}, rk::{RungeKutta23, RungeKutta45}, Euler, IVPError, IVPSolver, UserError};
use bacon_sci::BSVector;
use std::cell::Cell;
type Fp = fn(f64, &[f64], &mut ()) -> Result<BSVector<f64, 1>, UserError>;
fn ok_d(_t: f64, y: &[f64], _: &mut ()) -> Result<BSVector<f64, 1>, UserError> { Ok(BSVector::from_column_slice(y)) }
macro_rules! family { ($name:expr, $new:expr, $found:expr) => {{
    let name = $name;
    if !matches!($new.with_tolerance(0.0), Err(IVPError::ToleranceOOB)) { $found.push(format!("{name}: with_tolerance(0) not rejected with ToleranceOOB")); }
    if !matches!($new.with_tolerance(-1.0), Err(IVPError::ToleranceOOB)) { $found.push(format!("{name}: with_tolerance(-1) not rejected with ToleranceOOB")); }
    if !matches!($new.with_maximum_dt(0.0), Err(IVPError::TimeDeltaOOB)) { $found.push(format!("{name}: with_maximum_dt(0) not rejected")); }
    if !matches!($new.with_minimum_dt(-0.1), Err(IVPError::TimeDeltaOOB)) { $found.push(format!("{name}: with_minimum_dt(-0.1) not rejected")); }
    if !matches!($new.with_initial_time(1.0).unwrap().with_ending_time(1.0), Err(IVPError::TimeEndOOB)) { $found.push(format!("{name}: end == start not rejected with TimeEndOOB")); }
    if !matches!($new.with_ending_time(1.0).unwrap().with_initial_time(2.0), Err(IVPError::TimeStartOOB)) { $found.push(format!("{name}: start > end not rejected with TimeStartOOB")); }
    if !matches!($new.with_ending_time(1.0).unwrap().with_initial_time(1.0), Err(IVPError::TimeStartOOB)) { $found.push(format!("{name}: start == end (end set first) not rejected with TimeStartOOB")); }
    if !matches!($new.with_initial_time(2.0).unwrap().with_ending_time(1.0), Err(IVPError::TimeEndOOB)) { $found.push(format!("{name}: end < start not rejected with TimeEndOOB")); }
    if !matches!($new.with_initial_time(0.0).unwrap().with_derivative(ok_d as Fp).solve(()).map(|_| ()), Err(IVPError::MissingParameters)) { $found.push(format!("{name}: incomplete configuration not rejected with MissingParameters")); }
    // min / max in either order
    for (a, b, first_max) in [(0.1, 0.5, true), (0.5, 0.1, true), (0.1, 0.5, false), (0.5, 0.1, false)] {
        let s = if first_max { $new.with_maximum_dt(a).unwrap().with_minimum_dt(b).unwrap() } else { $new.with_minimum_dt(a).unwrap().with_maximum_dt(b).unwrap() };
        let r = s.with_tolerance(10.0).unwrap().with_initial_time(0.0).unwrap().with_ending_time(1.0).unwrap().with_initial_conditions_slice(&[1.0]).unwrap().with_derivative(ok_d as Fp).solve(());
        match r { Err(e) => $found.push(format!("{name}: valid configuration (steps {a},{b}) failed to build: {e:?}")),
                  Ok(it) => { if let Err(e) = it.collect_vec() { if matches!(e, IVPError::MinimumTimeDeltaExceeded) { $found.push(format!("{name}: steps set as ({a}, {b}) leave minimum > maximum: MinimumTimeDeltaExceeded")); } } } }
    }
}}; }
fn main() {
    let mut found: Vec<String> = Vec::new();
    family!("RungeKutta45", RungeKutta45::<f64, nalgebra::Const<1>, (), Fp>::new().unwrap(), found);
    family!("RungeKutta23", RungeKutta23::<f64, nalgebra::Const<1>, (), Fp>::new().unwrap(), found);
    family!("Adams3", Adams3::<f64, nalgebra::Const<1>, (), Fp>::new().unwrap(), found);
    family!("BDF6", BDF6::<f64, nalgebra::Const<1>, (), Fp>::new().unwrap(), found);
    family!("Adams5", Adams5::<f64, nalgebra::Const<1>, (), Fp>::new().unwrap(), found);
    family!("BDF2", BDF2::<f64, nalgebra::Const<1>, (), Fp>::new().unwrap(), found);
    if !matches!(Euler::<f64, nalgebra::Const<1>, (), Fp>::new().unwrap().with_tolerance(-1.0), Err(IVPError::ToleranceOOB)) { found.push("Euler: with_tolerance(-1) not rejected".into()); }
    // a user error surfaces once and ends the iteration
    let calls = Cell::new(0usize);
    let bad = |t: f64, y: &[f64], _: &mut ()| -> Result<BSVector<f64, 1>, UserError> { calls.set(calls.get() + 1); if t > 0.35 { Err("boom".into()) } else { Ok(BSVector::from_column_slice(y)) } };
    let mut it = RungeKutta45::new().unwrap().with_maximum_dt(0.1).unwrap().with_minimum_dt(0.01).unwrap().with_tolerance(1e-3).unwrap().with_initial_time(0.0).unwrap()
        .with_ending_time(2.0).unwrap().with_initial_conditions_slice(&[1.0]).unwrap().with_derivative(bad).solve(()).unwrap();
    let mut errs = 0; let mut after = 0;
    for _ in 0..200 { match it.next() { Some(Err(_)) => errs += 1, Some(Ok(_)) => { if errs > 0 { after += 1; } } None => { if errs > 0 { break; } } } }
    if errs != 1 { found.push(format!("user error surfaced {errs} times (expected exactly once)")); }
    if after > 0 { found.push(format!("{after} points were yielded after the error item")); }
    // a user error raised at the k-th call of the derivative (any k, any solver) surfaces as ONE UserError item, then None
    {
        use bacon_sci::ivp::adams::Adams3;
        #[derive(Debug)] struct Boom(usize);
        impl std::fmt::Display for Boom { fn fmt(&self, f: &mut std::fmt::Formatter) -> std::fmt::Result { write!(f, "boom {}", self.0) } }
        impl std::error::Error for Boom {}
        for solver in 0..4 { for k in 1..=40usize {
            let calls = Cell::new(0usize);
            let d = |_t: f64, y: &[f64], _: &mut ()| -> Result<BSVector<f64, 1>, UserError> { calls.set(calls.get() + 1); if calls.get() == k { Err(Box::new(Boom(k))) } else { Ok(BSVector::from_column_slice(&[-y[0]])) } };
            macro_rules! go { ($b:expr) => {{
                let mut it = $b.with_maximum_dt(0.1).unwrap().with_minimum_dt(1e-4).unwrap().with_tolerance(1e-4).unwrap().with_initial_time(0.0).unwrap()
                    .with_ending_time(1.0).unwrap().with_initial_conditions_slice(&[1.0]).unwrap().with_derivative(d).solve(()).unwrap();
                let mut items = Vec::new(); for _ in 0..400 { match it.next() { Some(x) => items.push(x.map(|_| ())), None => { if items.iter().any(|r| r.is_err()) || items.len() > 300 { break; } else { break; } } } }
                let tail_none = (0..5).all(|_| it.next().is_none());
                (items, tail_none)
            }}; }
            let (name, (items, tail_none)) = match solver { 0 => ("RungeKutta45", go!(RungeKutta45::new().unwrap())), 1 => ("Adams3", go!(Adams3::new().unwrap())), 2 => ("BDF2", go!(BDF2::new().unwrap())), _ => ("Adams5", go!(Adams5::new().unwrap())) };
            let errs: Vec<&IVPError> = items.iter().filter_map(|r| r.as_ref().err()).collect();
            if calls.get() < k { continue; }   // the solve finished before the k-th call
            if errs.len() != 1 { found.push(format!("{name}: user error at call {k} surfaced {} times", errs.len())); break; }
            if !matches!(errs[0], IVPError::UserError(_)) { found.push(format!("{name}: user error at call {k} surfaced as {:?} instead of UserError", errs[0])); break; }
            if !items.last().unwrap().is_err() || !tail_none { found.push(format!("{name}: items were yielded after the error at call {k}")); break; }
        } }
    }
    found.truncate(10);
    println!("{{\"found\": {}, \"failures\": {:?}}}", !found.is_empty(), found);
    std::process::exit(if found.is_empty() { 0 } else { 1 });
}
