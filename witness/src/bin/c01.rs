// Witness probe for C01: ordered, gap-bounded paths that reach the end time, on the real crate.
use bacon_sci::ivp::{adams::{Adams3, Adams5}, bdf::{BDF2, BDF6}, rk::{RungeKutta23, RungeKutta45}, Euler, IVPSolver, UserError};
use bacon_sci::BSVector;
fn deriv(t: f64, y: &[f64], _: &mut ()) -> Result<BSVector<f64, 2>, UserError> { Ok(BSVector::from_column_slice(&[y[1] + 0.1 * t, -y[0] + 0.05 * (t * y[1]).sin()])) }
fn check(name: &str, cfg: &str, t0: f64, end: f64, dtmax: f64, path: Result<Vec<(f64, BSVector<f64, 2>)>, bacon_sci::ivp::IVPError>, adaptive: bool, found: &mut Vec<String>) {
    let path = match path { Ok(p) => p, Err(_) => return };   // reported errors are outside the property
    if adaptive {
        match path.last() { None => { found.push(format!("{name} {cfg}: Ok but EMPTY path")); return; }
            Some((t, _)) => if (*t - end).abs() > 1e-9 * (1.0 + end.abs()) { found.push(format!("{name} {cfg}: last point at t={t}, end={end}")); return; } }
    }
    let mut prev = t0; let mut first = true;
    for (k, (t, y)) in path.iter().enumerate() {
        if !(y[0].is_finite() && y[1].is_finite()) { found.push(format!("{name} {cfg}: non-finite state at point {k}")); return; }
        let ok_order = if first && !adaptive { *t >= prev } else { *t > prev };
        if !ok_order { found.push(format!("{name} {cfg}: time not increasing at point {k}: {prev} -> {t}")); return; }
        if *t > end + 1e-9 || *t < t0 - 1e-9 { found.push(format!("{name} {cfg}: point {k} at t={t} outside [{t0}, {end}]")); return; }
        if *t - prev > dtmax * (1.0 + 1e-9) { found.push(format!("{name} {cfg}: gap {} > max step {dtmax} before point {k} (t={t})", *t - prev)); return; }
        prev = *t; first = false;
    }
}
macro_rules! run { ($b:expr, $t0:expr, $end:expr, $dtmin:expr, $dtmax:expr, $tol:expr) => {
    $b.with_maximum_dt($dtmax).unwrap().with_minimum_dt($dtmin).unwrap().with_tolerance($tol).unwrap().with_initial_time($t0).unwrap().with_ending_time($end).unwrap()
        .with_initial_conditions_slice(&[1.0, 0.0]).unwrap().with_derivative(deriv).solve(()).unwrap().collect_vec() } }
fn main() {
    let mut found = Vec::new();
    let t0 = 0.5;
    for dtmax in [0.1, 0.03] { for tol in [1e-3, 1e-6] {
        let dtmin = 1e-7;
        let h0 = 0.5 * (dtmax + dtmin);
        let mut lens: Vec<f64> = (1..=60).map(|k| k as f64 * 0.13 * h0).collect();
        lens.extend([1.0, 3.7, 10.0]);
        for len in lens {
            let end = t0 + len; let cfg = format!("len={len:.5} dtmax={dtmax} tol={tol}");
            check("RungeKutta45", &cfg, t0, end, dtmax, run!(RungeKutta45::new().unwrap(), t0, end, dtmin, dtmax, tol), true, &mut found);
            check("RungeKutta23", &cfg, t0, end, dtmax, run!(RungeKutta23::new().unwrap(), t0, end, dtmin, dtmax, tol), true, &mut found);
            check("Adams5", &cfg, t0, end, dtmax, run!(Adams5::new().unwrap(), t0, end, dtmin, dtmax, tol), true, &mut found);
            check("Adams3", &cfg, t0, end, dtmax, run!(Adams3::new().unwrap(), t0, end, dtmin, dtmax, tol), true, &mut found);
            check("BDF6", &cfg, t0, end, dtmax, run!(BDF6::new().unwrap(), t0, end, dtmin, dtmax, tol), true, &mut found);
            check("BDF2", &cfg, t0, end, dtmax, run!(BDF2::new().unwrap(), t0, end, dtmin, dtmax, tol), true, &mut found);
        }
    } }
    // one failure per solver is enough
    let mut seen = std::collections::BTreeSet::new();
    found.retain(|f| seen.insert(f.split(' ').next().unwrap().to_string()));
    println!("{{\"found\": {}, \"failures\": {:?}}}", !found.is_empty(), found);
    std::process::exit(if found.is_empty() { 0 } else { 1 });
}
