// Witness probes for C09: adaptive Simpson evaluation count / accuracy, interval validation of the entry points.
use bacon_sci::integrate::{integrate, integrate_gaussian, integrate_simpson, integrate_fixed};
use std::cell::Cell;

// reference: recursive adaptive Simpson with the same local test (|S2 - S1| < tol_i, tol halves per level, initial 10 tol)
fn reference(f: &dyn Fn(f64) -> f64, a: f64, h: f64, fa: f64, fc: f64, fb: f64, s: f64, tol: f64, lvl: usize, n: &Cell<usize>) -> f64 {
    let fd = f(a + 0.5 * h); let fe = f(a + 1.5 * h); n.set(n.get() + 2);
    let s1 = h * (fa + 4.0 * fd + fc) / 6.0; let s2 = h * (fc + 4.0 * fe + fb) / 6.0;
    if (s1 + s2 - s).abs() < tol || lvl > 40 { s1 + s2 } else {
        reference(f, a, 0.5 * h, fa, fd, fc, s1, 0.5 * tol, lvl + 1, n) + reference(f, a + h, 0.5 * h, fc, fe, fb, s2, 0.5 * tol, lvl + 1, n)
    }
}
fn main() {
    let mut found = Vec::new();
    let funcs: Vec<(&str, Box<dyn Fn(f64) -> f64>, f64, f64, f64)> = vec![
        ("exp(x) on [0,2]", Box::new(|x: f64| x.exp()), 0.0, 2.0, 2f64.exp() - 1.0),
        ("x^2 sin(3x)+1 on [-1,2]", Box::new(|x: f64| x * x * (3.0 * x).sin() + 1.0), -1.0, 2.0, f64::NAN),
        ("1/(1+x^2) on [-2,3]", Box::new(|x: f64| 1.0 / (1.0 + x * x)), -2.0, 3.0, 3f64.atan() + 2f64.atan()),
    ];
    for (name, f, a, b, exact) in funcs.iter() {
        for tol in [1e-4, 1e-7] {
            let cnt = Cell::new(0usize);
            let r = integrate_simpson(*a, *b, |x| { cnt.set(cnt.get() + 1); f(x) }, tol, 60);
            let n = Cell::new(3usize);
            let h = 0.5 * (b - a); let (fa, fc, fb) = (f(*a), f(a + h), f(*b));
            let refv = reference(f.as_ref(), *a, h, fa, fc, fb, h * (fa + 4.0 * fc + fb) / 3.0, 10.0 * tol, 1, &n);
            match r {
                Ok(v) => {
                    if cnt.get() > 2 * n.get() + 10 { found.push(format!("integrate_simpson {name} tol={tol:e}: {} evaluations, the same algorithm needs {}", cnt.get(), n.get())); }
                    if !exact.is_nan() && (v - exact).abs() > 50.0 * tol { found.push(format!("integrate_simpson {name} tol={tol:e}: error {:e}", (v - exact).abs())); }
                    let _ = refv;
                }
                Err(e) => found.push(format!("integrate_simpson {name} tol={tol:e}: Err({e})")),
            }
        }
    }
    // tanh-sinh and Gauss-Legendre on intervals that do not start at 0 (smooth integrands: the estimators are reliable there)
    for (name, f, a, b, exact) in funcs.iter() {
        if exact.is_nan() { continue; }
        for tol in [1e-5, 1e-8] {
            match integrate(*a, *b, |x| f(x), tol) { Ok(v) => if (v - exact).abs() > 100.0 * tol { found.push(format!("integrate (tanh-sinh) {name} tol={tol:e}: error {:e}", (v - exact).abs())); }, Err(e) => found.push(format!("integrate (tanh-sinh) {name} tol={tol:e}: Err({e})")) }
        }
    }
    // the smooth family c exp(a x) + d sin(w x) over a range of AMPLITUDES: a stopping rule that fires on the coarsest levels
    // (where consecutive changes are not yet an error estimate) only shows when the integrand is small compared with 1
    {
        let mut s2 = 424242u64;
        let mut r2 = move || { s2 = s2.wrapping_mul(6364136223846793005).wrapping_add(1442695040888963407); (s2 >> 33) as f64 / (1u64 << 31) as f64 };
        for trial in 0..400 {
            let amp = [1.0, 1e-2, 1e-4, 1e-6][trial % 4];
            let (c, d, a, w) = (amp * (0.5 + r2()), amp * (r2() * 4.0 - 2.0), r2() * 2.0 - 1.0, 0.5 + 3.0 * r2());
            let lo = r2() * 4.0 - 2.0; let hi = lo + 0.5 + 3.0 * r2();
            let tol = [1e-6, 1e-8, 1e-10][trial % 3];
            let prim = |x: f64| (if a.abs() < 1e-12 { c * x } else { c * (a * x).exp() / a }) - d * (w * x).cos() / w;
            let exact = prim(hi) - prim(lo);
            match integrate(lo, hi, |x: f64| c * (a * x).exp() + d * (w * x).sin(), tol) {
                Ok(v) => if (v - exact).abs() > 10.0 * tol + 1e-13 * amp { found.push(format!("integrate (tanh-sinh) {c:e} exp({a} x) + {d:e} sin({w} x) on [{lo}, {hi}] tol={tol:e}: error {:e}", (v - exact).abs())); },
                Err(e) => found.push(format!("integrate (tanh-sinh) smooth family trial {trial}: Err({e})")),
            }
        }
    }
    match integrate(1.0, 2.0, |x: f64| x * x, 1e-6) { Ok(v) => if (v - 7.0 / 3.0).abs() > 1e-4 { found.push(format!("integrate (tanh-sinh) x^2 on [1,2]: {v}")); }, Err(e) => found.push(format!("integrate (tanh-sinh) x^2 on [1,2]: Err({e})")) }
    // validation
    if integrate(2.0, 1.0, |x: f64| x, 1e-6).is_ok() { found.push("integrate accepted a reversed interval".into()); }
    // hard bound on polynomials of degree <= 5 (the estimator is reliable there): the error of an Ok result stays within 2 tol,
    // also when the recursion goes deep (every bisection halves the tolerance of both halves)
    for (name, f, a, b, exact) in [("x^4 on [1,5]", (|x: f64| x.powi(4)) as fn(f64) -> f64, 1.0, 5.0, (5f64.powi(5) - 1.0) / 5.0),
                                   ("x^5-3x^4+x on [-1,3]", (|x: f64| x.powi(5) - 3.0 * x.powi(4) + x) as fn(f64) -> f64, -1.0, 3.0, (729.0 - 1.0) / 6.0 - 3.0 * (243.0 + 1.0) / 5.0 + (9.0 - 1.0) / 2.0)] {
        for tol in [1e-6, 1e-8, 1e-9, 1e-11] {
            if let Ok(v) = integrate_simpson(a, b, f, tol, 60) {
                if (v - exact).abs() > 2.0 * tol + 1e-12 * exact.abs() { found.push(format!("integrate_simpson {name} tol={tol:e}: error {:e} = {:.1} x tol", (v - exact).abs(), (v - exact).abs() / tol)); }
            }
        }
    }
    // complex integrands (bounded): both parts must be within tolerance
    {
        use nalgebra::Complex; type C = Complex<f64>;
        let tol = 1e-8;
        let cases: Vec<(&str, Box<dyn Fn(f64) -> C>, f64, f64, C)> = vec![
            ("x + i sin(3x) on [0.5,2.5]", Box::new(|x: f64| C::new(x, (3.0 * x).sin())), 0.5, 2.5, C::new(3.0, ((1.5f64).cos() - (7.5f64).cos()) / 3.0)),
            ("i x exp(x) on [0.5,2.5]", Box::new(|x: f64| C::new(0.0, x * x.exp())), 0.5, 2.5, C::new(0.0, 1.5 * (2.5f64).exp() + 0.5 * (0.5f64).exp())),
        ];
        for (name, f, a, b, exact) in cases.iter() {
            if let Ok(v) = integrate_gaussian(*a, *b, |x: f64| f(x), tol) { if (v - *exact).norm() > 20.0 * tol { found.push(format!("integrate_gaussian complex {name}: error {:e} with tol {tol:e}", (v - *exact).norm())); } }
        }
    }
    if integrate_simpson(2.0, 1.0, |x: f64| x, 1e-6, 10).is_ok() { found.push("integrate_simpson accepted a reversed interval".into()); }
    if integrate_fixed(2.0, 1.0, |x: f64| x, 3).is_ok() { found.push("integrate_fixed accepted a reversed interval".into()); }
    match integrate_gaussian(2.0, 1.0, |x: f64| x * x, 1e-6) { Ok(v) => found.push(format!("integrate_gaussian accepted the reversed interval (2,1) and returned {v}")), Err(_) => {} }
    match integrate_gaussian(1.0, 1.0, |x: f64| x * x, 1e-6) { Ok(v) => found.push(format!("integrate_gaussian accepted the empty interval (1,1) and returned {v}")), Err(_) => {} }
    if integrate_gaussian(0.0, 1.0, |x: f64| x, -1e-6).is_ok() { found.push("integrate_gaussian accepted a negative tolerance".into()); }
    // Romberg exactness on degree <= 2n-1
    for n in 1usize..=4 {
        let deg = 2 * n - 1;
        let v = integrate_fixed(0.0, 2.0, |x: f64| x.powi(deg as i32) + 1.0, n).unwrap();
        let exact = 2f64.powi(deg as i32 + 1) / (deg as f64 + 1.0) + 2.0;
        if (v - exact).abs() > 1e-9 * exact.abs() { found.push(format!("integrate_fixed n={n} on x^{deg}+1: {v} vs {exact}")); }
    }
    found.truncate(12);
    println!("{{\"found\": {}, \"failures\": {:?}}}", !found.is_empty(), found);
    std::process::exit(if found.is_empty() { 0 } else { 1 });
}
