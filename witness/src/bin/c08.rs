// Witness probes for C08: Newton-type iterations on affine systems / contractions / polynomials.
use bacon_sci::roots::{newton, secant, steffensen, newton_polynomial, muller_polynomial};
use bacon_sci::polynomial::Polynomial;
use nalgebra::{SMatrix, SVector};
fn main() {
    let mut found = Vec::new();
    // affine system A (x - r) in dimension 2
    let a = SMatrix::<f64, 2, 2>::new(2.0, 1.0, -1.0, 3.0);
    for r in [[1.0, -2.0], [0.0, 0.0], [10.0, 7.0]] {
        let rv = SVector::<f64, 2>::from_column_slice(&r);
        let f = |x: &[f64]| a * (SVector::<f64, 2>::from_column_slice(x) - rv);
        for start in [[0.0, 0.0], [0.5, 0.25], [3.0, -4.0]] {
            match secant::<f64, _, 2>(&start, f, 0.1, 1e-8, 200) {
                Ok(x) => if (x - rv).norm() > 1e-5 { found.push(format!("secant on affine system root {r:?} start {start:?} returned {:?}", x.as_slice())); },
                Err(e) => found.push(format!("secant on affine system root {r:?} start {start:?}: Err({e})")),
            }
            match newton::<f64, _, _, 2>(&start, f, |_x: &[f64]| a, 1e-8, 200) {
                Ok(x) => if (x - rv).norm() > 1e-5 { found.push(format!("newton on affine system root {r:?} start {start:?} returned {:?}", x.as_slice())); },
                Err(e) => found.push(format!("newton on affine system root {r:?} start {start:?}: Err({e})")),
            }
        }
    }
    // Newton on non-affine problems: an Ok result must be a root (residual), also when an update preserves the norm of the iterate
    for start in [-1.0f64, -2.5, 0.4, 1.0, -0.2, 2.0] {
        let f1 = |x: &[f64]| SVector::<f64, 1>::new(x[0] * x[0] + 3.0 * x[0]);
        let j1 = |x: &[f64]| SMatrix::<f64, 1, 1>::new(2.0 * x[0] + 3.0);
        if let Ok(x) = newton::<f64, _, _, 1>(&[start], f1, j1, 1e-9, 100) { if f1(x.as_slice()).norm() > 1e-6 { found.push(format!("newton on x^2+3x from {start} returned {} (residual {:e})", x[0], f1(x.as_slice()).norm())); } }
        let f2 = |x: &[f64]| SVector::<f64, 2>::new(x[0] * x[0] + 3.0 * x[0] + (x[1] - 2.0), 2.0 * (x[1] - 2.0));
        let j2 = |x: &[f64]| SMatrix::<f64, 2, 2>::new(2.0 * x[0] + 3.0, 1.0, 0.0, 2.0);
        if let Ok(x) = newton::<f64, _, _, 2>(&[start, 2.0], f2, j2, 1e-9, 100) { if f2(x.as_slice()).norm() > 1e-6 { found.push(format!("newton on the 2-d system from ({start}, 2) returned {:?} (residual {:e})", x.as_slice(), f2(x.as_slice()).norm())); } }
    }
    // secant (Broyden) on non-affine systems from starts near the root: the loop after the first step is exercised
    for start in [[0.9f64, 2.1], [1.1, 1.9], [1.2, 2.2], [0.8, 1.8]] {
        let fs = |x: &[f64]| SVector::<f64, 2>::new(x[0] * x[0] + x[1] - 3.0, x[0] + x[1] * x[1] - 5.0);
        match secant::<f64, _, 2>(&start, fs, 1e-4, 1e-9, 200) {
            Ok(x) => if fs(x.as_slice()).norm() > 1e-6 || (x[0] - 1.0).abs() > 1e-5 || (x[1] - 2.0).abs() > 1e-5 { found.push(format!("secant on (x^2+y-3, x+y^2-5) from {start:?} returned {:?} (residual {:e})", x.as_slice(), fs(x.as_slice()).norm())); },
            Err(e) => found.push(format!("secant on (x^2+y-3, x+y^2-5) from {start:?}: Err({e})")),
        }
    }
    // secant on regular systems with NON-symmetric Jacobians (rotation / cyclic-permutation dominated, condition number about 1)
    {
        let a2 = SMatrix::<f64, 2, 2>::new(0.0, -2.0, 2.0, 0.0);
        let r2 = SVector::<f64, 2>::new(1.0, -2.0);
        let f2 = |x: &[f64]| { let d = SVector::<f64, 2>::from_column_slice(x) - r2; a2 * d + d.map(|v| v * v.sin()) };
        for (start, tol) in [([1.3, -2.2], 1e-10), ([1.3, -2.2], 1e-6), ([0.8, -1.9], 1e-8)] {
            match secant::<f64, _, 2>(&start, f2, 0.01, tol, 200) {
                Ok(x) => if (x - r2).norm() > 1e-5 { found.push(format!("secant on the skew 2-d system from {start:?} returned {:?}", x.as_slice())); },
                Err(e) => found.push(format!("secant on the skew 2-d system (cond about 1, start 0.36 from the root) from {start:?}, tol {tol:e}: Err({e})")),
            }
        }
        let a3 = SMatrix::<f64, 3, 3>::new(0.1, 2.0, 0.05, 0.0, 0.1, 2.0, 2.0, 0.05, 0.1);
        let f3 = |x: &[f64]| { let d = SVector::<f64, 3>::from_column_slice(x); a3 * d + d.map(|v| 0.5 * v * v.sin()) };
        match secant::<f64, _, 3>(&[0.2, -0.15, 0.1], f3, 0.01, 1e-9, 300) {
            Ok(x) => if x.norm() > 1e-5 { found.push(format!("secant on the cyclic 3-d system returned {:?}", x.as_slice())); },
            Err(e) => found.push(format!("secant on the cyclic 3-d system (root at the origin, start 0.27 away): Err({e})")),
        }
    }
    // Steffensen on a contraction with tolerance near machine precision
    fn g(x: f64) -> f64 { 0.5 * x.cos() }
    for tol in [1e-6, 1e-10, 1e-13] {
        match steffensen(0.3f64, g, tol, 200) {
            Ok(x) => if (g(x) - x).abs() > 1e-6 || x.is_nan() { found.push(format!("steffensen tol={tol:e} returned {x}")); },
            Err(e) => found.push(format!("steffensen on 0.5cos(x), tol={tol:e}: Err({e})")),
        }
    }
    // newton / muller on a polynomial with separated roots
    let p: Polynomial<f64> = Polynomial::from_slice(&[1.0, -6.0, 11.0, -6.0]); // (x-1)(x-2)(x-3)
    if let Ok(z) = newton_polynomial(2.9, &p, 1e-10, 100) { if (z - 3.0).abs() > 1e-6 { found.push(format!("newton_polynomial from 2.9 returned {z}")); } } else { found.push("newton_polynomial failed".into()); }
    // Muller: real and complex roots, several starting triples; an Ok result must be a root (residual evaluated by Horner in complex arithmetic)
    for (name, coef) in [("(x-1)(x-2)(x-3)", vec![1.0, -6.0, 11.0, -6.0]), ("x^2+1", vec![1.0, 0.0, 1.0]), ("x^3-1", vec![1.0, 0.0, 0.0, -1.0]),
                         ("x^4+4", vec![1.0, 0.0, 0.0, 0.0, 4.0]), ("2x^2-3x-5", vec![2.0, -3.0, -5.0])] {
        let q: Polynomial<f64> = Polynomial::from_slice(&coef);
        for start in [(0.0, 0.5, 0.8), (-1.0, -0.5, 0.25), (2.5, 3.5, 4.0), (0.1, 0.2, 0.4)] {
            match muller_polynomial(start, &q, 1e-10, 500) {
                Ok(z) => {
                    let mut v = nalgebra::Complex::new(0.0, 0.0);
                    for c in &coef { v = v * z + nalgebra::Complex::new(*c, 0.0); }
                    if !(v.norm() <= 1e-6 * (1.0 + z.norm().powi(coef.len() as i32))) { found.push(format!("muller on {name} from {start:?} returned {z}, residual {:e}", v.norm())); }
                }
                Err(e) => found.push(format!("muller on {name} from {start:?}: Err({e})")),
            }
        }
    }
    found.truncate(12);
    println!("{{\"found\": {}, \"failures\": {:?}}}", !found.is_empty(), found);
    std::process::exit(if found.is_empty() { 0 } else { 1 });
}
