// Witness probe for C15 (bounded): Lagrange / Hermite interpolants on REAL and COMPLEX data sampled from polynomials
// with purely imaginary / purely real coefficients, in several node orders.
use bacon_sci::interp::{hermite, lagrange};
use bacon_sci::polynomial::Polynomial;
use nalgebra::Complex;
type C = Complex<f64>;
fn c(re: f64, im: f64) -> C { C::new(re, im) }
fn main() {
    let mut found = Vec::new();
    // complex sources (highest power first)
    let sources: Vec<Vec<C>> = vec![vec![c(0.0, 1.0), c(2.0, 3.0), c(0.0, 4.0)], vec![c(1.5, 0.0), c(0.0, -2.0), c(0.0, 0.0), c(3.0, 1.0)], vec![c(0.0, 2.5), c(0.0, 0.0), c(-1.0, 0.0)]];
    let nodes: Vec<Vec<C>> = vec![vec![c(0.0, 0.0), c(1.0, 0.0), c(0.0, 1.0), c(-1.0, 0.5)], vec![c(0.0, 1.0), c(-1.0, 0.5), c(1.0, 0.0), c(0.0, 0.0)], vec![c(2.0, -1.0), c(0.5, 0.5), c(-1.5, 0.0), c(0.0, -2.0)]];
    for (si, src) in sources.iter().enumerate() {
        let p: Polynomial<C> = Polynomial::from_slice(src);
        for (ni, xs_all) in nodes.iter().enumerate() {
            let xs: Vec<C> = xs_all.iter().take(src.len().max(3)).cloned().collect();
            if xs.len() < src.len() { continue; }
            let ys: Vec<C> = xs.iter().map(|x| p.evaluate(*x)).collect();
            match lagrange(&xs, &ys, 1e-8) {
                Err(e) => found.push(format!("lagrange complex source {si} nodes {ni}: Err({e})")),
                Ok(q) => {
                    if q.order() > xs.len() - 1 { found.push(format!("lagrange complex source {si} nodes {ni}: degree {} > n-1", q.order())); }
                    for (x, y) in xs.iter().zip(ys.iter()) { if (q.evaluate(*x) - *y).norm() > 1e-8 * (1.0 + y.norm()) { found.push(format!("lagrange complex source {si} nodes {ni}: does not reproduce its data at {x}: got {}, expected {y}", q.evaluate(*x))); break; } }
                }
            }
            let ds: Vec<C> = xs.iter().map(|x| p.derivative().evaluate(*x)).collect();
            let m = (src.len() + 1) / 2 + 1;
            match hermite(&xs[..m.min(xs.len())], &ys[..m.min(xs.len())], &ds[..m.min(xs.len())], 1e-8) {
                Err(e) => found.push(format!("hermite complex source {si} nodes {ni}: Err({e})")),
                Ok(q) => { for k in 0..m.min(xs.len()) { if (q.evaluate(xs[k]) - ys[k]).norm() > 1e-7 * (1.0 + ys[k].norm()) || (q.derivative().evaluate(xs[k]) - ds[k]).norm() > 1e-7 * (1.0 + ds[k].norm()) { found.push(format!("hermite complex source {si} nodes {ni}: value/derivative mismatch at node {k}")); break; } } }
            }
        }
    }
    // real data: cubic with derivatives, several orders
    let pr: Polynomial<f64> = Polynomial::from_slice(&[1.0, 0.0, -2.0, 1.0]);
    for xs in [vec![0.5, -1.0, 1.5], vec![-1.0, 1.5, 0.5], vec![1.5, 0.5, -1.0, 2.0]] {
        let ys: Vec<f64> = xs.iter().map(|x| pr.evaluate(*x)).collect(); let ds: Vec<f64> = xs.iter().map(|x| pr.derivative().evaluate(*x)).collect();
        if let Ok(q) = hermite(&xs, &ys, &ds, 1e-10) { for k in 0..xs.len() { if (q.evaluate(xs[k]) - ys[k]).abs() > 1e-8 || (q.derivative().evaluate(xs[k]) - ds[k]).abs() > 1e-8 { found.push(format!("hermite real nodes {xs:?}: value/derivative mismatch at node {k}")); break; } } } else { found.push(format!("hermite real nodes {xs:?}: Err")); }
        if xs.len() >= 4 { if let Ok(q) = lagrange(&xs, &ys, 1e-10) { for k in 0..=3 { if (q.get_coefficient(k) - pr.get_coefficient(k)).abs() > 1e-8 { found.push(format!("lagrange real nodes {xs:?}: coefficient {k} differs from the source polynomial")); break; } } } }
    }
    if lagrange(&[1.0, 2.0], &[1.0], 1e-8).is_ok() { found.push("lagrange accepted mismatched lengths".into()); }
    // hermite: each single mismatch is an Err (never Ok, never a panic)
    for (nx, ny, nd) in [(3usize, 3usize, 4usize), (2, 3, 2), (3, 2, 3), (3, 3, 2), (3, 4, 4)] {
        let xs: Vec<f64> = (0..nx).map(|i| i as f64).collect(); let ys = vec![1.0; ny]; let ds = vec![0.5; nd];
        match std::panic::catch_unwind(|| hermite(&xs, &ys, &ds, 1e-8).is_ok()) {
            Ok(true) => found.push(format!("hermite accepted lengths {nx}/{ny}/{nd}")),
            Ok(false) => {}
            Err(_) => found.push(format!("hermite panicked on lengths {nx}/{ny}/{nd}")),
        }
    }
    found.truncate(8);
    println!("{{\"found\": {}, \"failures\": {:?}}}", !found.is_empty(), found);
    std::process::exit(if found.is_empty() { 0 } else { 1 });
}
