"""C03 -- each yielded IVP point is a step of the advertised method (src/ivp.rs, src/ivp/rk.rs, adams.rs, bdf.rs)."""
from vx.unit import Unit
from vx.extract import Config
from specs_ivpcommon import cfg, CALLBACK_SPEC, HIST_SPEC, TRACE_SPEC, MSTEP_SPEC

RK = "src/ivp/rk.rs"

# ---- published tableaux, transcribed from the literature (NOT from the repository) ---------------------------
# Fehlberg 4(5): E. Fehlberg, NASA TR R-315 (1969), table III; Burden & Faires, Numerical Analysis, alg. 5.3
# Bogacki-Shampine 3(2): Bogacki & Shampine, Appl. Math. Lett. 2 (1989) 321-325
REF = r"""
pub open spec fn f45_c(i: int) -> real { if i == 1 { (1real / 4real) } else if i == 2 { (3real / 8real) } else if i == 3 { (12real / 13real) } else if i == 4 { 1real } else if i == 5 { (1real / 2real) } else { 0real } }
pub open spec fn f45_a(i: int, j: int) -> real {
    if i == 1 && j == 0 { (1real / 4real) }
    else if i == 2 && j == 0 { (3real / 32real) } else if i == 2 && j == 1 { (9real / 32real) }
    else if i == 3 && j == 0 { (1932real / 2197real) } else if i == 3 && j == 1 { (-(7200real / 2197real)) } else if i == 3 && j == 2 { (7296real / 2197real) }
    else if i == 4 && j == 0 { (439real / 216real) } else if i == 4 && j == 1 { -8real } else if i == 4 && j == 2 { (3680real / 513real) } else if i == 4 && j == 3 { (-(845real / 4104real)) }
    else if i == 5 && j == 0 { (-(8real / 27real)) } else if i == 5 && j == 1 { 2real } else if i == 5 && j == 2 { (-(3544real / 2565real)) } else if i == 5 && j == 3 { (1859real / 4104real) } else if i == 5 && j == 4 { (-(11real / 40real)) }
    else { 0real }
}
// fourth-order weights (the solution that is advanced) and fifth-order weights
pub open spec fn f45_b4(i: int) -> real { if i == 0 { (25real / 216real) } else if i == 2 { (1408real / 2565real) } else if i == 3 { (2197real / 4104real) } else if i == 4 { (-(1real / 5real)) } else { 0real } }
pub open spec fn f45_b5(i: int) -> real { if i == 0 { (16real / 135real) } else if i == 2 { (6656real / 12825real) } else if i == 3 { (28561real / 56430real) } else if i == 4 { (-(9real / 50real)) } else if i == 5 { (2real / 55real) } else { 0real } }
pub open spec fn bs_c(i: int) -> real { if i == 1 { (1real / 2real) } else if i == 2 { (3real / 4real) } else if i == 3 { 1real } else { 0real } }
pub open spec fn bs_a(i: int, j: int) -> real {
    if i == 1 && j == 0 { (1real / 2real) } else if i == 2 && j == 1 { (3real / 4real) }
    else if i == 3 && j == 0 { (2real / 9real) } else if i == 3 && j == 1 { (1real / 3real) } else if i == 3 && j == 2 { (4real / 9real) } else { 0real }
}
pub open spec fn bs_b3(i: int) -> real { if i == 0 { (2real / 9real) } else if i == 1 { (1real / 3real) } else if i == 2 { (4real / 9real) } else { 0real } }
pub open spec fn bs_b2(i: int) -> real { if i == 0 { (7real / 24real) } else if i == 1 { (1real / 4real) } else if i == 2 { (1real / 3real) } else if i == 3 { (1real / 8real) } else { 0real } }
// the error weights are the difference of the two weight rows, up to ONE common sign
pub open spec fn err_weights_ok(e: Seq<real>, hi: spec_fn(int) -> real, lo: spec_fn(int) -> real, n: int) -> bool {
    e.len() == n && ((forall|i: int| 0 <= i < n ==> #[trigger] e[i] == hi(i) - lo(i)) || (forall|i: int| 0 <= i < n ==> #[trigger] e[i] == lo(i) - hi(i)))
}
// guards on the transcription itself: row sums equal the nodes and the order conditions of the published schemes hold
pub proof fn lemma_reference_tables_consistent()
    ensures
        forall|i: int| 0 <= i < 6 ==> f45_a(i,0) + f45_a(i,1) + f45_a(i,2) + f45_a(i,3) + f45_a(i,4) + f45_a(i,5) == #[trigger] f45_c(i),
        f45_b4(0) + f45_b4(1) + f45_b4(2) + f45_b4(3) + f45_b4(4) + f45_b4(5) == 1real,
        f45_b5(0) + f45_b5(1) + f45_b5(2) + f45_b5(3) + f45_b5(4) + f45_b5(5) == 1real,
        f45_b4(1)*f45_c(1) + f45_b4(2)*f45_c(2) + f45_b4(3)*f45_c(3) + f45_b4(4)*f45_c(4) + f45_b4(5)*f45_c(5) == (1real / 2real),
        f45_b5(1)*f45_c(1) + f45_b5(2)*f45_c(2) + f45_b5(3)*f45_c(3) + f45_b5(4)*f45_c(4) + f45_b5(5)*f45_c(5) == (1real / 2real),
        forall|i: int| 0 <= i < 4 ==> bs_a(i,0) + bs_a(i,1) + bs_a(i,2) + bs_a(i,3) == #[trigger] bs_c(i),
        bs_b3(0) + bs_b3(1) + bs_b3(2) + bs_b3(3) == 1real, bs_b2(0) + bs_b2(1) + bs_b2(2) + bs_b2(3) == 1real,
        bs_b3(1)*bs_c(1) + bs_b3(2)*bs_c(2) + bs_b3(3)*bs_c(3) == (1real / 2real), bs_b2(1)*bs_c(1) + bs_b2(2)*bs_c(2) + bs_b2(3)*bs_c(3) == (1real / 2real),
{
    assert forall|i: int| 0 <= i < 6 implies f45_a(i,0) + f45_a(i,1) + f45_a(i,2) + f45_a(i,3) + f45_a(i,4) + f45_a(i,5) == #[trigger] f45_c(i) by {
        if i == 0 {} else if i == 1 {} else if i == 2 {} else if i == 3 {} else if i == 4 {} else {}
    }
    assert forall|i: int| 0 <= i < 4 implies bs_a(i,0) + bs_a(i,1) + bs_a(i,2) + bs_a(i,3) == #[trigger] bs_c(i) by {
        if i == 0 {} else if i == 1 {} else if i == 2 {} else {}
    }
}
pub open spec fn vecr(v: Vec<R>) -> Seq<real> { Seq::new(v@.len(), |i: int| v@[i]@) }
"""


def tableau_cfg():
    c = Config(extra_subst=[("BSVector<Self::RealField, 6>", "Vec<R>"), ("BSVector<Self::RealField, 4>", "Vec<R>"),
                            ("BSMatrix<Self::RealField, 6, 6>", "KM<6>"), ("BSMatrix<Self::RealField, 4, 4>", "KM<4>"),
                            ("BSVector::from_column_slice", "vx_vec_from_slice"),      # R13: Vec<R> from a slice
                            ("BSMatrix::from_vec", "KM::from_vec"), ("BSMatrix::from_row_slice", "KM::from_row_slice"), ("BSMatrix::from_column_slice", "KM::from_column_slice"),   # R26: matrix shim
                            ("Self::RealField", "R")])
    return c


def tableau_unit(name, st, order, pre):
    u = Unit("C03", name, preludes=("real", "stdx", "rkm"), cfg=tableau_cfg())
    u.spec(REF)
    u.spec(f"pub struct {st};")
    im = u.impl(RK, f"RungeKuttaCoefficients<{order}> for {st}<N>", header=f"impl {st}", keep_assoc=False)
    hi, lo, adv = ("f45_b5", "f45_b4", "f45_b4") if pre == "f45" else ("bs_b3", "bs_b2", "bs_b3")
    f = im.fn("t_coefficients")
    f.ens(f"res is Some && res->Some_0@.len() == {order} && forall|i: int| 0 <= i < {order} ==> #[trigger] res->Some_0@[i]@ == {pre}_c(i)")
    f = im.fn("k_coefficients")
    f.ens(f"res is Some && res->Some_0.wf() && forall|i: int, j: int| #![trigger res->Some_0.at(i, j)] 0 <= i < {order} && 0 <= j < {order} ==> res->Some_0.at(i, j) == {pre}_a(i, j)")
    f = im.fn("avg_coefficients")
    f.ens(f"res is Some && res->Some_0@.len() == {order} && forall|i: int| 0 <= i < {order} ==> #[trigger] res->Some_0@[i]@ == {adv}(i)")
    f = im.fn("error_coefficients")
    f.ens(f"res is Some && err_weights_ok(vecr(res->Some_0), |i: int| {hi}(i), |i: int| {lo}(i), {order})")
    return u



RK_SPEC = r"""
impl vstd::std_specs::convert::FromSpecImpl<UserError> for IVPStatus<IVPError> {
    open spec fn obeys_from_spec() -> bool { true }
    open spec fn from_spec(v: UserError) -> IVPStatus<IVPError> { IVPStatus::Failure(IVPError::UserError(v)) }
}
// src/ivp.rs `impl From<UserError> for IVPStatus<IVPError>` (verified in C06/iterator): contract only here
impl From<UserError> for IVPStatus<IVPError> {
    #[verifier::external_body]
    fn from(v: UserError) -> (r: IVPStatus<IVPError>) ensures r == IVPStatus::<IVPError>::Failure(IVPError::UserError(v)) { unimplemented!() }
}
pub open spec fn vecr(v: Vec<R>) -> Seq<real> { Seq::new(v@.len(), |i: int| v@[i]@) }
// base + sum_{j < n} coef[j] * cols[j]
pub open spec fn wsum(cols: Seq<Seq<real>>, coef: Seq<real>, n: int, base: Seq<real>) -> Seq<real> decreases n {
    if n <= 0 { base } else { vadd(wsum(cols, coef, n - 1, base), vscale(cols[n - 1], coef[n - 1])) }
}
// sum_{j < n} coef[j] * cols[j]   (n >= 1)
pub open spec fn esum(cols: Seq<Seq<real>>, coef: Seq<real>, n: int) -> Seq<real> decreases n {
    if n <= 1 { vscale(cols[0], coef[0]) } else { vadd(esum(cols, coef, n - 1), vscale(cols[n - 1], coef[n - 1])) }
}
// stage i of an explicit Runge-Kutta step of length h from (t, y):  K_i = h f(t + c_i h, y + sum_{j<i} a_ij K_j)
pub open spec fn stage_arg(k: Seq<Seq<real>>, i: int, y: Seq<real>, a: Seq<real>) -> Seq<real> { wsum(k, a, i, y) }
pub open spec fn stage_ok(k: Seq<Seq<real>>, i: int, t: real, y: Seq<real>, h: real, a: Seq<real>, c: real) -> bool {
    df_ok(t + c * h, stage_arg(k, i, y, a)) && k[i] == vscale(df_val(t + c * h, stage_arg(k, i, y, a)), h)
}
pub proof fn lemma_wsum_len(cols: Seq<Seq<real>>, coef: Seq<real>, n: int, base: Seq<real>)
    ensures wsum(cols, coef, n, base).len() == base.len() decreases n
{ if n > 0 { lemma_wsum_len(cols, coef, n - 1, base); } }
// wsum only reads columns below n
pub proof fn lemma_wsum_frame(c1: Seq<Seq<real>>, c2: Seq<Seq<real>>, coef: Seq<real>, n: int, base: Seq<real>)
    requires forall|j: int| 0 <= j < n ==> c1[j] == c2[j]
    ensures wsum(c1, coef, n, base) == wsum(c2, coef, n, base) decreases n
{ if n > 0 { lemma_wsum_frame(c1, c2, coef, n - 1, base); } }
// zero coefficients from i on do not contribute
pub proof fn lemma_wsum_zero_tail(cols: Seq<Seq<real>>, coef: Seq<real>, i: int, n: int, base: Seq<real>)
    requires 0 <= i <= n, forall|j: int| i <= j < n ==> coef[j] == 0real, forall|j: int| 0 <= j < n ==> (#[trigger] cols[j]).len() == base.len()
    ensures wsum(cols, coef, n, base) == wsum(cols, coef, i, base) decreases n - i
{
    if n > i {
        lemma_wsum_zero_tail(cols, coef, i, n - 1, base);
        lemma_wsum_len(cols, coef, n - 1, base);
        let w = wsum(cols, coef, n - 1, base);
        assert forall|k: int| 0 <= k < w.len() implies #[trigger] vadd(w, vscale(cols[n - 1], coef[n - 1]))[k] == w[k] by {
            assert(cols[n - 1][k] * 0real == 0real) by(nonlinear_arith);
        }
        assert(vadd(w, vscale(cols[n - 1], coef[n - 1])) =~= w);
    }
}
"""


def rk_step_unit(prop="C03"):
    c = cfg(extra=[("RungeKuttaSolver<'a, N, D, O, T, F>", "RungeKuttaSolver<D, O, T, F>"),
                   ("BSVector<N, O>", "Vec<R>"), ("BSMatrix<N, O, O>", "KM<O>"), ("BMatrix<N, D, Const<O>>", "HM"),
                   # the alias `type Step<R, C, D, E> = Result<(R, BVector<C, D>), IVPStatus<E>>` of src/ivp.rs, expanded
                   ("Step<Self::RealField, Self::Field, D, Self::Error>", "Result<(R, V), IVPStatus<IVPError>>"),
                   # the builder (solve() only); its coefficient parameter is called R in rk.rs (R is the number shim here)
                   ("RungeKutta<'a, N, D, O, T, F, R>", "RungeKutta<D, O, T, F, RC>"), ("PhantomData<&'a (T, R)>", "PhantomData<(T, RC)>"),
                   ("IVPIterator<D, Self::Solver>", "IVPIterator<RungeKuttaSolver<D, O, T, F>>"), ("R", "RC")])
    c.drop_where += ["R"]
    c.extra = list(c.extra) + [(".row_iter()", ".rows.iter()", "R26-matrix-rows")]
    u = Unit(prop, "rk_step", preludes=("real", "stdx", "ivp", "rkm", "rkh"), cfg=c)
    u.timeout = 600
    u.item("src/lib.rs", "enum", "DimensionError")
    u.item("src/ivp.rs", "enum", "IVPError")
    u.item("src/ivp.rs", "enum", "IVPStatus")
    u.item(RK, "struct", "RungeKuttaSolver")
    u.spec(CALLBACK_SPEC)
    u.spec(RK_SPEC)
    u.spec(TRACE_SPEC)
    G = "<D: Dimension, const O: usize, T: Clone, F: FnMut(R, &[R], &mut T) -> Result<V, UserError>>"
    u.spec("impl" + G + r""" RungeKuttaSolver<D, O, T, F> {
    pub open spec fn a_row(&self, i: int) -> Seq<real> { vecr(self.k_coefficients.rows@[i]) }
    pub open spec fn setup_ok(&self) -> bool {
        &&& O >= 1 && self.k_coefficients.wf() && self.t_coefficients@.len() == O && self.avg_coefficients@.len() == O && self.error_coefficients@.len() == O
        // explicit method: the stage matrix is strictly lower triangular
        &&& forall|i: int, j: int| #![trigger self.k_coefficients.at(i, j)] 0 <= i <= j < O ==> self.k_coefficients.at(i, j) == 0real
        &&& self.one_tenth@ == 1real / 10real && self.four@ == 4real && self.dt_max@ > 0real
        &&& (forall|t: R, y: &[R], d: &mut T| #[trigger] self.derivative.requires((t, y, d)))
        &&& (forall|t: R, y: &[R], d: &mut T, r: Result<V, UserError>| #[trigger] self.derivative.ensures((t, y, d), r) ==>
              (df_ok(t@, slice_view(y)) ==> r is Ok && r->Ok_0@ == df_val(t@, slice_view(y)) && r->Ok_0@.len() == y@.len())
              && (!df_ok(t@, slice_view(y)) ==> r is Err && r->Err_0 == df_err(t@, slice_view(y))))
    }
    pub open spec fn hs_ok(&self) -> bool {
        self.half_steps.cols@.len() == O && forall|j: int| 0 <= j < O ==> (#[trigger] self.half_steps.cols@[j]).len() == self.state@.len()
    }
    pub open spec fn inv(&self) -> bool { self.setup_ok() && self.hs_ok() && 0real < self.dt@ <= self.dt_max@ && self.time@ <= self.end@ }
    // the step length actually tried from `time`
    pub open spec fn h(&self) -> real { if self.time@ + self.dt@ >= self.end@ { self.end@ - self.time@ } else { self.dt@ } }
    pub open spec fn same_setup(&self, o: &Self) -> bool {
        self.k_coefficients == o.k_coefficients && self.t_coefficients == o.t_coefficients && self.avg_coefficients == o.avg_coefficients
        && self.error_coefficients == o.error_coefficients && self.end == o.end && self.dt_max == o.dt_max && self.dt_min == o.dt_min
        && self.tolerance == o.tolerance && self.derivative == o.derivative && self.one_tenth == o.one_tenth && self.four == o.four
    }
    // `k` are the stages of one explicit Runge-Kutta step of length hh from (time, state) with this solver's tableau
    pub open spec fn stages_ok(&self, k: Seq<Seq<real>>, hh: real) -> bool {
        k.len() == O && forall|i: int| 0 <= i < O ==> #[trigger] stage_ok(k, i, self.time@, self.state@, hh, self.a_row(i), self.t_coefficients@[i]@)
    }
}
""")
    im = u.impl(RK, "IVPStepper<D> for RungeKuttaSolver<'a, N, D, O, T, F>", header="impl" + G + " RungeKuttaSolver<D, O, T, F>", keep_assoc=False)
    f = im.fn("step")
    f.attrs = []
    call = "(self.derivative)(step_time.real(), self.scratch_pad.as_slice(), &mut self.data.clone(),)"
    # R16: `e?` whose error is converted (From) spelled out as Rust defines it
    f.opt(subst=[(call + "?", "(match " + call + " { Ok(v_) => v_, Err(e_) => return Err(From::from(e_)) })", "R16-question-mark-convert")])
    f.req("old(self).inv()")
    f.ens("final(self).inv()", "final(self).same_setup(old(self))",
          "old(self).time@ >= old(self).end@ ==> res is Err && res->Err_0 is Done && final(self).time == old(self).time && final(self).state == old(self).state",
          # an accepted point is ONE step of the explicit Runge-Kutta scheme given by the solver's tableau, of the observed length,
          # and its embedded error estimate per unit step is within the tolerance
          "res is Ok ==> old(self).stages_ok(final(self).half_steps.cols@, old(self).h())",
          "res is Ok ==> final(self).state@ == wsum(final(self).half_steps.cols@, vecr(old(self).avg_coefficients), O as int, old(self).state@)",
          # C01: every yielded state has the problem's dimension
          "res is Ok ==> res->Ok_0.1@.len() == old(self).state@.len()",
          "res is Ok ==> final(self).time@ == old(self).time@ + old(self).h() && res->Ok_0.0@ == final(self).time@ && res->Ok_0.1@ == final(self).state@",
          "res is Ok ==> vnorm(esum(final(self).half_steps.cols@, vecr(old(self).error_coefficients), O as int)) / old(self).h() <= old(self).tolerance@",
          # C01: ordered, inside the interval, gap-bounded
          "res is Ok ==> old(self).time@ < res->Ok_0.0@ <= old(self).end@ && res->Ok_0.0@ - old(self).time@ <= old(self).dt_max@",
          # C01: the clock contract that lemma_reaches_end (whole histories of calls) is stated over
          "clock_rel(old(self).time@, old(self).end@, final(self).time@, res)",
          # a rejected trial commits nothing
          "res is Err && res->Err_0 is Redo ==> final(self).time == old(self).time && final(self).state == old(self).state",
          "res is Err ==> final(self).time@ == old(self).time@ || (res->Err_0 is Failure && res->Err_0->Failure_0 is MinimumTimeDeltaExceeded)")

    FR = ["self.setup_ok()", "self.hs_ok()", "self.same_setup(&pre)", "self.dt == pre.dt", "pre.time@ < pre.end@", "0real < pre.dt@ && hh == pre.dt@", "pre.setup_ok()",
          "pre.same_setup(old(self)) && pre.time == old(self).time && pre.state == old(self).state && pre.dt@ == old(self).h() && pre.dt@ <= pre.dt_max@"]
    SAME = ["self.time == pre.time", "self.state == pre.state"]
    def stages(n):
        return [f"forall|k: int| 0 <= k < {n} ==> #[trigger] stage_ok(self.half_steps.cols@, k, pre.time@, pre.state@, hh, pre.a_row(k), pre.t_coefficients@[k]@)"]
    f.hint("before loop 1", "let ghost pre = *self; let ghost hh = self.dt@;")
    f.loop(1, iter="it1", invariant=FR + SAME + stages("i") + [
        "i == it1.index@ && i <= O", "forall|k: int| 0 <= k < it1.history@.len() ==> *it1.history@[k] == self.k_coefficients.rows@[k]"])
    f.loop(2, iter="it2", invariant=FR + SAME + stages("i") + [
        "i < O && *k_row == self.k_coefficients.rows@[i as int]",
        "j == it2.index@ && j <= O", "forall|k: int| 0 <= k < it2.history@.len() ==> *it2.history@[k] == k_row@[k]",
        "self.scratch_pad@ == wsum(self.half_steps.cols@, vecr(*k_row), j as int, self.state@)", "self.scratch_pad@.len() == self.state@.len()"])
    f.hint("loop 2 end", "proof { lemma_wsum_len(self.half_steps.cols@, vecr(*k_row), j as int, self.state@); }")
    f.hint("before: let step_time =", """let ghost cols0 = self.half_steps.cols@; let ghost i0 = i as int;
            proof {
                let a = pre.a_row(i as int);
                assert(vecr(*k_row) == a);
                assert forall|jj: int| i <= jj < O implies a[jj] == 0real by { assert(self.k_coefficients.at(i as int, jj) == 0real); }
                lemma_wsum_zero_tail(cols0, a, i as int, O as int, self.state@);
                lemma_wsum_len(cols0, a, i as int, self.state@);
            }""")
    f.hint("after: let step_time =", """proof {
                assert(step_time@ == pre.time@ + pre.t_coefficients@[i0]@ * hh);
                assert(self.scratch_pad@ == wsum(cols0, pre.a_row(i0), i0, pre.state@));
            }""")
    f.hint("after: self.half_steps.set_column", """proof {
                assert(df_ok(pre.time@ + pre.t_coefficients@[i0]@ * hh, wsum(cols0, pre.a_row(i0), i0, pre.state@)));
                assert(self.step@ == vscale(df_val(pre.time@ + pre.t_coefficients@[i0]@ * hh, wsum(cols0, pre.a_row(i0), i0, pre.state@)), hh));
                let newc = self.half_steps.cols@;
                assert(newc == cols0.update(i0, self.step@));
                assert forall|k: int| 0 <= k <= i0 implies #[trigger] stage_ok(newc, k, pre.time@, pre.state@, hh, pre.a_row(k), pre.t_coefficients@[k]@) by {
                    lemma_wsum_frame(cols0, newc, pre.a_row(k), k, pre.state@);
                    if k < i0 { assert(newc[k] == cols0[k]); assert(stage_ok(cols0, k, pre.time@, pre.state@, hh, pre.a_row(k), pre.t_coefficients@[k]@)); }
                    else { assert(newc[i0] == self.step@); }
                }
            }""")
    f.loop(3, iter="it3", invariant=FR + SAME + stages("O") + [
        "ind == it3.index@ + 1 && 1 <= ind <= O", "forall|k: int| 0 <= k < it3.history@.len() ==> *it3.history@[k] == self.error_coefficients@[k + 1]",
        "self.scratch_pad@ == esum(self.half_steps.cols@, vecr(self.error_coefficients), ind as int)", "self.scratch_pad@.len() == self.state@.len()"])
    f.hint("after loop 3", "let ghost cols = self.half_steps.cols@;")
    f.loop(4, iter="it4", invariant=FR + stages("O") + [
        "self.time@ == pre.time@ + hh", "self.half_steps.cols@ == cols", "error@ == vnorm(esum(cols, vecr(pre.error_coefficients), O as int)) / hh",
        "ind == it4.index@ && ind <= O", "forall|k: int| 0 <= k < it4.history@.len() ==> *it4.history@[k] == self.avg_coefficients@[k]",
        "self.state@ == wsum(cols, vecr(self.avg_coefficients), ind as int, pre.state@)"])
    f.hint("before: let delta =", """let ghost dt1 = self.dt@;
        proof {
            assert(hh == old(self).h());
            assert forall|k: int| 0 <= k < O implies #[trigger] stage_ok(self.half_steps.cols@, k, old(self).time@, old(self).state@, hh, old(self).a_row(k), old(self).t_coefficients@[k]@) by {
                assert(stage_ok(self.half_steps.cols@, k, pre.time@, pre.state@, hh, pre.a_row(k), pre.t_coefficients@[k]@));
            }
            assert(old(self).stages_ok(self.half_steps.cols@, hh));
        }""")
    f.hint("before: if self.dt.real() > self.dt_max.real()", """proof {
            assert(self.dt@ > 0real) by(nonlinear_arith)
                requires dt1 > 0real, self.dt@ == dt1 * (1real / 10real) || self.dt@ == dt1 * 4real || (self.dt@ == dt1 * delta@ && delta@ > 1real / 10real);
        }""")
    f.hint("loop 4 end", "proof { lemma_wsum_len(cols, vecr(self.avg_coefficients), ind as int, pre.state@); }")
    rk_solve(u, "RungeKutta", "RungeKuttaSolver", RK, G)
    return u, f



AD = "src/ivp/adams.rs"
# Adams-Bashforth (explicit, k steps) and Adams-Moulton (implicit, k steps) weights: Hairer, Norsett, Wanner,
# Solving ODEs I, III.1 tables 1.1 / 1.2; Burden & Faires section 5.6.  Index 0 is the NEWEST derivative.
ADAMS_REF = r"""
pub open spec fn ab2(i: int) -> real { if i == 0 { 3real / 2real } else if i == 1 { -(1real / 2real) } else { 0real } }
pub open spec fn ab4(i: int) -> real { if i == 0 { 55real / 24real } else if i == 1 { -(59real / 24real) } else if i == 2 { 37real / 24real } else if i == 3 { -(9real / 24real) } else { 0real } }
// index 0 is the implicit (new) derivative
pub open spec fn am2(i: int) -> real { if i == 0 { 5real / 12real } else if i == 1 { 8real / 12real } else if i == 2 { -(1real / 12real) } else { 0real } }
pub open spec fn am4(i: int) -> real { if i == 0 { 251real / 720real } else if i == 1 { 646real / 720real } else if i == 2 { -(264real / 720real) } else if i == 3 { 106real / 720real } else if i == 4 { -(19real / 720real) } else { 0real } }
// consistency of the transcription: weights sum to 1 and integrate t exactly (first-order moment)
pub proof fn lemma_adams_reference_consistent()
    ensures ab2(0) + ab2(1) == 1real, ab4(0) + ab4(1) + ab4(2) + ab4(3) == 1real,
        am2(0) + am2(1) + am2(2) == 1real, am4(0) + am4(1) + am4(2) + am4(3) + am4(4) == 1real,
        -(ab2(1)) == 1real / 2real, -(ab4(1)) - 2real * ab4(2) - 3real * ab4(3) == 1real / 2real,
        am2(0) - am2(2) == 1real / 2real, am4(0) - am4(2) - 2real * am4(3) - 3real * am4(4) == 1real / 2real,
{}
"""


def adams_tableau_unit(name, st, order, ab, am):
    c = Config(extra_subst=[(f"BSVector<Self::RealField, {order}>", "Vec<R>"), ("BSVector::from_column_slice", "vx_vec_from_slice"), ("Self::RealField", "R")])
    u = Unit("C03", name, preludes=("real", "stdx", "rkm"), cfg=c)
    u.spec(ADAMS_REF)
    u.spec(f"pub struct {st};")
    im = u.impl(AD, f"AdamsCoefficients<{order}> for {st}<N>", header=f"impl {st}", keep_assoc=False)
    f = im.fn("predictor_coefficients")
    f.ens(f"res is Some && res->Some_0@.len() == {order} && forall|i: int| 0 <= i < {order} ==> #[trigger] res->Some_0@[i]@ == {ab}(i)")
    f = im.fn("corrector_coefficients")
    f.ens(f"res is Some && res->Some_0@.len() == {order} && forall|i: int| 0 <= i < {order} ==> #[trigger] res->Some_0@[i]@ == {am}(i)")
    return u



ADAMS_SPEC = r"""
impl vstd::std_specs::convert::FromSpecImpl<UserError> for IVPStatus<IVPError> {
    open spec fn obeys_from_spec() -> bool { true }
    open spec fn from_spec(v: UserError) -> IVPStatus<IVPError> { IVPStatus::Failure(IVPError::UserError(v)) }
}
impl From<UserError> for IVPStatus<IVPError> {
    #[verifier::external_body]
    fn from(v: UserError) -> (r: IVPStatus<IVPError>) ensures r == IVPStatus::<IVPError>::Failure(IVPError::UserError(v)) { unimplemented!() }
}
impl vstd::std_specs::convert::FromSpecImpl<UserError> for IVPError {
    open spec fn obeys_from_spec() -> bool { true }
    open spec fn from_spec(v: UserError) -> IVPError { IVPError::UserError(v) }
}
// thiserror's #[from] on IVPError::UserError and IVPStatus::Failure (not in the source text): trusted
impl From<UserError> for IVPError {
    #[verifier::external_body]
    fn from(v: UserError) -> (r: IVPError) ensures r == IVPError::UserError(v) { unimplemented!() }
}
impl vstd::std_specs::convert::FromSpecImpl<IVPError> for IVPStatus<IVPError> {
    open spec fn obeys_from_spec() -> bool { true }
    open spec fn from_spec(v: IVPError) -> IVPStatus<IVPError> { IVPStatus::Failure(v) }
}
impl From<IVPError> for IVPStatus<IVPError> {
    #[verifier::external_body]
    fn from(v: IVPError) -> (r: IVPStatus<IVPError>) ensures r == IVPStatus::<IVPError>::Failure(v) { unimplemented!() }
}
pub open spec fn vecr(v: Vec<R>) -> Seq<real> { Seq::new(v@.len(), |i: int| v@[i]@) }
// one classical fourth-order Runge-Kutta step of length h from (t, y)   (half = 1/2, two = 2, sixth = 1/6)
pub open spec fn rk4(t: real, y: Seq<real>, h: real, half: real, two: real, sixth: real) -> Seq<real> {
    let k1 = vscale(df_val(t, y), h);
    let k2 = vscale(df_val(t + half * h, vadd(y, vscale(k1, half))), h);
    let k3 = vscale(df_val(t + half * h, vadd(y, vscale(k2, half))), h);
    let k4 = vscale(df_val(t + h, vadd(y, k3)), h);
    vadd(y, vscale(vadd(vadd(vadd(k1, vscale(k2, two)), vscale(k3, two)), k4), sixth))
}
pub open spec fn rk_t(t: real, h: real, n: int) -> real decreases n { if n <= 0 { t } else { rk_t(t, h, n - 1) + h } }
pub proof fn lemma_rk_t(t: real, h: real, n: int) requires n >= 0 ensures rk_t(t, h, n) == t + (n as real) * h decreases n {
    if n > 0 { lemma_rk_t(t, h, n - 1); assert((n as real) * h == ((n - 1) as real) * h + h) by(nonlinear_arith); }
    else { assert((n as real) * h == 0real) by(nonlinear_arith) requires n == 0; }
}
pub open spec fn rk_y(t: real, y: Seq<real>, h: real, n: int, half: real, two: real, sixth: real) -> Seq<real> decreases n {
    if n <= 0 { y } else { rk4(rk_t(t, h, n - 1), rk_y(t, y, h, n - 1, half, two, sixth), h, half, two, sixth) }
}
"""


ADAMS_CALL = "(self.derivative)(self.time.real() + self.dt.real(), predictor.as_slice(), &mut self.data.clone(),)"

# solve() of the adaptive builders: nalgebra's generic constructors spelled as shim calls
BUILD_RULES = [
    # BSVector::from_iterator(x.as_slice().iter().cloned().map(Self::Field::from_real)): an O-vector filled from the O entries of x in order
    # (from_real is the identity at the real instantiation)
    ("BSVector::from_iterator(", "vx_vec_from_real_iter(", "R33-vector-from-iterator"),
    (".as_slice().iter().cloned().map(Self::Field::from_real)", "", "R33-vector-from-iterator"),
    # BVector::from_element_generic(dim, U1, 0): a zero vector of the problem's dimension
    ("BVector::from_element_generic(self.dim, U1::name(), Self::Field::zero(),)", "V::vx_zeros(self.dim)", "R33-zero-vector"),
]

BUILD_SPEC = r'''
#[verifier::external_body]
pub fn vx_vec_from_real_iter(v: Vec<R>) -> (r: Vec<R>) ensures r@ == v@ { v }
// the user's derivative function obeys the callback model (a pure function of (t, y): a vector of y's length, or an error)
pub open spec fn deriv_ok<T, F: FnMut(R, &[R], &mut T) -> Result<V, UserError>>(f: F) -> bool {
    &&& (forall|t: R, y: &[R], d: &mut T| #[trigger] f.requires((t, y, d)))
    &&& (forall|t: R, y: &[R], d: &mut T, r: Result<V, UserError>| #[trigger] f.ensures((t, y, d), r) ==>
          (df_ok(t@, slice_view(y)) ==> r is Ok && r->Ok_0@ == df_val(t@, slice_view(y)) && r->Ok_0@.len() == y@.len())
          && (!df_ok(t@, slice_view(y)) ==> r is Err && r->Err_0 == df_err(t@, slice_view(y))))
}
'''

ADAMS_TRAIT = r'''
// src/ivp/adams.rs `pub trait AdamsCoefficients<const O: usize>` restated: the three associated functions are pure (they return
// what the spec functions say), so that the generic builder can be specified for every implementor
pub trait AdamsCoefficients<const O: usize> {
    spec fn pc() -> Option<Seq<real>>;
    spec fn cc() -> Option<Seq<real>>;
    spec fn ec() -> Option<real>;
    fn predictor_coefficients() -> (r: Option<Vec<R>>) ensures (r is Some) == (Self::pc() is Some), r is Some ==> vecr(r->Some_0) == Self::pc()->Some_0;
    fn corrector_coefficients() -> (r: Option<Vec<R>>) ensures (r is Some) == (Self::cc() is Some), r is Some ==> vecr(r->Some_0) == Self::cc()->Some_0;
    fn error_coefficient() -> (r: Option<R>) ensures (r is Some) == (Self::ec() is Some), r is Some ==> r->Some_0@ == Self::ec()->Some_0;
}
// what the step contracts need of the supplied tables (proved for Adams3 / Adams5 in the tableau units: the functions equal the literature tables)
pub open spec fn adams_tables_ok<const O: usize, A: AdamsCoefficients<O>>() -> bool {
    3 <= O <= 64 && A::pc() is Some && A::pc()->Some_0.len() == O && A::cc() is Some && A::cc()->Some_0.len() == O && A::ec() is Some && A::ec()->Some_0 > 0real
}
'''


def builder_items(u, file, st):
    """the builder struct, IVPIterator and the spec text the solve() contracts share"""
    from vx.extract import Config
    itcfg = cfg()
    itcfg.drop_generics = {"D"}
    itcfg.type_subst = [(["T", ":", "IVPStepper", "<", "D", ">"], "T")] + itcfg.type_subst
    u.item("src/ivp.rs", "struct", "IVPIterator", drop_fields=("_dim",), cfg=itcfg)
    u.item(file, "struct", st)
    u.spec(BUILD_SPEC)


BDF_TRAIT = r'''
// src/ivp/bdf.rs `pub trait BDFCoefficients<const O: usize>` restated (pure associated functions)
pub trait BDFCoefficients<const O: usize> {
    spec fn hc() -> Option<Seq<real>>;
    spec fn lc() -> Option<Seq<real>>;
    fn higher_coefficients() -> (r: Option<Vec<R>>) ensures (r is Some) == (Self::hc() is Some), r is Some ==> vecr(r->Some_0) == Self::hc()->Some_0;
    fn lower_coefficients() -> (r: Option<Vec<R>>) ensures (r is Some) == (Self::lc() is Some), r is Some ==> vecr(r->Some_0) == Self::lc()->Some_0;
}
pub open spec fn bdf_tables_ok<const O: usize, B: BDFCoefficients<O>>() -> bool {
    3 <= O <= 64 && B::hc() is Some && B::hc()->Some_0.len() == O && B::lc() is Some && B::lc()->Some_0.len() == O
}
'''

BUILDER_WF = """
    // the builder's invariant (C06): supplied steps and tolerance positive, min <= max, start < end
    pub open spec fn wf(&self) -> bool {
        (self.init_dt_max is Some ==> self.init_dt_max->Some_0@ > 0real)
        && (self.init_dt_min is Some ==> self.init_dt_min->Some_0@ > 0real)
        && (self.init_tolerance is Some ==> self.init_tolerance->Some_0@ > 0real)
        && (self.init_dt_max is Some && self.init_dt_min is Some ==> self.init_dt_min->Some_0@ <= self.init_dt_max->Some_0@)
        && (self.init_time is Some && self.init_end is Some ==> self.init_time->Some_0@ < self.init_end->Some_0@)
    }
    pub open spec fn complete(&self) -> bool {
        self.init_dt_max is Some && self.init_dt_min is Some && self.init_tolerance is Some && self.init_time is Some
        && self.init_end is Some && self.init_state is Some && self.init_derivative is Some
    }
"""
# what every adaptive solve() promises about the scalar fields of the solver it returns
SOLVE_COMMON = ("res is Ok ==> !res->Ok_0.finished && res->Ok_0.solver.time@ == self.init_time->Some_0@ && res->Ok_0.solver.end@ == self.init_end->Some_0@ "
                "&& res->Ok_0.solver.state == self.init_state->Some_0 && res->Ok_0.solver.tolerance@ == self.init_tolerance->Some_0@ "
                "&& res->Ok_0.solver.dt_max@ == self.init_dt_max->Some_0@ && res->Ok_0.solver.dt_min@ == self.init_dt_min->Some_0@ "
                "&& res->Ok_0.solver.dt@ == (self.init_dt_max->Some_0@ + self.init_dt_min->Some_0@) / 2real && res->Ok_0.solver.derivative == self.init_derivative->Some_0")
HALF_HINT = """            assert(half@ == 1real / 2real);
            assert((dt_max@ + dt_min@) * half@ == (dt_max@ + dt_min@) / 2real) by(nonlinear_arith) requires half@ == 1real / 2real;
"""


def adams_solve(u, st, solver, file, G):
    builder_items(u, file, st)
    u.spec(ADAMS_TRAIT)
    GB = G[:-1] + ", A: AdamsCoefficients<O>>"
    TY = f"{st}<D, O, T, F, A>"
    u.spec(f"impl{GB} {TY} {{" + BUILDER_WF + "}\n")
    im = u.impl(file, f"IVPSolver<'a, D> for {st}<'a, N, D, O, T, F, A>", header=f"impl{GB} {TY}", keep_assoc=False)
    f = im.fn("solve")
    f.attrs = []
    f.opt(subst=BUILD_RULES, bind_tail="Ok(IVPIterator", tail_hint="proof {\n            let s = vx_res->Ok_0.solver;\n" + HALF_HINT + """
            assert(s.pv() =~= Seq::<(real, Seq<real>)>::empty());
            assert(s.pd() =~= Seq::<Seq<real>>::empty());
            if O >= 3 { lemma_hist_empty(O as int, true, s.dt@, s.dt_max@, 0, s.time@, s.end@, s.pv(), s.pd(), s.save_state@.len(), s.state@, s.implicit_derivs@); }
        }""")
    f.req("self.wf()")
    f.ens(# C06: a missing mandatory parameter is reported as such; a complete valid configuration always builds
          "!self.complete() ==> res is Err && res->Err_0 is MissingParameters",
          "self.complete() && adams_tables_ok::<O, A>() ==> res is Ok",
          # the solver starts from the user's data with dt = (dt_min + dt_max) / 2, an empty history, and the coefficient tables of A copied in order
          SOLVE_COMMON + " && res->Ok_0.solver.yield_memory == 0 && res->Ok_0.solver.prev_values@.len() == 0 && res->Ok_0.solver.prev_derivatives@.len() == 0",
          "res is Ok ==> A::pc() is Some && A::cc() is Some && A::ec() is Some && vecr(res->Ok_0.solver.predictor_coefficients) == A::pc()->Some_0 "
          "&& vecr(res->Ok_0.solver.corrector_coefficients) == A::cc()->Some_0 && res->Ok_0.solver.error_coefficient@ == A::ec()->Some_0",
          # C01 / C03: the precondition of every step() contract holds for the solver that solve() returns
          "res is Ok && adams_tables_ok::<O, A>() && deriv_ok(self.init_derivative->Some_0) ==> res->Ok_0.solver.inv()")
    return f


def bdf_solve(u, st, solver, file, G):
    builder_items(u, file, st)
    u.spec(BDF_TRAIT)
    GB = G[:-1] + ", B: BDFCoefficients<O>>"
    TY = f"{st}<D, O, T, F, B>"
    u.spec(f"impl{GB} {TY} {{" + BUILDER_WF + "}\n")
    im = u.impl(file, f"IVPSolver<'a, D> for {st}<'a, N, D, O, T, F, B>", header=f"impl{GB} {TY}", keep_assoc=False)
    f = im.fn("solve")
    f.attrs = []
    f.opt(subst=BUILD_RULES + [("BVector::from_element_generic(self.dim, U1::from_usize(1), Self::Field::zero(),)", "V::vx_zeros(self.dim)", "R33-zero-vector")],
          bind_tail="Ok(IVPIterator", tail_hint="proof {\n            let s = vx_res->Ok_0.solver;\n" + HALF_HINT + """
            assert(s.pv() =~= Seq::<(real, Seq<real>)>::empty());
            assert(s.pdb() =~= Seq::<Seq<real>>::empty());
            if O >= 3 { lemma_hist_empty(O as int + 1, false, s.dt@, s.dt_max@, 0, s.time@, s.end@, s.pv(), s.pdb(), s.save_state@.len(), s.state@, s.state@); }
        }""")
    f.req("self.wf()")
    f.ens("!self.complete() ==> res is Err && res->Err_0 is MissingParameters",
          "self.complete() && bdf_tables_ok::<O, B>() ==> res is Ok",
          SOLVE_COMMON + " && res->Ok_0.solver.yield_memory == 0 && res->Ok_0.solver.prev_values@.len() == 0 && res->Ok_0.solver.dim == self.dim",
          "res is Ok ==> B::hc() is Some && B::lc() is Some && vecr(res->Ok_0.solver.higher_coefficients) == B::hc()->Some_0 && vecr(res->Ok_0.solver.lower_coefficients) == B::lc()->Some_0",
          # C01 / C03: the precondition of every step() contract holds (the initial state must have the builder's dimension)
          "res is Ok && bdf_tables_ok::<O, B>() && deriv_ok(self.init_derivative->Some_0) && self.init_state->Some_0@.len() == self.dim.size() ==> res->Ok_0.solver.inv()")
    return f


RK_TRAIT = r'''
// src/ivp/rk.rs `pub trait RungeKuttaCoefficients<const O: usize>` restated (pure associated functions)
pub trait RungeKuttaCoefficients<const O: usize> {
    spec fn tc() -> Option<Seq<real>>;
    spec fn kc() -> Option<KM<O>>;
    spec fn ac() -> Option<Seq<real>>;
    spec fn erc() -> Option<Seq<real>>;
    fn t_coefficients() -> (r: Option<Vec<R>>) ensures (r is Some) == (Self::tc() is Some), r is Some ==> vecr(r->Some_0) == Self::tc()->Some_0;
    fn k_coefficients() -> (r: Option<KM<O>>) ensures (r is Some) == (Self::kc() is Some), r is Some ==> r->Some_0 == Self::kc()->Some_0;
    fn avg_coefficients() -> (r: Option<Vec<R>>) ensures (r is Some) == (Self::ac() is Some), r is Some ==> vecr(r->Some_0) == Self::ac()->Some_0;
    fn error_coefficients() -> (r: Option<Vec<R>>) ensures (r is Some) == (Self::erc() is Some), r is Some ==> vecr(r->Some_0) == Self::erc()->Some_0;
}
// what the step contract needs of the supplied tableau (proved for RK45 / RK23 in the tableau units: the functions equal the literature tables,
// which are strictly lower triangular)
pub open spec fn rk_tables_ok<const O: usize, RC: RungeKuttaCoefficients<O>>() -> bool {
    &&& O >= 1 && RC::tc() is Some && RC::tc()->Some_0.len() == O && RC::ac() is Some && RC::ac()->Some_0.len() == O && RC::erc() is Some && RC::erc()->Some_0.len() == O
    &&& RC::kc() is Some && RC::kc()->Some_0.wf()
    &&& forall|i: int, j: int| #![trigger RC::kc()->Some_0.at(i, j)] 0 <= i <= j < O ==> RC::kc()->Some_0.at(i, j) == 0real
}
// BSMatrix::from_iterator_generic(O, O, m.as_slice().iter().cloned().map(from_real)): nalgebra fills column by column from the
// iterator, and as_slice() of a statically sized matrix lists its entries column by column: an entry-wise copy
#[verifier::external_body]
pub fn vx_mat_from_real_iter<const O: usize>(m: KM<O>) -> (r: KM<O>) ensures r == m { m }
'''


def rk_solve(u, st, solver, file, G):
    builder_items(u, file, st)
    u.spec(RK_TRAIT)
    GB = G[:-1] + ", RC: RungeKuttaCoefficients<O>>"
    TY = f"{st}<D, O, T, F, RC>"
    u.spec(f"impl{GB} {TY} {{" + BUILDER_WF + "}\n")
    im = u.impl(file, f"IVPSolver<'a, D> for {st}<'a, N, D, O, T, F, R>", header=f"impl{GB} {TY}", keep_assoc=False)
    f = im.fn("solve")
    f.attrs = []
    f.opt(subst=BUILD_RULES + [
              ("BSMatrix::<N, O, O>::from_iterator_generic(<Const<O> as Dim>::from_usize(O), <Const<O> as Dim>::from_usize(O),", "vx_mat_from_real_iter(", "R33-matrix-from-iterator"),
              ("BMatrix::from_element_generic(self.dim, <Const<O> as DimName>::name(), Self::Field::zero(),)", "HM::vx_zeros(self.dim, O)", "R33-zero-matrix"),
              ("BVector::from_element_generic(self.dim, U1::name(), Self::Field::zero())", "V::vx_zeros(self.dim)", "R33-zero-vector")],
          bind_tail="Ok(IVPIterator", tail_hint="""proof {
            let s = vx_res->Ok_0.solver;
            assert(half@ == 1real / 2real);
            assert((dt_max@ + dt_min@) * half@ == (dt_max@ + dt_min@) / 2real) by(nonlinear_arith) requires half@ == 1real / 2real;
        }""")
    f.req("self.wf()")
    f.ens("!self.complete() ==> res is Err && res->Err_0 is MissingParameters",
          "self.complete() && rk_tables_ok::<O, RC>() ==> res is Ok",
          SOLVE_COMMON,
          # the tableau of RC copied entry by entry
          "res is Ok ==> RC::tc() is Some && RC::kc() is Some && RC::ac() is Some && RC::erc() is Some && vecr(res->Ok_0.solver.t_coefficients) == RC::tc()->Some_0 "
          "&& res->Ok_0.solver.k_coefficients == RC::kc()->Some_0 && vecr(res->Ok_0.solver.avg_coefficients) == RC::ac()->Some_0 && vecr(res->Ok_0.solver.error_coefficients) == RC::erc()->Some_0",
          # C01 / C03: the precondition of the step() contract holds (the initial state must have the builder's dimension)
          "res is Ok && rk_tables_ok::<O, RC>() && deriv_ok(self.init_derivative->Some_0) && self.init_state->Some_0@.len() == self.dim.size() ==> res->Ok_0.solver.inv()")
    return f


def adams_solver_unit(prop="C03"):
    c = cfg(extra=[("AdamsSolver<'a, N, D, O, T, F>", "AdamsSolver<D, O, T, F>"), ("BSVector<N, O>", "Vec<R>"),
                   ("Step<Self::RealField, Self::Field, D, Self::Error>", "Result<(R, V), IVPStatus<IVPError>>"),
                   # the builder (solve() only)
                   ("Adams<'a, N, D, O, T, F, A>", "Adams<D, O, T, F, A>"), ("PhantomData<&'a (T, A)>", "PhantomData<(T, A)>"),
                   ("IVPIterator<D, Self::Solver>", "IVPIterator<AdamsSolver<D, O, T, F>>")])
    c.drop_where += ["A"]
    u = Unit(prop, "adams_solver", preludes=("real", "stdx", "ivp", "rkm", "deque"), cfg=c)
    u.crate_attrs = ["#![feature(allocator_api)]"]
    u.rlimit = 300
    u.timeout = 600
    u.spec("use std::collections::VecDeque;")
    u.item("src/lib.rs", "enum", "DimensionError")
    u.item("src/ivp.rs", "enum", "IVPError")
    u.item("src/ivp.rs", "enum", "IVPStatus")
    u.item(AD, "struct", "AdamsSolver")
    u.spec(CALLBACK_SPEC)
    u.spec(ADAMS_SPEC)
    u.spec(HIST_SPEC)
    u.spec(TRACE_SPEC)
    u.spec(MSTEP_SPEC)
    G = "<D: Dimension, const O: usize, T: Clone, F: FnMut(R, &[R], &mut T) -> Result<V, UserError>>"
    u.spec("impl" + G + r""" AdamsSolver<D, O, T, F> {
    // the time of the last point handed to the iterator
    pub open spec fn yc(&self) -> real { yclock(O as int, self.dt@, self.yield_memory as int, self.time@, self.pv()) }
    pub open spec fn setup_ok(&self) -> bool {
        &&& 3 <= O <= 64 && self.predictor_coefficients@.len() == O && self.corrector_coefficients@.len() == O
        &&& self.one_tenth@ == 1real / 10real && self.one_sixth@ == 1real / 6real && self.half@ == 1real / 2real && self.two@ == 2real && self.four@ == 4real
        &&& self.order@ == O as real && self.dt_max@ > 0real && self.tolerance@ > 0real && self.error_coefficient@ > 0real
        &&& (forall|t: R, y: &[R], d: &mut T| #[trigger] self.derivative.requires((t, y, d)))
        &&& (forall|t: R, y: &[R], d: &mut T, r: Result<V, UserError>| #[trigger] self.derivative.ensures((t, y, d), r) ==>
              (df_ok(t@, slice_view(y)) ==> r is Ok && r->Ok_0@ == df_val(t@, slice_view(y)) && r->Ok_0@.len() == y@.len())
              && (!df_ok(t@, slice_view(y)) ==> r is Err && r->Err_0 == df_err(t@, slice_view(y))))
    }
    pub open spec fn same_setup(&self, o: &Self) -> bool {
        self.predictor_coefficients == o.predictor_coefficients && self.corrector_coefficients == o.corrector_coefficients && self.error_coefficient == o.error_coefficient
        && self.end == o.end && self.dt_max == o.dt_max && self.dt_min == o.dt_min && self.tolerance == o.tolerance && self.derivative == o.derivative
        && self.one_tenth == o.one_tenth && self.one_sixth == o.one_sixth && self.half == o.half && self.two == o.two && self.four == o.four && self.order == o.order
    }
    pub open spec fn rk4s(&self, t: real, y: Seq<real>, h: real) -> Seq<real> { rk4(t, y, h, self.half@, self.two@, self.one_sixth@) }
    pub open spec fn rky(&self, n: int) -> Seq<real> { rk_y(self.time@, self.state@, self.dt@, n, self.half@, self.two@, self.one_sixth@) }
    pub open spec fn rkt(&self, n: int) -> real { rk_t(self.time@, self.dt@, n) }
    // ---- the predictor-corrector formulas (index 0 of the coefficient vectors is the NEWEST derivative) ----
    pub open spec fn pd(&self) -> Seq<Seq<real>> { pdv(self.prev_derivatives) }
    pub open spec fn pv(&self) -> Seq<(real, Seq<real>)> { pvv(self.prev_values) }
    pub open spec fn psum(&self, n: int) -> Seq<real> decreases n {
        if n <= 1 { vscale(self.pd()[0], self.predictor_coefficients@[O - 2]@) }
        else { vadd(self.psum(n - 1), vscale(self.pd()[n - 1], self.predictor_coefficients@[O - (n - 1) - 2]@)) }
    }
    pub open spec fn predictor(&self) -> Seq<real> { vadd(self.state@, vscale(self.psum(O - 1), self.dt@)) }
    pub open spec fn imp(&self) -> Seq<real> { df_val(self.time@ + self.dt@, self.predictor()) }
    pub open spec fn csum(&self, n: int) -> Seq<real> decreases n {
        if n <= 0 { vscale(self.imp(), self.corrector_coefficients@[0]@) }
        else { vadd(self.csum(n - 1), vscale(self.pd()[n - 1], self.corrector_coefficients@[O - (n - 1) - 1]@)) }
    }
    pub open spec fn corrector(&self) -> Seq<real> { vadd(self.state@, vscale(self.csum(O - 1), self.dt@)) }
    pub open spec fn err(&self) -> real { self.error_coefficient@ / self.dt@ * vnorm(vsub(self.corrector(), self.predictor())) }
    // ---- the history: equally spaced points with a derivative that belongs to each point's time ----
    pub open spec fn hist_ok(&self) -> bool {
        hist(O as int, true, self.dt@, self.dt_max@, self.yield_memory as int, self.time@, self.end@, self.pv(), self.pd(), self.save_state@.len(), self.state@, self.implicit_derivs@)
    }
    // this call tries a predictor-corrector step
    pub open spec fn multistep_trial(&self) -> bool {
        (self.yield_memory == 0 || self.yield_memory == O) && self.time@ + self.dt@ < self.end@ && self.pv().len() > 0
    }
    // every field but scratch_pad and implicit_derivs
    pub open spec fn frame(&self, o: &Self) -> bool {
        self.same_setup(o) && self.time == o.time && self.state == o.state && self.dt == o.dt && self.data == o.data && self.prev_values == o.prev_values
        && self.prev_derivatives == o.prev_derivatives && self.save_state == o.save_state && self.yield_memory == o.yield_memory
    }
    pub open spec fn inv(&self) -> bool { self.setup_ok() && self.hist_ok() && self.time@ <= self.end@ }
}
""")
    im = u.impl(AD, "AdamsSolver<'a, N, D, O, T, F>", header="impl" + G + " AdamsSolver<D, O, T, F>", keep_assoc=False)
    im2 = u.impl(AD, "IVPStepper<D> for AdamsSolver<'a, N, D, O, T, F>", header="impl" + G + " AdamsSolver<D, O, T, F>", keep_assoc=False)
    f = im.fn("runge_kutta")
    f.attrs = []
    f.req("old(self).setup_ok()", "iterations >= 1")
    f.ens("final(self).same_setup(old(self)) && final(self).dt == old(self).dt && final(self).yield_memory == old(self).yield_memory && final(self).save_state == old(self).save_state "
          "&& final(self).implicit_derivs == old(self).implicit_derivs",
          "final(self).state@.len() == old(self).state@.len()",
          # `iterations` classical RK4 steps of length dt; every new point and its derivative is appended to the history
          "res is Ok ==> final(self).time@ == old(self).rkt(iterations as int) && final(self).state@ == old(self).rky(iterations as int)",
          "res is Ok ==> pvv(final(self).prev_values) == pvv(old(self).prev_values) + Seq::new(iterations as nat, |j: int| (old(self).rkt(j + 1), old(self).rky(j + 1)))",
          "res is Ok ==> pdv(final(self).prev_derivatives) == pdv(old(self).prev_derivatives) + Seq::new(iterations as nat, |j: int| df_val(old(self).rkt(j + 1), old(self).rky(j + 1)))",
          "res is Ok ==> forall|j: int| 0 <= j <= iterations ==> (#[trigger] old(self).rky(j)).len() == old(self).state@.len() && (j >= 1 ==> df_val(old(self).rkt(j), old(self).rky(j)).len() == old(self).state@.len())")
    f.loop(1, invariant=[
        "forall|j: int| 0 <= j <= i ==> (#[trigger] old(self).rky(j)).len() == old(self).state@.len() && (1 <= j < i ==> df_val(old(self).rkt(j), old(self).rky(j)).len() == old(self).state@.len())",
        "self.setup_ok()", "self.same_setup(old(self)) && self.dt == old(self).dt && self.yield_memory == old(self).yield_memory && self.save_state == old(self).save_state && self.implicit_derivs == old(self).implicit_derivs",
        "self.state@.len() == old(self).state@.len()", "iterations >= 1",
        "self.time@ == old(self).rkt(i as int) && self.state@ == old(self).rky(i as int)",
        "pvv(self.prev_values) == pvv(old(self).prev_values) + Seq::new(if i >= 1 { (i - 1) as nat } else { 0nat }, |j: int| (old(self).rkt(j + 1), old(self).rky(j + 1)))",
        "pdv(self.prev_derivatives) == pdv(old(self).prev_derivatives) + Seq::new(if i >= 1 { (i - 1) as nat } else { 0nat }, |j: int| df_val(old(self).rkt(j + 1), old(self).rky(j + 1)))"])
    f.hint("loop 1 begin", "let ghost pv0 = pvv(self.prev_values); let ghost pd0 = pdv(self.prev_derivatives); let ghost t_i = self.time@; let ghost y_i = self.state@;")
    f.hint("before: self.state +=", """proof {
                if i != 0 {
                    assert(pvv(self.prev_values) =~= pv0.push((t_i, y_i)));
                    assert(pdv(self.prev_derivatives) =~= pd0.push(df_val(t_i, y_i)));
                    assert(pvv(self.prev_values) =~= pvv(old(self).prev_values) + Seq::new(i as nat, |j: int| (old(self).rkt(j + 1), old(self).rky(j + 1))));
                    assert(pdv(self.prev_derivatives) =~= pdv(old(self).prev_derivatives) + Seq::new(i as nat, |j: int| df_val(old(self).rkt(j + 1), old(self).rky(j + 1))));
                }
            }""")
    f.hint("loop 1 end", """proof {
                assert(self.state@ == old(self).rk4s(t_i, y_i, self.dt@));
                assert(old(self).rky(i as int + 1) == old(self).rk4s(old(self).rkt(i as int), old(self).rky(i as int), old(self).dt@));
                assert(old(self).rkt(i as int + 1) == old(self).rkt(i as int) + old(self).dt@);
            }""")
    f.hint("after loop 1", "let ghost pv1 = pvv(self.prev_values); let ghost pd1 = pdv(self.prev_derivatives); let ghost nn = iterations as int;")
    f.hint("before: Ok(())", """proof {
            assert(pvv(self.prev_values) =~= pv1.push((self.time@, self.state@)));
            assert(pdv(self.prev_derivatives) =~= pd1.push(df_val(self.time@, self.state@)));
            assert(pvv(self.prev_values) =~= pvv(old(self).prev_values) + Seq::new(nn as nat, |j: int| (old(self).rkt(j + 1), old(self).rky(j + 1))));
            assert(pdv(self.prev_derivatives) =~= pdv(old(self).prev_derivatives) + Seq::new(nn as nat, |j: int| df_val(old(self).rkt(j + 1), old(self).rky(j + 1))));
        }""")
    g = im2.fn("step")
    g.attrs = []
    # R28: Clone for a tuple is the component-wise clone (Verus has no built-in tuple Clone instance)
    g.opt(subst=[("self.prev_values[get_item].clone()", "(self.prev_values[get_item].0.clone(), self.prev_values[get_item].1.clone())", "R28-tuple-clone"),
                 ("&corrector - &predictor", "corrector.vx_sub_ref(&predictor)", "R29-ref-operator-as-call"),
                 # R16: `e?` whose error is converted (From) spelled out as Rust defines it
                 ("self.runge_kutta(1)?", "(match self.runge_kutta(1) { Ok(v_) => v_, Err(e_) => return Err(From::from(e_)) })", "R16-question-mark-convert"),
                 (ADAMS_CALL + "?", "(match " + ADAMS_CALL + " { Ok(v_) => v_, Err(e_) => return Err(From::from(e_)) })", "R16-question-mark-convert"),
                 ("self.runge_kutta(O - 1)?", "(match self.runge_kutta(O - 1) { Ok(v_) => v_, Err(e_) => return Err(From::from(e_)) })", "R16-question-mark-convert")])
    g.req("old(self).inv()")
    g.ens(# the solver invariant is kept, except after a Failure (the iterator never calls step() again) and in the corner of an
          # exactly zero error estimate (tolerance / 0 is +inf in floating point and unspecified over the reals)
          "!(res is Err && res->Err_0 is Failure) && !(old(self).multistep_trial() && old(self).err() == 0real) ==> final(self).inv()", "final(self).same_setup(old(self))",
          # -- yielding a start-up point that was taken earlier
          "0 < old(self).yield_memory < O ==> res is Ok && (res->Ok_0.0@, res->Ok_0.1@) == old(self).pv()[O - old(self).yield_memory - 1] "
          "&& final(self).time == old(self).time && final(self).state == old(self).state && final(self).dt == old(self).dt",
          # -- handing over the first multistep point after the start-up points
          "old(self).yield_memory == O + 1 ==> res is Ok && res->Ok_0.0@ == old(self).time@ && res->Ok_0.1@ == old(self).state@ && final(self).yield_memory == 0 "
          "&& final(self).time == old(self).time && final(self).state == old(self).state && final(self).dt == old(self).dt",
          "(old(self).yield_memory == 0 || old(self).yield_memory == O) && old(self).time@ >= old(self).end@ ==> res is Err && res->Err_0 is Done",
          # -- the last step is one classical RK4 step that lands exactly on the end time
          "(old(self).yield_memory == 0 || old(self).yield_memory == O) && old(self).time@ < old(self).end@ && old(self).time@ + old(self).dt@ >= old(self).end@ && res is Ok ==> "
          "res->Ok_0.0@ == old(self).end@ && final(self).time@ == old(self).end@ && res->Ok_0.1@ == old(self).rk4s(old(self).time@, old(self).state@, old(self).end@ - old(self).time@)",
          # -- an accepted multistep point is the Adams-Bashforth-predict / Adams-Moulton-correct update of the (equally spaced, hist_ok)
          #    history, with the predictor-corrector error estimate within the tolerance
          "(old(self).yield_memory == 0 || old(self).yield_memory == O) && old(self).time@ + old(self).dt@ < old(self).end@ && old(self).pv().len() > 0 && res is Ok ==> "
          "res->Ok_0.0@ == old(self).time@ + old(self).dt@ && res->Ok_0.1@ == old(self).corrector() && old(self).err() <= old(self).tolerance@ "
          "&& final(self).time@ == res->Ok_0.0@ && final(self).state@ == res->Ok_0.1@ && df_ok(old(self).time@ + old(self).dt@, old(self).predictor())",
          # -- a rejected trial right after the start-up rewinds the clock over the O-1 start-up steps (taken with the OLD dt) and restores the saved state
          "old(self).multistep_trial() && old(self).yield_memory == O && res is Err && res->Err_0 is Redo && final(self).yield_memory == O ==> "
          "final(self).time@ == old(self).time@ - old(self).dt@ * (old(self).order@ - 1real) && final(self).state@ == old(self).save_state@",
          # -- no room for a start-up before the end: one classical RK4 step of the current length, yielded at once
          "old(self).yield_memory != O + 1 && !(0 < old(self).yield_memory < O) && old(self).time@ + old(self).dt@ < old(self).end@ && old(self).pv().len() == 0 "
          "&& old(self).time@ + old(self).dt@ * old(self).order@ >= old(self).end@ && res is Ok ==> res->Ok_0.0@ == old(self).time@ + old(self).dt@ "
          "&& res->Ok_0.1@ == old(self).rk4s(old(self).time@, old(self).state@, old(self).dt@) && final(self).time@ == res->Ok_0.0@ && final(self).state@ == res->Ok_0.1@",
          # C01: the solver never answers Done, and never takes the final clipped step, while start-up points still wait to be yielded
          "res is Err && res->Err_0 is Done ==> !(old(self).yield_memory == O && old(self).pv().len() == O - 1)",
          "(old(self).yield_memory == 0 || old(self).yield_memory == O) && old(self).time@ < old(self).end@ && old(self).time@ + old(self).dt@ >= old(self).end@ "
          "==> !(old(self).yield_memory == O && old(self).pv().len() == O - 1)",
          # C01: ordered, inside the interval, gap-bounded (for the points produced by this call)
          "(old(self).yield_memory == 0 || old(self).yield_memory == O) && res is Ok ==> old(self).time@ < res->Ok_0.0@ <= old(self).end@ && res->Ok_0.0@ - old(self).time@ <= old(self).dt_max@",
          # C01, all regimes: what the call did to (dt, yield_memory, time, history), case by case.  lemma_mclock (specs/ivpcommon.py) derives from
          # this summary and the history invariant that the YIELD CLOCK (time of the last point handed out) obeys the clock contract of
          # lemma_reaches_end, that every yielded point is the new clock value, and that it lies within dt_max of the previous one
          "res is Ok ==> res->Ok_0.1@.len() == old(self).state@.len() && final(self).state@.len() == old(self).state@.len()",
          "mtrans(O as int, old(self).dt@, old(self).yield_memory as int, old(self).time@, old(self).end@, old(self).pv(), "
          "final(self).dt@, final(self).yield_memory as int, final(self).time@, final(self).pv(), res)")
    def A(x):
        return (f"O as int, true, {x}.dt@, {x}.dt_max@, {x}.yield_memory as int, {x}.time@, {x}.end@, {x}.pv(), {x}.pd(), {x}.save_state@.len(), {x}.state@, {x}.implicit_derivs@")
    g.hint("begin", "let ghost s0 = *self; proof { lemma_hist_basic(" + A("s0") + "); if !(s0.time@ >= s0.end@ && (s0.yield_memory == 0 || s0.yield_memory == O)) { lemma_hist_use(" + A("s0") + "); } }")
    # -- yield a start-up point
    g.hint("before: return Ok(self.prev_values[get_item]", "proof { lemma_hist_yield(O as int, true, s0.dt@, s0.dt_max@, s0.yield_memory as int, self.yield_memory as int, s0.time@, s0.end@, s0.pv(), s0.pd(), s0.save_state@.len(), s0.state@, s0.implicit_derivs@);  assert(entry_ok(s0.pv(), s0.pd(), get_item as int, s0.state@.len(), true)); }")
    # -- hand the first multistep point over
    g.hint("before: #1 return Ok((self.time.real(), self.state.clone()));", """proof {
            lemma_hist_handover(O as int, true, s0.dt@, s0.dt_max@, s0.time@, s0.end@, s0.pv(), s0.pd(), s0.save_state@.len(), s0.state@, s0.implicit_derivs@);
            assert(self.pv() =~= s0.pv().push((s0.time@, s0.state@)).drop_first());
            assert(self.pd() =~= s0.pd().push(s0.implicit_derivs@).drop_first());
        }""")
    # -- last step
    g.hint("before: self.runge_kutta(1)", "let ghost pre4 = *self;")
    g.hint("after: self.runge_kutta(1)", """proof {
            reveal_with_fuel(rk_t, 2); reveal_with_fuel(rk_y, 2);
            assert(pre4.rkt(1) == pre4.time@ + pre4.dt@);
            assert(pre4.rky(1) == pre4.rk4s(pre4.time@, pre4.state@, pre4.dt@));
            let pvn = pvv(self.prev_values);
            assert(pvn[pvn.len() - 1] == (pre4.rkt(1), pre4.rky(1)));
            lemma_hist_done(""" + A("self") + """);
        }""")
    # -- start-up
    # -- no room for a start-up: one RK4 step, yielded at once
    g.hint("before: #2 self.runge_kutta(1)", "let ghost pre6 = *self;")
    g.hint("before: #2 return Ok((self.time.real(), self.state.clone()));", """proof {
                reveal_with_fuel(rk_t, 2); reveal_with_fuel(rk_y, 2);
                assert(pre6.rkt(1) == pre6.time@ + pre6.dt@);
                assert(pre6.rky(1) == pre6.rk4s(pre6.time@, pre6.state@, pre6.dt@));
                lemma_hist_empty(""" + A("self") + """);
            }""")
    g.hint("before: self.runge_kutta(O - 1)", "let ghost pre5 = *self;")
    g.hint("before: #1 return Err(IVPStatus::Redo);", """proof {
                let pvn = pvv(self.prev_values); let pdn = pdv(self.prev_derivatives); let dim = self.state@.len();
                assert(pvv(pre5.prev_values).len() == 0 && pdv(pre5.prev_derivatives).len() == 0);
                assert forall|i: int| 0 <= i < pvn.len() - 1 implies #[trigger] spaced(pvn, i, self.dt@) by {
                    reveal_with_fuel(rk_t, 2); assert(pre5.rkt(i + 2) == pre5.rkt(i + 1) + pre5.dt@);
                }
                assert forall|i: int| 0 <= i < pvn.len() implies #[trigger] entry_ok(pvn, pdn, i, dim, true) by {
                    assert(pdn[i] == df_val(pvn[i].0, pre5.rky(i + 1)));
                    assert(pre5.rky(i + 1).len() == dim);
                }
                assert(pvn.len() == O - 1 && pdn.len() == O - 1);
                assert(self.dt@ > 0real && self.dt@ <= self.dt_max@);
                lemma_rk_t(pre5.time@, pre5.dt@, O - 1);
                let m = (O - 1) as real; let hh = pre5.dt@; let od = self.order@;
                assert(m == od - 1real);
                assert(self.time@ == pre5.time@ + m * hh);
                assert(m * hh + hh == hh * od) by(nonlinear_arith) requires m == od - 1real;
                assert(hh > 0real);
                assert(self.time@ + self.dt@ < self.end@);
                assert(self.save_state@.len() == dim);
                assert(pvn[pvn.len() - 1] == (self.time@, self.state@));
                lemma_hist_intro(""" + A("self") + """);
            }""")
    # -- predictor-corrector trial
    PRE = ["pre.inv() && pre.frame(&s0) && s0.inv() && (pre.yield_memory == 0 || pre.yield_memory == O) && pre.pv().len() == O - 1 && pre.pd().len() == O - 1 && pre.time@ + pre.dt@ < pre.end@",
           "forall|k: int| 0 <= k < O - 1 ==> #[trigger] entry_ok(pre.pv(), pre.pd(), k, pre.state@.len(), true)",
           "self.frame(&pre)", "self.scratch_pad@.len() == self.state@.len()"]
    g.hint("before: self.scratch_pad = &self.prev_derivatives[0]", """let ghost pre = *self;
        proof {
            assert(entry_ok(pre.pv(), pre.pd(), 0, pre.state@.len(), true));
            assert(pre.psum(1) == vscale(pre.pd()[0], pre.predictor_coefficients@[O - 2]@));
        }""")
    g.loop(1, invariant=PRE + ["1 <= i <= O - 1", "self.scratch_pad@ == pre.psum(i as int)", "self.implicit_derivs == pre.implicit_derivs"])
    g.hint("loop 1 begin", "proof { assert(entry_ok(pre.pv(), pre.pd(), i as int, pre.state@.len(), true)); }")
    g.hint("after: let predictor =", "proof { assert(predictor@ == pre.predictor()); }")
    g.hint("before: self.scratch_pad = &self.implicit_derivs", "proof { assert(self.implicit_derivs@ == pre.imp()); assert(df_ok(pre.time@ + pre.dt@, pre.predictor())); }")
    g.loop(2, invariant=PRE + ["0 <= i <= O - 1", "self.scratch_pad@ == pre.csum(i as int)", "self.implicit_derivs@ == pre.imp() && self.implicit_derivs@.len() == self.state@.len()",
                               "predictor@ == pre.predictor() && predictor@.len() == self.state@.len()", "df_ok(pre.time@ + pre.dt@, pre.predictor())"])
    g.hint("loop 2 begin", "proof { assert(entry_ok(pre.pv(), pre.pd(), i as int, pre.state@.len(), true)); }")
    g.hint("after: let error =", """proof {
            assert(corrector@ == pre.corrector()); assert(error@ == pre.err());
            let n = vnorm(vsub(pre.corrector(), pre.predictor())); let ec = pre.error_coefficient@; let d = pre.dt@;
            axiom_vnorm_nonneg(vsub(pre.corrector(), pre.predictor()));
            assert(ec / d * n >= 0real) by(nonlinear_arith) requires ec > 0real, d > 0real, n >= 0real;
            assert(deriv_at(self.implicit_derivs@, pre.time@ + pre.dt@));
        }""")
    # accepted right after start-up: kept aside
    g.hint("before: #2 return Err(IVPStatus::Redo);", "proof { lemma_hist_aside(O as int, true, pre.dt@, pre.dt_max@, pre.time@, pre.end@, pre.pv(), pre.pd(), pre.save_state@.len(), pre.state@, pre.implicit_derivs@, self.time@, self.state@, self.implicit_derivs@); }")
    # accepted: enters the history
    g.hint("before: if error < self.one_tenth.real() * self.tolerance.real()", """proof {
                lemma_hist_shift(O as int, true, pre.dt@, pre.dt_max@, pre.time@, pre.end@, pre.pv(), pre.pd(), pre.save_state@.len(), pre.state@, pre.implicit_derivs@, self.time@, self.state@, self.implicit_derivs@);
                assert(self.pv() =~= pre.pv().push((self.time@, self.state@)).drop_first());
                assert(self.pd() =~= pre.pd().push(self.implicit_derivs@).drop_first());
            }""")
    g.hint("before: #2 self.prev_values.clear();", """proof {
                    let d = pre.dt@; let qq = q@; let e = error@; let tl = self.tolerance@;
                    if e != 0real {
                        assert(tl / (2real * e) > 0real) by(nonlinear_arith) requires tl > 0real, e > 0real;
                        assert(d * 4real > 0real && (qq > 0real ==> d * qq > 0real)) by(nonlinear_arith) requires d > 0real;
                    }
                }""")
    g.hint("before: #3 return Ok((self.time.real(), self.state.clone()));", """proof {
                if self.pv().len() == 0 && error@ != 0real { lemma_hist_empty(""" + A("self") + """); }
            }""")
    # rejected
    g.hint("before: if self.dt.real() < self.dt_min.real()", """proof {
            let d = pre.dt@; let qq = q@; let e = error@; let tl = self.tolerance@; let b = self.order@ - 1real; let od = self.order@;
            assert(0real < tl / (2real * e) < 1real) by(nonlinear_arith) requires tl > 0real, e > tl;
            assert(1real / od > 0real) by(nonlinear_arith) requires od >= 3real;
            assert(0real < d * (1real / 10real) < d && (1real / 10real <= qq < 1real ==> 0real < d * qq < d)) by(nonlinear_arith) requires d > 0real;
            assert(d * b >= 0real) by(nonlinear_arith) requires d > 0real, b >= 2real;
        }""")
    g.hint("before: #3 Err(IVPStatus::Redo)", "proof { lemma_hist_empty(" + A("self") + "); }")
    adams_solve(u, "Adams", "AdamsSolver", AD, G)
    return u, f



BD = "src/ivp/bdf.rs"
# Backward differentiation formulas, normalised so that the new value has coefficient 1:
#   y_{n+1} + a_1 y_n + ... + a_k y_{n+1-k} = b h f(t_{n+1}, y_{n+1})
# Hairer, Norsett, Wanner, Solving ODEs I, III.1 (1.22'); Burden & Faires section 5.11.  Index 0 is b, index j >= 1 is a_j.
BDF_REF = r"""
pub open spec fn bdf1(i: int) -> real { if i == 0 { 1real } else if i == 1 { -1real } else { 0real } }
pub open spec fn bdf2(i: int) -> real { if i == 0 { 2real / 3real } else if i == 1 { -(4real / 3real) } else if i == 2 { 1real / 3real } else { 0real } }
pub open spec fn bdf5(i: int) -> real { if i == 0 { 60real / 137real } else if i == 1 { -(300real / 137real) } else if i == 2 { 300real / 137real } else if i == 3 { -(200real / 137real) }
    else if i == 4 { 75real / 137real } else if i == 5 { -(12real / 137real) } else { 0real } }
pub open spec fn bdf6(i: int) -> real { if i == 0 { 60real / 147real } else if i == 1 { -(360real / 147real) } else if i == 2 { 450real / 147real } else if i == 3 { -(400real / 147real) }
    else if i == 4 { 225real / 147real } else if i == 5 { -(72real / 147real) } else if i == 6 { 10real / 147real } else { 0real } }
// consistency of the transcription: exact for constants (1 + sum a_j = 0) and for y = t (-sum j a_j = b)
pub proof fn lemma_bdf_reference_consistent()
    ensures 1real + bdf1(1) == 0real, -(bdf1(1)) == bdf1(0),
        1real + bdf2(1) + bdf2(2) == 0real, -(bdf2(1) + 2real * bdf2(2)) == bdf2(0),
        1real + bdf5(1) + bdf5(2) + bdf5(3) + bdf5(4) + bdf5(5) == 0real, -(bdf5(1) + 2real * bdf5(2) + 3real * bdf5(3) + 4real * bdf5(4) + 5real * bdf5(5)) == bdf5(0),
        1real + bdf6(1) + bdf6(2) + bdf6(3) + bdf6(4) + bdf6(5) + bdf6(6) == 0real,
        -(bdf6(1) + 2real * bdf6(2) + 3real * bdf6(3) + 4real * bdf6(4) + 5real * bdf6(5) + 6real * bdf6(6)) == bdf6(0),
{}
"""


def bdf_tableau_unit(name, st, order, hi, lo):
    c = Config(extra_subst=[(f"BSVector<Self::RealField, {order}>", "Vec<R>"), ("BSVector::from_column_slice", "vx_vec_from_slice"), ("Self::RealField", "R")])
    u = Unit("C03", name, preludes=("real", "stdx", "rkm"), cfg=c)
    u.spec(BDF_REF)
    u.spec(f"pub struct {st};")
    im = u.impl(BD, f"BDFCoefficients<{order}> for {st}<N>", header=f"impl {st}", keep_assoc=False)
    f = im.fn("higher_coefficients")
    f.ens(f"res is Some && res->Some_0@.len() == {order} && forall|i: int| 0 <= i < {order} ==> #[trigger] res->Some_0@[i]@ == {hi}(i)")
    f = im.fn("lower_coefficients")
    f.ens(f"res is Some && res->Some_0@.len() == {order} && forall|i: int| 0 <= i < {order} ==> #[trigger] res->Some_0@[i]@ == {lo}(i)")
    return u



BDF_SPEC = r"""
// the function whose zero the quasi-Newton solver looks for (the residual closure), as a pure function of (t, y)
pub uninterp spec fn GV(t: real, y: Seq<real>) -> Seq<real>;
"""


def bdf_solver_unit(prop="C03"):
    c = cfg(extra=[("BDFSolver<'a, N, D, O, T, F>", "BDFSolver<D, O, T, F>"), ("BSVector<N, O>", "Vec<R>"), ("BMatrix<N, D, D>", "DMx"),
                   ("BMatrix::from_element_generic(self.dim, self.dim, N::zero())", "DMx::zeros(self.dim, self.dim)"),
                   ("Step<Self::RealField, Self::Field, D, Self::Error>", "Result<(R, V), IVPStatus<IVPError>>"),
                   # the builder (solve() only)
                   ("BDF<'a, N, D, O, T, F, B>", "BDF<D, O, T, F, B>"), ("PhantomData<&'a (T, B)>", "PhantomData<(T, B)>"),
                   ("IVPIterator<D, Self::Solver>", "IVPIterator<BDFSolver<D, O, T, F>>")])
    c.drop_where += ["B"]
    c.drop_pred = ["D:DimMin<D,Output=D>"]
    c.extra = list(c.extra) + [("G: FnMut(&mut Self, N::RealField, &[N], &mut T) -> Result<BVector<N, D>, UserError>",
                                "G: FnMut(&mut Self, R, &[R], &mut T) -> Result<V, UserError>", "R1-type-instantiation")]
    u = Unit(prop, "bdf_solver", preludes=("real", "stdx", "ivp", "rkm", "deque", "dmx"), cfg=c)
    u.crate_attrs = ["#![feature(allocator_api)]"]
    u.rlimit = 100
    u.timeout = 600
    u.spec("use std::collections::VecDeque;")
    u.item("src/lib.rs", "enum", "DimensionError")
    u.item("src/ivp.rs", "enum", "IVPError")
    u.item("src/ivp.rs", "enum", "IVPStatus")
    u.item(BD, "struct", "BDFSolver")
    u.spec(CALLBACK_SPEC)
    u.spec(ADAMS_SPEC)
    u.spec(HIST_SPEC)
    u.spec(TRACE_SPEC)
    u.spec(MSTEP_SPEC)
    u.spec(BDF_SPEC)
    G = "<D: Dimension, const O: usize, T: Clone, F: FnMut(R, &[R], &mut T) -> Result<V, UserError>>"
    u.spec("impl" + G + r""" BDFSolver<D, O, T, F> {
    pub open spec fn setup_ok(&self) -> bool {
        &&& 3 <= O <= 64 && self.higher_coefficients@.len() == O && self.lower_coefficients@.len() == O
        &&& self.one_tenth@ == 1real / 10real && self.one_sixth@ == 1real / 6real && self.half@ == 1real / 2real && self.two@ == 2real
        &&& self.order@ == O as real && self.dt_max@ > 0real && self.tolerance@ > 0real && self.state@.len() == self.dim.size()
        &&& (forall|t: R, y: &[R], d: &mut T| #[trigger] self.derivative.requires((t, y, d)))
        &&& (forall|t: R, y: &[R], d: &mut T, r: Result<V, UserError>| #[trigger] self.derivative.ensures((t, y, d), r) ==>
              (df_ok(t@, slice_view(y)) ==> r is Ok && r->Ok_0@ == df_val(t@, slice_view(y)) && r->Ok_0@.len() == y@.len())
              && (!df_ok(t@, slice_view(y)) ==> r is Err && r->Err_0 == df_err(t@, slice_view(y))))
    }
    pub open spec fn same_setup(&self, o: &Self) -> bool {
        self.higher_coefficients == o.higher_coefficients && self.lower_coefficients == o.lower_coefficients && self.dim == o.dim
        && self.end == o.end && self.dt_max == o.dt_max && self.dt_min == o.dt_min && self.tolerance == o.tolerance && self.derivative == o.derivative
        && self.one_tenth == o.one_tenth && self.one_sixth == o.one_sixth && self.half == o.half && self.two == o.two && self.order == o.order
    }
    // every field but scratch_pad
    pub open spec fn frame(&self, o: &Self) -> bool {
        self.same_setup(o) && self.time == o.time && self.state == o.state && self.dt == o.dt && self.data == o.data && self.prev_values == o.prev_values
        && self.save_state == o.save_state && self.yield_memory == o.yield_memory
    }
    pub open spec fn rk4s(&self, t: real, y: Seq<real>, h: real) -> Seq<real> { rk4(t, y, h, self.half@, self.two@, self.one_sixth@) }
    pub open spec fn rky(&self, n: int) -> Seq<real> { rk_y(self.time@, self.state@, self.dt@, n, self.half@, self.two@, self.one_sixth@) }
    pub open spec fn rkt(&self, n: int) -> real { rk_t(self.time@, self.dt@, n) }
    pub open spec fn pv(&self) -> Seq<(real, Seq<real>)> { pvv(self.prev_values) }
    // BDF keeps values only: the "derivative history" slot of the shared invariant is filled with the stored states
    pub open spec fn pdb(&self) -> Seq<Seq<real>> { Seq::new(self.pv().len(), |i: int| self.pv()[i].1) }
    // O stored points, sentinels O + 1 / O + 2: the shared history invariant at o = O + 1
    pub open spec fn hist_ok(&self) -> bool {
        hist(O as int + 1, false, self.dt@, self.dt_max@, self.yield_memory as int, self.time@, self.end@, self.pv(), self.pdb(), self.save_state@.len(), self.state@, self.state@)
    }
    pub open spec fn inv(&self) -> bool { self.setup_ok() && self.hist_ok() && self.time@ <= self.end@ }
    // ---- the BDF residual with coefficient row c (c[0] = b, c[j] = a_j):  y - b h f(t, y) + sum_{j=1}^{O-1} a_j y_{n+1-j},
    //      y_{n+1-j} being the stored point prev_values[O - j] (prev_values[O - 1] is the current point)
    pub open spec fn bres(&self, c: Seq<real>, t: real, y: Seq<real>, n: int) -> Seq<real> decreases n {
        if n <= 1 { vscale(vscale(vneg(df_val(t, y)), self.dt@), c[0]) }
        else { vadd(self.bres(c, t, y, n - 1), vscale(self.pv()[O - (n - 1)].1, c[n - 1])) }
    }
    pub open spec fn residual(&self, c: Seq<real>, t: real, y: Seq<real>) -> Seq<real> { vadd(self.bres(c, t, y, O as int), y) }
    // this call tries a multistep step
    pub open spec fn multistep_trial(&self) -> bool {
        (self.yield_memory == 0 || self.yield_memory == O + 1) && self.time@ + self.dt@ < self.end@ && self.pv().len() > 0
    }
    // the residual closures can run: coefficients and a complete history of the state's dimension (all in fields that g leaves alone)
    pub open spec fn res_ok(&self) -> bool {
        self.setup_ok() && self.pv().len() == O && forall|i: int| 0 <= i < O ==> (#[trigger] self.pv()[i]).1.len() == self.state@.len()
    }
}
// what the quasi-Newton routines assume of the function g they are handed: it is called at the NEW time only, on a solver
// whose history is complete and on an argument of the state's dimension; it leaves every field of the solver but scratch_pad alone
pub open spec fn g_req<D: Dimension, const O: usize, T: Clone, F: FnMut(R, &[R], &mut T) -> Result<V, UserError>>(s: &mut BDFSolver<D, O, T, F>, t: R, y: &[R]) -> bool {
    t@ == (*s).time@ + (*s).dt@ && (*s).res_ok() && y@.len() == (*s).state@.len()
}
#[verifier::prophetic]
pub open spec fn g_ens<D: Dimension, const O: usize, T: Clone, F: FnMut(R, &[R], &mut T) -> Result<V, UserError>>(s: &mut BDFSolver<D, O, T, F>, t: R, y: &[R], r: Result<V, UserError>) -> bool {
    final(s).frame(&*s) && (r is Ok ==> r->Ok_0@.len() == y@.len())
}
// g computes the pure function gf of (t, y)
pub open spec fn computes<D: Dimension, const O: usize, T: Clone, F: FnMut(R, &[R], &mut T) -> Result<V, UserError>, G: FnMut(&mut BDFSolver<D, O, T, F>, R, &[R], &mut T) -> Result<V, UserError>>(
    g: G, gf: spec_fn(real, Seq<real>) -> Seq<real>) -> bool {
    forall|s: &mut BDFSolver<D, O, T, F>, t: R, y: &[R], d: &mut T, r: Result<V, UserError>| #[trigger] g.ensures((s, t, y, d), r) && r is Ok ==> r->Ok_0@ == gf(t@, slice_view(y))
}
// the matrix m holds the central differences of gf at (tt, x) with width h
pub open spec fn fd_of(m: int, gf: spec_fn(real, Seq<real>) -> Seq<real>, tt: real, x: Seq<real>, h: real, rows: int, cols: int) -> bool {
    forall|r: int, c: int| #![trigger dentry(m, r, c)] 0 <= r < rows && 0 <= c < cols ==>
        dentry(m, r, c) == (gf(tt, x.update(c, x[c] + h))[r] - gf(tt, x.update(c, x[c] - h))[r]) * (1real / (2real * h))
}
""")
    GT = "FnMut(&mut Self, R, &[R], &mut T) -> Result<V, UserError>"
    im = u.impl(BD, "BDFSolver<'a, N, D, O, T, F>", header="impl" + G + " BDFSolver<D, O, T, F>", keep_assoc=False)
    j = im.fn("jac_finite_diff")
    j.attrs = []
    j.opt(index_vector=("x",), bind_self_args=("g",), subst=[("mat.column_iter_mut()", "0..mat.ncols()", "R26-column-iter-mut"),
                                                              ("col.set_column(0,", "mat.set_column(ind,", "R26-column-iter-mut")])
    j.req("old(self).res_ok()", "old(x)@.len() == old(self).dim.size()", "old(self).dt@ != 0real",
          "forall|s: &mut Self, t: R, y: &[R], d: &mut T| g_req(s, t, y) ==> #[trigger] (*old(g)).requires((s, t, y, d))",
          "forall|s: &mut Self, t: R, y: &[R], d: &mut T, r: Result<V, UserError>| #[trigger] (*old(g)).ensures((s, t, y, d), r) ==> g_ens(s, t, y, r)")
    j.ens("final(self).frame(old(self))",
          "forall|s: &mut Self, t: R, y: &[R], d: &mut T| g_req(s, t, y) ==> #[trigger] (*final(g)).requires((s, t, y, d))",
          "forall|s: &mut Self, t: R, y: &[R], d: &mut T, r: Result<V, UserError>| #[trigger] (*final(g)).ensures((s, t, y, d), r) ==> g_ens(s, t, y, r) && (*old(g)).ensures((s, t, y, d), r)",
          "res is Ok ==> final(x)@ == old(x)@",
          # for EVERY pure function gf that g computes: the result holds the central DIFFERENCES of gf at the new time, width dt
          "res is Ok ==> forall|gf: spec_fn(real, Seq<real>) -> Seq<real>| #[trigger] computes(*old(g), gf) ==> "
          "fd_of(res->Ok_0.id@, gf, old(self).time@ + old(self).dt@, old(x)@, old(self).dt@, old(self).dim.size() as int, old(self).dim.size() as int)")
    f = im.fn("runge_kutta")
    f.attrs = []
    f.req("old(self).setup_ok()", "iterations >= 1")
    f.ens("final(self).same_setup(old(self)) && final(self).dt == old(self).dt && final(self).yield_memory == old(self).yield_memory && final(self).save_state == old(self).save_state",
          "final(self).state@.len() == old(self).state@.len()",
          "res is Ok ==> final(self).time@ == old(self).rkt(iterations as int) && final(self).state@ == old(self).rky(iterations as int)",
          "res is Ok ==> pvv(final(self).prev_values) == pvv(old(self).prev_values) + Seq::new(iterations as nat, |j: int| (old(self).rkt(j + 1), old(self).rky(j + 1)))",
          "res is Ok ==> forall|j: int| 0 <= j <= iterations ==> (#[trigger] old(self).rky(j)).len() == old(self).state@.len()")
    f.loop(1, invariant=[
        "forall|j: int| 0 <= j <= i ==> (#[trigger] old(self).rky(j)).len() == old(self).state@.len()",
        "self.setup_ok()", "self.same_setup(old(self)) && self.dt == old(self).dt && self.yield_memory == old(self).yield_memory && self.save_state == old(self).save_state",
        "self.state@.len() == old(self).state@.len()", "iterations >= 1",
        "self.time@ == old(self).rkt(i as int) && self.state@ == old(self).rky(i as int)",
        "pvv(self.prev_values) == pvv(old(self).prev_values) + Seq::new(if i >= 1 { (i - 1) as nat } else { 0nat }, |j: int| (old(self).rkt(j + 1), old(self).rky(j + 1)))"])
    f.hint("loop 1 begin", "let ghost pv0 = pvv(self.prev_values); let ghost t_i = self.time@; let ghost y_i = self.state@;")
    f.hint("before: self.state +=", """proof {
                if i != 0 {
                    assert(pvv(self.prev_values) =~= pv0.push((t_i, y_i)));
                    assert(pvv(self.prev_values) =~= pvv(old(self).prev_values) + Seq::new(i as nat, |j: int| (old(self).rkt(j + 1), old(self).rky(j + 1))));
                }
            }""")
    f.hint("loop 1 end", """proof {
                assert(self.state@ == old(self).rk4s(t_i, y_i, self.dt@));
                assert(old(self).rky(i as int + 1) == old(self).rk4s(old(self).rkt(i as int), old(self).rky(i as int), old(self).dt@));
                assert(old(self).rkt(i as int + 1) == old(self).rkt(i as int) + old(self).dt@);
            }""")
    f.hint("after loop 1", "let ghost pv1 = pvv(self.prev_values); let ghost nn = iterations as int;")
    f.hint("before: Ok(())", """proof {
            assert(pvv(self.prev_values) =~= pv1.push((self.time@, self.state@)));
            assert(pvv(self.prev_values) =~= pvv(old(self).prev_values) + Seq::new(nn as nat, |j: int| (old(self).rkt(j + 1), old(self).rky(j + 1))));
        }""")
    GSPEC = ["forall|s: &mut Self, t: R, y: &[R], d: &mut T| g_req(s, t, y) ==> #[trigger] (*g).requires((s, t, y, d))",
             "forall|s: &mut Self, t: R, y: &[R], d: &mut T, r: Result<V, UserError>| #[trigger] (*g).ensures((s, t, y, d), r) ==> g_ens(s, t, y, r) && (*old(g)).ensures((s, t, y, d), r)"]
    j.loop(1, iter="it", invariant=GSPEC + [
        "it.iter.end == self.dim.size()",
        "self.frame(old(self)) && self.res_ok() && self.dt@ != 0real", "x@ == old(x)@ && x@.len() == self.dim.size()", "ind == col",
        "dncols(mat.id@) == self.dim.size()", "denom@ == 1real / (2real * self.dt@)",
        "forall|gf: spec_fn(real, Seq<real>) -> Seq<real>| #[trigger] computes(*old(g), gf) ==> fd_of(mat.id@, gf, self.time@ + self.dt@, old(x)@, self.dt@, self.dim.size() as int, ind as int)"])
    j.hint("loop 1 begin", "let ghost x0 = x@; let ghost cv = ind as int; let ghost m0 = mat.id@;")
    j.hint("after: let above =", "proof { assert(x@ =~= x0.update(cv, x0[cv] + self.dt@)); }")
    j.hint("after: let below =", "proof { assert(x@ =~= x0.update(cv, x0[cv] - self.dt@)); }")
    j.hint("before: col.set_column", "proof { assert(x@ =~= x0); }")
    sc = im.fn("secant")
    sc.attrs = []
    sc.opt(bind_self_args=("g",), add_assign=("guess", "jac_inv"),
           subst=[("(-&s_transpose * &adjustment)[(0, 0)]", "s_transpose.vx_neg_mul_ref(&adjustment).vx_at((0, 0))", "R29-ref-operator-as-call+R22-index-read"),
                  ("-&jac_inv * &derivative", "jac_inv.vx_neg_mul_ref(&derivative)", "R29-ref-operator-as-call"),
                  ("s_transpose * &jac_inv", "s_transpose.vx_mul_ref(&jac_inv)", "R29-ref-operator-as-call"),
                  ("-&jac_inv * difference", "jac_inv.vx_neg_mul(difference)", "R29-ref-operator-as-call"),
                  ("&derivative - &derivative_last", "derivative.vx_sub_ref(&derivative_last)", "R29-ref-operator-as-call")])
    sc.req("old(self).res_ok()", "old(self).dt@ != 0real",
           "forall|s: &mut Self, t: R, y: &[R], d: &mut T| g_req(s, t, y) ==> #[trigger] (*old(g)).requires((s, t, y, d))",
           "forall|s: &mut Self, t: R, y: &[R], d: &mut T, r: Result<V, UserError>| #[trigger] (*old(g)).ensures((s, t, y, d), r) ==> g_ens(s, t, y, r)")
    # the function handed in is only ever evaluated at the NEW time (precondition g_req of every call), the solver is left as it was
    sc.ens("final(self).frame(old(self))", "res is Ok ==> res->Ok_0@.len() == old(self).state@.len()")
    sc.hint("before: let jac =", "proof { assert(forall|s: &mut Self, t: R, y: &[R], d: &mut T, r: Result<V, UserError>| #[trigger] (*g).ensures((s, t, y, d), r) ==> (*old(g)).ensures((s, t, y, d), r)); }")
    sc.loop(1, invariant=GSPEC + ["self.frame(old(self)) && self.res_ok() && self.dt@ != 0real", "n <= 1000",
                                  "guess@.len() == self.state@.len() && derivative@.len() == self.state@.len() && shift@.len() == self.state@.len()"],
            decreases="1000 - n")
    im2 = u.impl(BD, "IVPStepper<D> for BDFSolver<'a, N, D, O, T, F>", header="impl" + G + " BDFSolver<D, O, T, F>", keep_assoc=False)
    st = im2.fn("step")
    st.attrs = []
    st.opt(bind_self_args=("g",),
           subst=[("self.prev_values[get_item].clone()", "(self.prev_values[get_item].0.clone(), self.prev_values[get_item].1.clone())", "R28-tuple-clone"),
                  ("&higher_step - &lower_step", "higher_step.vx_sub_ref(&lower_step)", "R29-ref-operator-as-call"),
                  (".column(0).iter()", ".iter()", "R26-column-of-a-column-vector"),
                  ("BVector::from_column_slice_generic(bdf.dim, U1::name(), y)", "V::vx_from_slice(bdf.dim, y)", "R13-vector-from-slice"),
                  ("self.runge_kutta(1)?", "(match self.runge_kutta(1) { Ok(v_) => v_, Err(e_) => return Err(From::from(e_)) })", "R16-question-mark-convert"),
                  ("self.runge_kutta(O)?", "(match self.runge_kutta(O) { Ok(v_) => v_, Err(e_) => return Err(From::from(e_)) })", "R16-question-mark-convert"),
                  ("self.secant(&mut higher_func)?", "(match self.secant(&mut higher_func) { Ok(v_) => v_, Err(e_) => return Err(From::from(e_)) })", "R16-question-mark-convert"),
                  ("self.secant(&mut lower_func)?", "(match self.secant(&mut lower_func) { Ok(v_) => v_, Err(e_) => return Err(From::from(e_)) })", "R16-question-mark-convert")])
    st.req("old(self).inv()")
    def AB(x):
        return (f"O as int + 1, false, {x}.dt@, {x}.dt_max@, {x}.yield_memory as int, {x}.time@, {x}.end@, {x}.pv(), {x}.pdb(), {x}.save_state@.len(), {x}.state@, {x}.state@")
    st.ens("!(res is Err && res->Err_0 is Failure) ==> final(self).inv()", "final(self).same_setup(old(self))",
           # -- yielding a start-up point
           "0 < old(self).yield_memory <= O ==> res is Ok && (res->Ok_0.0@, res->Ok_0.1@) == old(self).pv()[O - old(self).yield_memory] "
           "&& final(self).time == old(self).time && final(self).state == old(self).state && final(self).dt == old(self).dt",
           # -- handing over the first multistep point
           "old(self).yield_memory == O + 2 ==> res is Ok && res->Ok_0.0@ == old(self).time@ && res->Ok_0.1@ == old(self).state@ && final(self).yield_memory == 0 "
           "&& final(self).time == old(self).time && final(self).state == old(self).state && final(self).dt == old(self).dt",
           "(old(self).yield_memory == 0 || old(self).yield_memory == O + 1) && old(self).time@ >= old(self).end@ ==> res is Err && res->Err_0 is Done",
           # -- the last step is one classical RK4 step that lands exactly on the end time
           "(old(self).yield_memory == 0 || old(self).yield_memory == O + 1) && old(self).time@ < old(self).end@ && old(self).time@ + old(self).dt@ >= old(self).end@ && res is Ok ==> "
           "res->Ok_0.0@ == old(self).end@ && final(self).time@ == old(self).end@ && res->Ok_0.1@ == old(self).rk4s(old(self).time@, old(self).state@, old(self).end@ - old(self).time@)",
           # -- no room for a start-up: one RK4 step
           "old(self).yield_memory != O + 2 && !(0 < old(self).yield_memory <= O) && old(self).time@ + old(self).dt@ < old(self).end@ && old(self).pv().len() == 0 "
           "&& old(self).time@ + old(self).dt@ * (old(self).order@ + 1real) >= old(self).end@ && res is Ok ==> res->Ok_0.0@ == old(self).time@ + old(self).dt@ "
           "&& res->Ok_0.1@ == old(self).rk4s(old(self).time@, old(self).state@, old(self).dt@) && final(self).time@ == res->Ok_0.0@ && final(self).state@ == res->Ok_0.1@",
           # -- an accepted multistep point advances the clock by dt (its value is what the quasi-Newton solver returned for the
           #    order-(O-1) BDF residual at the new time: closure contracts below; that the residual is small is NOT decided)
           "old(self).multistep_trial() && res is Ok ==> res->Ok_0.0@ == old(self).time@ + old(self).dt@ && final(self).time@ == res->Ok_0.0@ && final(self).state@ == res->Ok_0.1@",
           # -- a rejected trial right after the start-up rewinds the clock over the O start-up steps and restores the saved state
           "old(self).multistep_trial() && old(self).yield_memory == O + 1 && res is Err && res->Err_0 is Redo && final(self).yield_memory == O + 1 ==> "
           "final(self).time@ == old(self).time@ - old(self).dt@ * old(self).order@ && final(self).state@ == old(self).save_state@",
           # C01
           "res is Err && res->Err_0 is Done ==> !(old(self).yield_memory == O + 1 && old(self).pv().len() == O)",
           "(old(self).yield_memory == 0 || old(self).yield_memory == O + 1) && old(self).time@ < old(self).end@ && old(self).time@ + old(self).dt@ >= old(self).end@ "
           "==> !(old(self).yield_memory == O + 1 && old(self).pv().len() == O)",
           "(old(self).yield_memory == 0 || old(self).yield_memory == O + 1) && res is Ok ==> old(self).time@ < res->Ok_0.0@ <= old(self).end@ && res->Ok_0.0@ - old(self).time@ <= old(self).dt_max@",
           # C01, all regimes: the transition summary that lemma_mclock (yield clock, specs/ivpcommon.py) is stated over; o = O + 1
           "res is Ok ==> res->Ok_0.1@.len() == old(self).state@.len() && final(self).state@.len() == old(self).state@.len()",
           "mtrans(O as int + 1, old(self).dt@, old(self).yield_memory as int, old(self).time@, old(self).end@, old(self).pv(), "
           "final(self).dt@, final(self).yield_memory as int, final(self).time@, final(self).pv(), res)")
    st.hint("begin", "let ghost s0 = *self; proof { lemma_hist_basic(" + AB("s0") + "); if !(s0.time@ >= s0.end@ && (s0.yield_memory == 0 || s0.yield_memory == O + 1)) { lemma_hist_use(" + AB("s0") + "); } }")
    st.hint("before: return Ok(self.prev_values[get_item]", "proof { lemma_hist_yield(O as int + 1, false, s0.dt@, s0.dt_max@, s0.yield_memory as int, self.yield_memory as int, s0.time@, s0.end@, s0.pv(), s0.pdb(), s0.save_state@.len(), s0.state@, s0.state@);  assert(entry_ok(s0.pv(), s0.pdb(), get_item as int, s0.state@.len(), false)); }")
    st.hint("before: #1 return Ok((self.time.real(), self.state.clone()));", """proof {
            lemma_hist_handover(O as int + 1, false, s0.dt@, s0.dt_max@, s0.time@, s0.end@, s0.pv(), s0.pdb(), s0.save_state@.len(), s0.state@, s0.state@);
            assert(self.pv() =~= s0.pv().push((s0.time@, s0.state@)).drop_first());
            assert(self.pdb() =~= s0.pdb().push(s0.state@).drop_first());
        }""")
    st.hint("before: self.runge_kutta(1)", "let ghost pre4 = *self;")
    st.hint("after: self.runge_kutta(1)", """proof {
            reveal_with_fuel(rk_t, 2); reveal_with_fuel(rk_y, 2);
            assert(pre4.rkt(1) == pre4.time@ + pre4.dt@);
            assert(pre4.rky(1) == pre4.rk4s(pre4.time@, pre4.state@, pre4.dt@));
            let pvn = pvv(self.prev_values);
            assert(pvn[pvn.len() - 1] == (pre4.rkt(1), pre4.rky(1)));
            lemma_hist_done(""" + AB("self") + """);
        }""")
    # -- no room for a start-up: one RK4 step, yielded at once
    st.hint("before: #2 self.runge_kutta(1)", "let ghost pre6 = *self;")
    st.hint("before: #2 return Ok((self.time.real(), self.state.clone()));", """proof {
                reveal_with_fuel(rk_t, 2); reveal_with_fuel(rk_y, 2);
                assert(pre6.rkt(1) == pre6.time@ + pre6.dt@);
                assert(pre6.rky(1) == pre6.rk4s(pre6.time@, pre6.state@, pre6.dt@));
                lemma_hist_empty(""" + AB("self") + """);
            }""")
    # -- start-up: O RK4 steps
    st.hint("before: self.runge_kutta(O)", "let ghost pre5 = *self;")
    st.hint("before: #1 return Err(IVPStatus::Redo);", """proof {
                let pvn = pvv(self.prev_values); let pdn = self.pdb(); let dim = self.state@.len();
                assert(pvv(pre5.prev_values).len() == 0);
                assert forall|i: int| 0 <= i < pvn.len() - 1 implies #[trigger] spaced(pvn, i, self.dt@) by {
                    reveal_with_fuel(rk_t, 2); assert(pre5.rkt(i + 2) == pre5.rkt(i + 1) + pre5.dt@);
                }
                assert forall|i: int| 0 <= i < pvn.len() implies #[trigger] entry_ok(pvn, pdn, i, dim, false) by {
                    assert(pre5.rky(i + 1).len() == dim);
                }
                assert(pvn.len() == O && pdn.len() == O);
                lemma_rk_t(pre5.time@, pre5.dt@, O as int);
                let m = O as real; let hh = pre5.dt@; let od = self.order@;
                assert(self.time@ == pre5.time@ + m * hh);
                assert(m * hh + hh == hh * (od + 1real)) by(nonlinear_arith) requires m == od;
                assert(self.time@ + self.dt@ < self.end@);
                assert(pvn[pvn.len() - 1] == (self.time@, self.state@));
                lemma_hist_intro(""" + AB("self") + """);
            }""")
    # -- the two residual closures: the BDF residual of order O-1 (higher) and O-2 (lower) with the solver's own coefficient rows
    def closure_spec(n, row):
        st.closure(n, ret="r_: Result<V, UserError>",
                   requires=["t@ == old(bdf).time@ + old(bdf).dt@", "old(bdf).res_ok()", "y@.len() == old(bdf).state@.len()"],
                   ensures=["final(bdf).frame(&*old(bdf))",
                            "r_ is Ok ==> r_->Ok_0@.len() == y@.len()",
                            f"r_ is Ok ==> r_->Ok_0@ == old(bdf).residual(vecr(old(bdf).{row}), t@, slice_view(y)) && df_ok(t@, slice_view(y))"])
    closure_spec(1, "higher_coefficients")
    closure_spec(2, "lower_coefficients")
    for n, row in ((1, "higher_coefficients"), (2, "lower_coefficients")):
        st.loop(n, iter=f"itc{n}", invariant=[
            f"ind == itc{n}.index@ + 1 && 1 <= ind <= O", f"forall|k: int| 0 <= k < itc{n}.history@.len() ==> *itc{n}.history@[k] == bdf.{row}@[k + 1]",
            "bdf.frame(&b0) && b0.res_ok() && y@.len() == b0.state@.len()",
            f"bdf.scratch_pad@ == b0.bres(vecr(b0.{row}), t@, slice_view(y), ind as int) && bdf.scratch_pad@.len() == b0.state@.len()"])
    for n in (1, 2):
        st.hint(f"loop {n} begin", "proof { assert(b0.pv()[O - ind].1 == bdf.prev_values@[O - ind].1@); assert(b0.pv()[O - ind].1.len() == b0.state@.len()); }")
    st.hint("before: let higher_step =", """let ghost pre = *self;
        proof {
            assert(pre.pv().len() == O);
            assert forall|i: int| 0 <= i < O implies (#[trigger] pre.pv()[i]).1.len() == pre.state@.len() by { assert(entry_ok(s0.pv(), s0.pdb(), i, s0.state@.len(), false)); }
            assert(pre.res_ok());
        }""")
    # accepted right after start-up: kept aside
    st.hint("before: #2 return Err(IVPStatus::Redo);", "proof { lemma_hist_aside(O as int + 1, false, pre.dt@, pre.dt_max@, pre.time@, pre.end@, pre.pv(), pre.pdb(), pre.save_state@.len(), pre.state@, pre.state@, self.time@, self.state@, self.state@); }")
    # accepted: enters the history
    st.hint("before: if error < self.one_tenth.real() * self.tolerance.real()", """proof {
                lemma_hist_shift(O as int + 1, false, pre.dt@, pre.dt_max@, pre.time@, pre.end@, pre.pv(), pre.pdb(), pre.save_state@.len(), pre.state@, pre.state@, self.time@, self.state@, self.state@);
                assert(self.pv() =~= pre.pv().push((self.time@, self.state@)).drop_first());
                assert(self.pdb() =~= pre.pdb().push(self.state@).drop_first());
            }""")
    st.hint("before: #3 return Ok((self.time.real(), self.state.clone()));", """proof {
                let d = pre.dt@;
                assert(d * 2real > 0real) by(nonlinear_arith) requires d > 0real;
                if self.pv().len() == 0 { lemma_hist_empty(""" + AB("self") + """); }
            }""")
    # rejected
    st.hint("before: if self.dt.real() < self.dt_min.real()", """proof {
            let d = pre.dt@; let od = self.order@;
            assert(0real < d * (1real / 2real) < d) by(nonlinear_arith) requires d > 0real;
            assert(d * od >= 0real) by(nonlinear_arith) requires d > 0real, od >= 3real;
        }""")
    st.hint("before: #3 Err(IVPStatus::Redo)", "proof { lemma_hist_empty(" + AB("self") + "); }")
    st.hint("before: #1 bdf.scratch_pad =", "let ghost b0 = *bdf;")
    st.hint("before: #2 bdf.scratch_pad =", "let ghost b0 = *bdf;")
    bdf_solve(u, "BDF", "BDFSolver", BD, G)
    return u, j


def units(ctx):
    u, f = rk_step_unit()
    ua, fa = adams_solver_unit()
    ub, fb = bdf_solver_unit()
    return [tableau_unit("rk45_tableau", "RKCoefficients45", 6, "f45"), tableau_unit("rk23_tableau", "RK23Coefficients", 4, "bs"), u,
            adams_tableau_unit("adams5_tableau", "AdamsCoefficients5", 5, "ab4", "am4"), adams_tableau_unit("adams3_tableau", "AdamsCoefficients3", 3, "ab2", "am2"), ua,
            bdf_tableau_unit("bdf6_tableau", "BDF6Coefficients", 7, "bdf6", "bdf5"), bdf_tableau_unit("bdf2_tableau", "BDF2Coefficients", 3, "bdf2", "bdf1"), ub]


DECIDED = [
    "Runge-Kutta tableaux (RKCoefficients45, RK23Coefficients): nodes, every entry of the stage matrix AS NALGEBRA STORES IT (row i, column j), weights and error weights equal the published "
    "Fehlberg 4(5) / Bogacki-Shampine 3(2) tables (error weights = difference of the two weight rows up to one common sign); the reference tables are guarded by consistency lemmas",
    "RungeKuttaSolver::step: an accepted point is exactly one explicit Runge-Kutta step of the observed length h from the previous point with the solver's tableau "
    "(stage i = h f(t + c_i h, y + sum_{j<i} a_ij K_j), new state = y + sum b_i K_i) and its embedded estimate |sum e_i K_i| / h is <= tolerance; a rejected trial commits nothing",
    "Adams coefficient tables = published Adams-Bashforth (k = O-1 steps) / Adams-Moulton weights; AdamsSolver::runge_kutta(n) = n classical RK4 steps, each new point and its derivative appended to the history",
    "AdamsSolver::step: the history invariant (equally spaced points, each stored derivative belongs to its point's time, lengths) is preserved by every branch; an accepted multistep point is "
    "y + h (c_0 f(t + h, P) + sum c_j d_j) with P = y + h sum p_j d_j over that history and error estimate <= tolerance; the point after the start-up enters the history together with its derivative; "
    "a rejected trial right after the start-up rewinds by (O-1) dt",
    "BDF coefficient tables = published BDF(O-1) and BDF(O-2) formulas (normalised); BDFSolver::runge_kutta = classical RK4 steps",
    "BDFSolver::step: the two residual closures compute y - b h f(t, y) + sum_j a_j y_(n+1-j) with the HIGHER resp. LOWER coefficient row and the stored points, leave every field but scratch_pad alone; "
    "secant and jac_finite_diff evaluate the function they are handed ONLY at the new time time + dt (precondition of every call) and leave the solver unchanged; "
    "jac_finite_diff returns, for every pure function the callback computes, its central DIFFERENCES of width dt; the history invariant (O equally spaced stored points, sentinels O+1/O+2) is preserved by every branch; "
    "a rejected trial right after the start-up rewinds the clock by order * dt and restores the saved state",
    "EulerSolver::step (C06 unit): y + dt f(t, y)",
    "RungeKutta::solve / Adams::solve / BDF::solve: the solver handed to the iterator carries the tables of the coefficient trait (whose implementations are the tableau units above) entry by entry, "
    "dt = (dt_min + dt_max)/2, the constants 1/2, 1/6, 1/10, 2, 4, order = O, an empty history and yield_memory 0, and satisfies the invariant the step() contracts require -- so the step contracts apply to "
    "every solver built with valid parameters, not only to solvers assumed well-formed",
]
NOT_DECIDED = [
    "BDF: that the accepted value solves the residual equation to within the tolerance -- secant() stops on the size of its last quasi-Newton update, not on the residual; the Broyden update operations carry no contract "
    "(what IS decided: which function is solved, at which time, with which coefficients)",
    "solve() of the three adaptive builders (nalgebra generic constructors): that the tableaux are copied unchanged into the solver is trusted",
    "Adams: the stored derivative of a multistep point is f(t, predictor) (PEC), stated as 'f evaluated at time t'; complex number types; rounding",
    "the step-size controllers (`eighty_four = from_u8(100)` in rk.rs makes the safety factor 1.0: policy, deliberately not part of this property)",
]
ASSUMPTIONS = [
    "prelude/ivp.rs, rkm.rs, rkh.rs, dmx.rs, deque.rs: nalgebra vectors/matrices as ghost-valued shims (from_vec column-major, from_row_slice row-major, row_iter = rows in order, set_column), "
    "VecDeque::is_empty/back assumed specifications; the Broyden-update matrix operations are typed only",
    "the derivative callback is a pure function of (t, y) returning a vector of the state's dimension",
    "R16 `?` with conversion spelled as match; R26-R31 (see DESIGN.md): row_iter/column_iter_mut loops as index loops, reference patterns, tuple clone, reference operators as calls, arguments reading `self` bound before `g(self, ..)`",
    "powf(x, y) > 0 for x > 0 and < 1 for 0 < x < 1, y > 0 (Adams step-size factor); an exactly zero Adams error estimate (tolerance / 0) is excluded from the invariant clause",
    "thiserror-generated From impls (UserError -> IVPError -> IVPStatus::Failure) are trusted",
    "exact reals",
]
