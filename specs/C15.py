"""C15 -- Lagrange (Neville) and Hermite (divided differences) interpolation (src/interp/mod.rs)."""
from vx.unit import Unit
from vx import nra
from specs_polycommon import *

IF = "src/interp/mod.rs"

L_NEV = nra.Lemma("lemma_neville_step", ["x", "xa", "xb", "pa", "pb", "y"],
                  ["xb != xa", "x == xa or pb == y", "x == xb or pa == y", "not (x == xa and x == xb)"],
                  "((x - xa) * pb - (x - xb) * pa) * (1 / (xb - xa)) == y",
                  note="Neville: if the two parents interpolate y at x (a parent may be off only at the node its factor cancels), so does the child")
NRA_LEMMAS = [L_NEV]


def extra_obligations(ctx):
    return nra.run_lemmas("C15", "interp", NRA_LEMMAS, ctx)


PVAL_LEMMAS = r"""
pub proof fn lemma_hs_unfold(a: Seq<R>, j: int, x: real)
    requires j >= 0
    ensures hs(a, j, x) == coef(a, j) + x * hs(a, j + 1, x)
{
    if j >= a.len() { assert(hs(a, j, x) == 0real && hs(a, j + 1, x) == 0real); assert(x * 0real == 0real) by(nonlinear_arith); }
}
pub proof fn lemma_hs_zero_beyond(a: Seq<R>, j: int, x: real)
    requires j >= a.len()
    ensures hs(a, j, x) == 0real
{ }
pub proof fn lemma_hs_sum(r: Seq<R>, a: Seq<R>, b: Seq<R>, sign: real, j: int, x: real)
    requires 0 <= j, r.len() >= a.len(), r.len() >= b.len(), forall|k: int| #![trigger coef(r, k)] coef(r, k) == coef(a, k) + sign * coef(b, k)
    ensures hs(r, j, x) == hs(a, j, x) + sign * hs(b, j, x)
    decreases r.len() - j
{
    if j >= r.len() {
        assert(sign * 0real == 0real) by(nonlinear_arith);
    } else {
        lemma_hs_sum(r, a, b, sign, j + 1, x);
        lemma_hs_unfold(r, j, x); lemma_hs_unfold(a, j, x); lemma_hs_unfold(b, j, x);
        let ha = hs(a, j + 1, x); let hb = hs(b, j + 1, x); let ca = coef(a, j); let cb = coef(b, j);
        assert(coef(r, j) == ca + sign * cb);
        assert(ca + sign * cb + x * (ha + sign * hb) == (ca + x * ha) + sign * (cb + x * hb)) by(nonlinear_arith);
    }
}
pub proof fn lemma_pval_sum(r: Polynomial, a: Polynomial, b: Polynomial, sign: real, x: real)
    requires is_sum(r, a, b, sign)
    ensures pval(r, x) == pval(a, x) + sign * pval(b, x)
{ lemma_hs_sum(r.coefficients@, a.coefficients@, b.coefficients@, sign, 0, x); }
pub proof fn lemma_hs_scaled(r: Seq<R>, a: Seq<R>, s: real, j: int, x: real)
    requires r.len() == a.len(), 0 <= j <= a.len(), forall|k: int| 0 <= k < a.len() ==> #[trigger] r[k]@ == a[k]@ * s
    ensures hs(r, j, x) == hs(a, j, x) * s
    decreases a.len() - j
{
    if j < a.len() {
        lemma_hs_scaled(r, a, s, j + 1, x);
        let t = hs(a, j + 1, x);
        assert((a[j]@ + x * t) * s == a[j]@ * s + x * (t * s)) by(nonlinear_arith);
    } else { assert(0real * s == 0real) by(nonlinear_arith); }
}
pub proof fn lemma_hs_linear_factor(r: Seq<R>, a: Seq<R>, b0: real, b1: real, j: int, x: real)
    requires r.len() == a.len() + 1, 0 <= j <= r.len(), forall|k: int| #![trigger coef(r, k)] coef(r, k) == coef(a, k - 1) * b1 + coef(a, k) * b0
    ensures hs(r, j, x) == coef(a, j - 1) * b1 + (b1 * x + b0) * hs(a, j, x)
    decreases r.len() - j
{
    if j < r.len() {
        lemma_hs_linear_factor(r, a, b0, b1, j + 1, x);
        let am = coef(a, j - 1); let aj = coef(a, j); let t = hs(a, j + 1, x);
        assert(coef(r, j) == am * b1 + aj * b0);
        lemma_hs_unfold(a, j, x);
        lemma_lf_step(am, aj, b0, b1, x, t);
    } else {
        assert(coef(a, j - 1) * b1 == 0real) by { assert(coef(r, j) == 0real); assert(coef(a, j) == 0real); assert(0real * b0 == 0real) by(nonlinear_arith); }
        assert((b1 * x + b0) * 0real == 0real) by(nonlinear_arith);
    }
}
pub proof fn lemma_pval_const(a: Polynomial, x: real)
    requires a.coefficients@.len() == 1
    ensures pval(a, x) == a.coefficients@[0]@
{ let s = a.coefficients@; assert(hs(s, 1, x) == 0real); assert(hs(s, 0, x) == s[0]@ + x * hs(s, 1, x)); assert(x * 0real == 0real) by(nonlinear_arith); }
pub proof fn lemma_pval_linear(a: Polynomial, x: real)
    requires a.coefficients@.len() == 2
    ensures pval(a, x) == a.coefficients@[0]@ + x * a.coefficients@[1]@
{ let s = a.coefficients@; assert(hs(s, 2, x) == 0real); assert(hs(s, 1, x) == s[1]@ + x * hs(s, 2, x)); assert(hs(s, 0, x) == s[0]@ + x * hs(s, 1, x)); assert(x * 0real == 0real) by(nonlinear_arith); }
// every exact path of multiply() multiplies the values
pub proof fn lemma_pval_product(r: Polynomial, a: Polynomial, b: Polynomial, x: real)
    requires is_product_exact(r, a, b), a.wf(), b.wf(), a.coefficients@.len() <= 2 || b.coefficients@.len() <= 2
    ensures pval(r, x) == pval(a, x) * pval(b, x)
{
    let rs = r.coefficients@; let az = a.coefficients@; let bs = b.coefficients@;
    assert(prod_exact(rs, az, bs));
    let pa = pval(a, x); let pb = pval(b, x);
    if bs.len() == 1 {
        lemma_hs_scaled(rs, az, bs[0]@, 0, x); lemma_pval_const(b, x);
    } else if az.len() == 1 {
        lemma_hs_scaled(rs, bs, az[0]@, 0, x); lemma_pval_const(a, x);
        assert(pb * az[0]@ == az[0]@ * pb) by(nonlinear_arith);
    } else if bs.len() == 2 {
        lemma_hs_linear_factor(rs, az, bs[0]@, bs[1]@, 0, x); lemma_pval_linear(b, x);
        assert(coef(az, -1) * bs[1]@ + (bs[1]@ * x + bs[0]@) * pa == pa * (bs[0]@ + x * bs[1]@)) by(nonlinear_arith) requires coef(az, -1) == 0real;
    } else {
        lemma_hs_linear_factor(rs, bs, az[0]@, az[1]@, 0, x); lemma_pval_linear(a, x);
        assert(coef(bs, -1) * az[1]@ + (az[1]@ * x + az[0]@) * pb == (az[0]@ + x * az[1]@) * pb) by(nonlinear_arith) requires coef(bs, -1) == 0real;
    }
}
pub proof fn lemma_hs_ext(r: Seq<R>, a: Seq<R>, j: int, x: real)
    requires r.len() == a.len(), 0 <= j, forall|k: int| j <= k < a.len() ==> #[trigger] r[k]@ == a[k]@
    ensures hs(r, j, x) == hs(a, j, x)
    decreases a.len() - j
{ if j < a.len() { lemma_hs_ext(r, a, j + 1, x); } }
pub proof fn lemma_pval_shift0(r: Polynomial, a: Polynomial, d: real, x: real)
    requires is_shift0(r, a, d), a.wf()
    ensures pval(r, x) == pval(a, x) + d
{
    let rs = r.coefficients@; let az = a.coefficients@;
    assert forall|k: int| 1 <= k < az.len() implies #[trigger] rs[k]@ == az[k]@ by { assert(coef(rs, k) == coef(az, k)); }
    lemma_hs_ext(rs, az, 1, x);
    assert(hs(rs, 0, x) == rs[0]@ + x * hs(rs, 1, x));
    assert(hs(az, 0, x) == az[0]@ + x * hs(az, 1, x));
    assert(coef(rs, 0) == coef(az, 0) + d);
}
pub proof fn lemma_pval_scaled(r: Polynomial, a: Polynomial, s: real, x: real)
    requires is_scaled(r, a, s)
    ensures pval(r, x) == pval(a, x) * s
{ lemma_hs_scaled(r.coefficients@, a.coefficients@, s, 0, x); }
"""

L_LF = nra.Lemma("lemma_lf_step", ["am", "aj", "b0", "b1", "x", "t"], [],
                 "am * b1 + aj * b0 + x * (aj * b1 + (b1 * x + b0) * t) == am * b1 + (b1 * x + b0) * (aj + x * t)",
                 note="one Horner step of a product by a linear factor")
NRA_LEMMAS.append(L_LF)


HERMITE_SPEC = r"""
// the divided-difference table of hermite(): stride w = 2n, entry (i, j) at i + j*w, doubled nodes z_{2i} = z_{2i+1} = x_i
pub open spec fn hz(xs: Seq<R>, k: int) -> real { xs[k / 2]@ }
pub open spec fn seed_at(qs: Seq<R>, zs: Seq<R>, xs: Seq<R>, ys: Seq<R>, ds: Seq<R>, i: int) -> bool {
    let w = 2 * xs.len() as int;
    zs[2 * i] == xs[i] && zs[2 * i + 1] == xs[i] && qs[2 * i] == ys[i] && qs[2 * i + 1] == ys[i]
        && qs[2 * i + 1 + w] == ds[i] && (i != 0 && xs[i]@ != xs[i - 1]@ ==> qs[2 * i + w]@ == (ys[i]@ - ys[i - 1]@) / (xs[i]@ - xs[i - 1]@))
}
pub open spec fn dd_seed(qs: Seq<R>, zs: Seq<R>, xs: Seq<R>, ys: Seq<R>, ds: Seq<R>, upto: int) -> bool {
    forall|i: int| 0 <= i < upto ==> #[trigger] seed_at(qs, zs, xs, ys, ds, i)
}
pub open spec fn dd_rec(qs: Seq<R>, zs: Seq<R>, w: int, i: int, j: int) -> bool {
    zs[i]@ != zs[i - j]@ ==> qs[i + j * w]@ == (qs[i + (j - 1) * w]@ - qs[i - 1 + (j - 1) * w]@) / (zs[i]@ - zs[i - j]@)
}
pub open spec fn dd_table(qs: Seq<R>, zs: Seq<R>, w: int, rows: int) -> bool {
    forall|i: int, j: int| 2 <= j <= i < rows ==> #[trigger] dd_rec(qs, zs, w, i, j)
}
// Horner evaluation of the Newton form  sum_i Q_ii prod_{j<i} (x - z_j):  H(w) = 0,  H(i) = (H(i+1) + Q_ii) (x - z_{i-1})
pub open spec fn newton_h(qs: Seq<R>, xs: Seq<R>, w: int, i: int, x: real) -> real
    decreases w - i
{ if i >= w || i < 1 { 0real } else { (newton_h(qs, xs, w, i + 1, x) + qs[i + i * w]@) * (x - xs[(i - 1) / 2]@) } }
pub open spec fn hermite_ok(p: Polynomial, xs: Seq<R>, ys: Seq<R>, ds: Seq<R>, tol: real) -> bool {
    let w = 2 * xs.len() as int;
    p.wf() && p.coefficients@.len() <= w && exists|q: Polynomial, qs: Seq<R>, zs: Seq<R>| #![trigger dd_table(qs, zs, w, w), q.wf()]
        dd_seed(qs, zs, xs, ys, ds, xs.len() as int) && dd_table(qs, zs, w, w) && q.wf()
        && (forall|x: real| #[trigger] pval(q, x) == newton_h(qs, xs, w, 1, x) + qs[0]@)
        && (forall|k: int| #![trigger p.c(k)] rabs(p.c(k) - q.c(k)) <= rmax(tol, p.tolerance@))
}
pub proof fn lemma_widx(w: int, i: int, j: int)
    requires 0 <= j <= i < w
    ensures 0 <= i + j * w < w * w, j * w >= 0, (j >= 1 ==> (j - 1) * w >= 0 && i + (j - 1) * w < w * w && i - 1 + (j - 1) * w >= -1)
{
    assert(j * w <= (w - 1) * w) by(nonlinear_arith) requires 0 <= j <= w - 1, w >= 1;
    assert((w - 1) * w == w * w - w) by(nonlinear_arith);
    assert(j * w >= 0) by(nonlinear_arith) requires w >= 0, j >= 0;
    if j >= 1 { assert((j - 1) * w >= 0 && (j - 1) * w <= j * w) by(nonlinear_arith) requires w >= 0, j >= 1; }
}
pub proof fn lemma_widx_inj(w: int, i: int, j: int, i2: int, j2: int)
    requires 0 <= i < w, 0 <= i2 < w, 0 <= j, 0 <= j2, i + j * w == i2 + j2 * w
    ensures i == i2 && j == j2
{
    if j < j2 { assert(j2 * w >= j * w + w) by(nonlinear_arith) requires j2 >= j + 1, w >= 0; }
    if j2 < j { assert(j * w >= j2 * w + w) by(nonlinear_arith) requires j >= j2 + 1, w >= 0; }
}
"""


def hermite(u):
    u.spec(HERMITE_SPEC)
    f = u.fn(IF, "hermite")
    f.attrs = []
    f.req("xs@.len() >= 1", "xs@.len() < 0x4000", "tol@ > 0real")
    f.ens("xs@.len() != ys@.len() ==> res is Err", "xs@.len() != derivs@.len() ==> res is Err",
          "xs@.len() == ys@.len() && xs@.len() == derivs@.len() ==> res is Ok && hermite_ok(res->Ok_0, xs@, ys@, derivs@, tol@)")
    W = "(2 * xs@.len() as int)"
    BASE = ["xs@.len() == ys@.len() && xs@.len() == derivs@.len() && 1 <= xs@.len() < 0x4000 && tol@ > 0real",
            f"zs@.len() == {W} && qs@.len() == 4 * xs@.len() * xs@.len() && qs@.len() == {W} * {W} && qs@.len() >= 2 * {W} && qs@.len() <= 0x40000000"]
    f.loop(1, iter="it", invariant=BASE + ["dd_seed(qs@, zs@, xs@, ys@, derivs@, it.index@)"])
    f.loop(2, iter="it", invariant=BASE + ["dd_seed(qs@, zs@, xs@, ys@, derivs@, xs@.len() as int)", f"dd_table(qs@, zs@, {W}, it.index@ + 2)"])
    f.loop(3, iter="it2", invariant=BASE + ["dd_seed(qs@, zs@, xs@, ys@, derivs@, xs@.len() as int)", f"2 <= i < {W}", f"dd_table(qs@, zs@, {W}, i as int)",
                                             f"forall|jj: int| 2 <= jj < it2.index@ + 2 ==> #[trigger] dd_rec(qs@, zs@, {W}, i as int, jj)"])
    f.loop(4, iter="it4", invariant=BASE + [
        "hermite.wf() && hermite.coefficients@.len() == it4.index@ + 1",
        f"forall|x: real| #[trigger] pval(hermite, x) == newton_h(qs@, xs@, {W}, {W} - it4.index@, x)"])
    f.loop(5, iter="it5", invariant=[
        "tol@ > 0real", "hermite.wf() && hermite.coefficients@.len() <= qf.coefficients@.len()",
        "forall|k: int| #![trigger qf.c(k)] hermite.c(k) == qf.c(k) || (hermite.c(k) == 0real && rabs(qf.c(k)) < tol@)"])
    f.hint("before loop 4", """proof {
        let w = 2 * xs@.len() as int;
        assert forall|x: real| #[trigger] pval(hermite, x) == newton_h(qs@, xs@, w, w, x) by { lemma_pval_const(hermite, x); }
    }""")
    f.hint("loop 4 begin", """let ghost h0 = hermite; let ghost w = 2 * xs@.len() as int; let ghost iv = i as int;
    proof { assert(iv == w - 1 - it4.index@); lemma_widx(w, iv, iv); }""")
    f.anf("hermite *=", "t", bind_root=True)
    f.hint("after: hermite += qs[i", "let ghost h1 = hermite;")
    f.hint("loop 4 end", """proof {
        let xk = xs@[(iv - 1) / 2]@;
        assert forall|x: real| #[trigger] pval(hermite, x) == newton_h(qs@, xs@, w, iv, x) by {
            lemma_pval_shift0(h1, h0, qs@[iv + iv * w]@, x);
            let t = vx_t1;
            assert(t.coefficients@.len() == 2 && t.coefficients@[0]@ == -xk && t.coefficients@[1]@ == 1real);
            lemma_pval_product(hermite, h1, t, x);
            lemma_pval_linear(t, x);
            assert(x * 1real == x) by(nonlinear_arith);
            assert(pval(h0, x) == newton_h(qs@, xs@, w, iv + 1, x));
        }
    }""")
    f.hint("after loop 4", "let ghost hprev = hermite;")
    f.hint("before loop 5", """let ghost qf = hermite;
    proof {
        let w = 2 * xs@.len() as int;
        assert forall|x: real| #[trigger] pval(qf, x) == newton_h(qs@, xs@, w, 1, x) + qs@[0]@ by {
            lemma_pval_shift0(qf, hprev, qs@[0]@, x);
            assert(pval(hprev, x) == newton_h(qs@, xs@, w, 1, x));
        }
        assert(qf.coefficients@.len() == w);
    }""")
    f.hint("before: Ok(hermite)", """proof {
        let w = 2 * xs@.len() as int;
        assert forall|k: int| #![trigger hermite.c(k)] rabs(hermite.c(k) - qf.c(k)) <= rmax(tol@, hermite.tolerance@) by { let t = qf.c(k); }
        assert(dd_seed(qs@, zs@, xs@, ys@, derivs@, xs@.len() as int) && dd_table(qs@, zs@, w, w) && qf.wf());
        assert(hermite_ok(hermite, xs@, ys@, derivs@, tol@));
    }""")
    f.hint("before: let mut zs =", """proof {
        let n = xs@.len() as int; let w = 2 * n;
        assert(4 * n * n == w * w && w * w >= 2 * w && 4 * n * n <= 0x40000000 && 4 * n * n >= 4 * n) by(nonlinear_arith) requires 1 <= n < 0x4000, w == 2 * n;
    }""")
    f.hint("loop 1 begin", "let ghost q0 = qs@; let ghost z0 = zs@; let ghost w = 2 * xs@.len() as int;")
    f.hint("loop 1 end", """proof {
        let iv = i as int;
        assert forall|k: int| 0 <= k < iv + 1 implies #[trigger] seed_at(qs@, zs@, xs@, ys@, derivs@, k) by {
            if k < iv {
                assert(seed_at(q0, z0, xs@, ys@, derivs@, k));
            } else if iv != 0 {
                assert(seed_at(q0, z0, xs@, ys@, derivs@, iv - 1));
            }
        }
    }""")
    f.hint("loop 3 begin", """let ghost q0 = qs@; let ghost jv = j as int; let ghost w = 2 * xs@.len() as int; let ghost iv = i as int;
    proof {
        assert(jv == it2.index@ + 2);
        lemma_widx(w, iv, jv); lemma_widx(w, iv, jv - 1); lemma_widx(w, iv - 1, jv - 1);
    }""")
    f.hint("loop 3 end", """proof {
        let cell = iv + jv * w;
        assert(jv * w >= 2 * w) by(nonlinear_arith) requires jv >= 2, w >= 0;
        assert forall|k: int| 0 <= k < qs@.len() && k != cell implies qs@[k] == q0[k] by { }
        assert(cell != iv + (jv - 1) * w && cell != iv - 1 + (jv - 1) * w) by {
            if cell == iv + (jv - 1) * w { lemma_widx_inj(w, iv, jv, iv, jv - 1); }
            if cell == iv - 1 + (jv - 1) * w { lemma_widx_inj(w, iv, jv, iv - 1, jv - 1); }
        }
        assert(dd_rec(qs@, zs@, w, iv, jv));
        // seeds live in columns 0 and 1 (indices below 2w): untouched
        assert forall|k: int| 0 <= k < xs@.len() implies #[trigger] seed_at(qs@, zs@, xs@, ys@, derivs@, k) by {
            assert(seed_at(q0, zs@, xs@, ys@, derivs@, k));
        }
        assert forall|i2: int, j2: int| 2 <= j2 <= i2 < iv implies #[trigger] dd_rec(qs@, zs@, w, i2, j2) by {
            assert(dd_rec(q0, zs@, w, i2, j2));
            lemma_widx(w, i2, j2); lemma_widx(w, i2, j2 - 1); lemma_widx(w, i2 - 1, j2 - 1);
            if i2 + j2 * w == cell { lemma_widx_inj(w, i2, j2, iv, jv); }
            if i2 + (j2 - 1) * w == cell { lemma_widx_inj(w, i2, j2 - 1, iv, jv); }
            if i2 - 1 + (j2 - 1) * w == cell { lemma_widx_inj(w, i2 - 1, j2 - 1, iv, jv); }
        }
        assert forall|jj: int| 2 <= jj < it2.index@ + 3 implies #[trigger] dd_rec(qs@, zs@, w, iv, jj) by {
            if jj != jv {
                assert(dd_rec(q0, zs@, w, iv, jj));
                lemma_widx(w, iv, jj); lemma_widx(w, iv, jj - 1); lemma_widx(w, iv - 1, jj - 1);
                if iv + jj * w == cell { lemma_widx_inj(w, iv, jj, iv, jv); }
                if iv + (jj - 1) * w == cell { lemma_widx_inj(w, iv, jj - 1, iv, jv); }
                if iv - 1 + (jj - 1) * w == cell { lemma_widx_inj(w, iv - 1, jj - 1, iv, jv); }
            }
        }
    }""")
    return f


def units(ctx):
    u = Unit("C15", "interp", preludes=("real", "stdx"), cfg=cfg())
    u.rlimit = 100
    u.timeout = 600
    all_ops(u)
    u.spec(HSD_SPEC)
    add_basic(u, names=("new", "with_tolerance", "from_slice", "order", "get_coefficient", "purge_coefficient", "purge_leading"))
    im = u.impl(PFILE, "Polynomial<N>", header="impl Polynomial")
    f = im.fn("set_tolerance")
    f.ens("tolerance@ < 0real ==> res is Err", "res is Ok ==> final(self).tolerance == tolerance && final(self).coefficients == old(self).coefficients",
          "tolerance@ > 0real ==> res is Ok")
    u.spec("".join(l.verus_stub() for l in NRA_LEMMAS))
    u.spec(PVAL_LEMMAS)
    u.spec(r"""
pub open spec fn distinct(xs: Seq<R>) -> bool { forall|a: int, b: int| 0 <= a < b < xs.len() ==> #[trigger] xs[a]@ != #[trigger] xs[b]@ }
pub open spec fn is_linear_term(t: Polynomial, xi: real) -> bool { t.coefficients@.len() == 2 && t.coefficients@[0]@ == -xi && t.coefficients@[1]@ == 1real }
// Neville table entry (i, j): degree <= j, interpolates the points i-j .. i
pub open spec fn nev_ok(p: Polynomial, xs: Seq<R>, ys: Seq<R>, i: int, j: int) -> bool {
    p.wf() && p.coefficients@.len() <= j + 1 && forall|m: int| i - j <= m <= i ==> #[trigger] pval(p, xs[m]@) == ys[m]@
}
// structural part (holds for any abscissae): entry (i, j) has at most j+1 coefficients
pub open spec fn table_len(qs: Seq<Polynomial>, n: int, rows: int) -> bool {
    forall|i: int, j: int| 0 <= j <= i < n && (i < rows || j == 0) ==> #[trigger] qs[i + n * j].coefficients@.len() <= j + 1
}
pub open spec fn table_ok(qs: Seq<Polynomial>, xs: Seq<R>, ys: Seq<R>, rows: int) -> bool {
    forall|i: int, j: int| 0 <= j <= i < xs.len() && (i < rows || j == 0) ==> #[trigger] nev_ok(qs[i + xs.len() * j], xs, ys, i, j)
}
pub proof fn lemma_idx(n: int, i: int, j: int)
    requires 0 <= j <= i < n
    ensures 0 <= i + n * j < n * n, (j >= 1 ==> i + n * (j - 1) >= 0 && i + n * (j - 1) < n * n), n * j >= 0
{
    assert(n * j <= n * (n - 1)) by(nonlinear_arith) requires 0 <= j <= n - 1, n >= 1;
    assert(n * (n - 1) == n * n - n) by(nonlinear_arith);
    assert(n * j >= 0) by(nonlinear_arith) requires n >= 0, j >= 0;
    if j >= 1 { assert(n * (j - 1) >= 0 && n * (j - 1) <= n * j) by(nonlinear_arith) requires n >= 0, j >= 1; }
}
// distinct table cells have distinct flat indices
pub proof fn lemma_idx_inj(n: int, i: int, j: int, i2: int, j2: int)
    requires 0 <= i < n, 0 <= i2 < n, 0 <= j, 0 <= j2, i + n * j == i2 + n * j2
    ensures i == i2 && j == j2
{
    if j < j2 { assert(n * j2 >= n * j + n) by(nonlinear_arith) requires j2 >= j + 1, n >= 0; }
    if j2 < j { assert(n * j >= n * j2 + n) by(nonlinear_arith) requires j >= j2 + 1, n >= 0; }
}
// what lagrange() returns: degree <= n-1, and within the zero tolerance (coefficient-wise) of a polynomial through all the points
pub open spec fn lagrange_ok(p: Polynomial, xs: Seq<R>, ys: Seq<R>, tol: real) -> bool {
    p.wf() && p.coefficients@.len() <= xs.len() && exists|q: Polynomial| #![trigger nev_ok(q, xs, ys, xs.len() - 1, xs.len() - 1)]
        nev_ok(q, xs, ys, xs.len() - 1, xs.len() - 1) && forall|k: int| #![trigger p.c(k)] rabs(p.c(k) - q.c(k)) <= rmax(tol, p.tolerance@)
}
""")
    f = u.fn(IF, "lagrange")
    f.attrs = []
    f.anf("let numer =", "n")
    f.req("xs@.len() >= 1", "xs@.len() < 0x10000", "tol@ > 0real")
    f.ens("xs@.len() != ys@.len() ==> res is Err",
          "xs@.len() == ys@.len() && distinct(xs@) ==> res is Ok && lagrange_ok(res->Ok_0, xs@, ys@, tol@)")
    COMMON = ["xs@.len() == ys@.len() && 1 <= xs@.len() < 0x10000 && tol@ > 0real", "qs@.len() == xs@.len() * xs@.len()",
              "forall|k: int| 0 <= k < qs@.len() ==> (#[trigger] qs@[k]).wf() && qs@[k].coefficients@.len() <= xs@.len()"]
    f.loop(1, iter="it", invariant=COMMON + [
        "ind == it.index@", "it.index@ <= ys@.len()",
        "forall|k: int| 0 <= k < it.index@ ==> (#[trigger] qs@[k]).coefficients@.len() == 1 && qs@[k].coefficients@[0] == ys@[k]",
        "forall|k: int| 0 <= k < it.history@.len() ==> *it.history@[k] == ys@[k]"])
    f.loop(2, iter="it", invariant=COMMON + ["table_len(qs@, xs@.len() as int, it.index@ + 1)", "distinct(xs@) ==> table_ok(qs@, xs@, ys@, it.index@ + 1)"])
    f.loop(3, iter="it2", invariant=COMMON + [
        "1 <= i < xs@.len()", "is_linear_term(poly_2, xs@[i as int]@) && poly_2.wf()",
        "table_len(qs@, xs@.len() as int, i as int)",
        "forall|jj: int| 0 <= jj <= it2.index@ ==> #[trigger] qs@[i + xs@.len() * jj].coefficients@.len() <= jj + 1",
        "distinct(xs@) ==> table_ok(qs@, xs@, ys@, i as int)",
        "distinct(xs@) ==> forall|jj: int| 0 <= jj <= it2.index@ ==> #[trigger] nev_ok(qs@[i + xs@.len() * jj], xs@, ys@, i as int, jj)"])
    LAST = "(xs@.len() * xs@.len() - 1)"
    f.loop(4, iter="it4", invariant=[
        "xs@.len() == ys@.len() && 1 <= xs@.len() < 0x10000 && tol@ > 0real", "qs@.len() == xs@.len() * xs@.len()", f"0 <= {LAST} < qs@.len()",
        f"qs@[{LAST}].wf() && qs@[{LAST}].coefficients@.len() <= qf.coefficients@.len()", "qf.coefficients@.len() <= xs@.len()",
        f"forall|k: int| #![trigger qf.c(k)] qs@[{LAST}].c(k) == qf.c(k) || (qs@[{LAST}].c(k) == 0real && rabs(qf.c(k)) < tol@)",
    ])
    f.hint("before loop 4", """let ghost qf = qs@[xs@.len() * xs@.len() - 1];
    proof {
        let n = xs@.len() as int;
        assert(n * n >= 1 && n * n <= 0xffff * 0xffff) by(nonlinear_arith) requires 1 <= n <= 0xffff;
        lemma_idx(n, n - 1, n - 1);
        assert((n - 1) + n * (n - 1) == n * n - 1) by(nonlinear_arith);
    }""")
    f.hint("before: Ok(qs", """proof {
        let n = xs@.len() as int;
        let p = qs@[n * n - 1];
        assert forall|k: int| #![trigger p.c(k)] rabs(p.c(k) - qf.c(k)) <= rmax(tol@, p.tolerance@) by { let t = qf.c(k); }
        if distinct(xs@) {
            assert((n - 1) + n * (n - 1) == n * n - 1) by(nonlinear_arith);
            assert(nev_ok(qf, xs@, ys@, n - 1, n - 1));
            assert(lagrange_ok(p, xs@, ys@, tol@));
        }
    }""")
    hermite(u)
    NN = "let n = xs@.len() as int;"
    f.hint("before: let mut qs =", "proof { " + NN + " assert(n * n <= 0xffff * 0xffff && n <= n * n) by(nonlinear_arith) requires 1 <= n <= 0xffff; }")
    f.hint("loop 1 begin", "proof { " + NN + " assert(n <= n * n) by(nonlinear_arith) requires 1 <= n; }")
    f.hint("before loop 2", """proof {
        assert forall|i: int, j: int| 0 <= j <= i < xs@.len() && (i < 1 || j == 0) implies #[trigger] qs@[i + xs@.len() * j].coefficients@.len() <= j + 1 by {
            assert(xs@.len() * 0 == 0) by(nonlinear_arith);
        }
        if distinct(xs@) {
            assert forall|i: int, j: int| 0 <= j <= i < xs@.len() && (i < 1 || j == 0) implies #[trigger] nev_ok(qs@[i + xs@.len() * j], xs@, ys@, i, j) by {
                assert(xs@.len() * 0 == 0) by(nonlinear_arith);
                assert(j == 0);
                lemma_pval_const(qs@[i], xs@[i]@);
            }
        }
    }""")
    f.hint("loop 2 begin", "proof { " + NN + " assert(n <= n * n) by(nonlinear_arith) requires 1 <= n; assert(i == it.index@ + 1); }")
    f.hint("loop 3 begin", """let ghost q0 = qs@; let ghost jv = j as int; let ghost n = xs@.len() as int; let ghost iv = i as int;
    proof {
        assert(jv == it2.index@ + 1);
        lemma_idx(n, iv, jv); lemma_idx(n, iv - 1, jv - 1); lemma_idx(n, iv, jv - 1);
        assert(n * n <= 0xffff * 0xffff) by(nonlinear_arith) requires 1 <= n <= 0xffff;
        assert(q0[iv + n * (jv - 1)].coefficients@.len() <= jv);
        assert(q0[(iv - 1) + n * (jv - 1)].coefficients@.len() <= jv) by { if jv - 1 == 0 { assert(n * 0 == 0) by(nonlinear_arith); } }
    }""")
    f.hint("after: let mut poly_1 =", "proof { assert(is_linear_term(poly_1, xs@[iv - jv]@)); }")
    f.hint("loop 3 end", """proof {
        let cell = iv + n * jv;
        assert(qs@.len() == q0.len());
        assert forall|k: int| 0 <= k < qs@.len() && k != cell implies qs@[k] == q0[k] by { }
        assert(qs@[cell].coefficients@.len() <= jv + 1);
        assert forall|i2: int, j2: int| 0 <= j2 <= i2 < n && (i2 < iv || j2 == 0) implies #[trigger] qs@[i2 + n * j2].coefficients@.len() <= j2 + 1 by {
            lemma_idx(n, i2, j2);
            if i2 + n * j2 == cell { lemma_idx_inj(n, i2, j2, iv, jv); }
            assert(q0[i2 + n * j2].coefficients@.len() <= j2 + 1);
        }
        assert forall|jj: int| 0 <= jj <= it2.index@ + 1 implies #[trigger] qs@[iv + n * jj].coefficients@.len() <= jj + 1 by {
            lemma_idx(n, iv, jj);
            if jj != jv { if iv + n * jj == cell { lemma_idx_inj(n, iv, jj, iv, jv); } assert(q0[iv + n * jj].coefficients@.len() <= jj + 1); }
        }
        if distinct(xs@) {
            let A = q0[iv + n * (jv - 1)]; let B = q0[(iv - 1) + n * (jv - 1)];
            let xa = xs@[iv - jv]@; let xb = xs@[iv]@;
            assert(nev_ok(A, xs@, ys@, iv, jv - 1));
            assert(nev_ok(B, xs@, ys@, iv - 1, jv - 1)) by { if jv - 1 == 0 { } }
            let P = qs@[cell];
            assert(xa != xb);
            assert(idenom@ == 1real / (xb - xa));
            assert forall|m: int| iv - jv <= m <= iv implies #[trigger] pval(P, xs@[m]@) == ys@[m]@ by {
                let x = xs@[m]@;
                lemma_pval_product(vx_n1, poly_1, A, x);
                lemma_pval_product(vx_n2, poly_2, B, x);
                lemma_pval_linear(poly_1, x); lemma_pval_linear(poly_2, x);
                lemma_pval_sum(numer, vx_n1, vx_n2, -1real, x);
                lemma_pval_scaled(P, numer, idenom@, x);
                if m != iv - jv { assert(pval(A, x) == ys@[m]@); assert(x != xa); } else { assert(x == xa); }
                if m != iv { assert(pval(B, x) == ys@[m]@); assert(x != xb); } else { assert(x == xb); }
                assert(x * 1real == x) by(nonlinear_arith);
                lemma_neville_step(x, xa, xb, pval(B, x), pval(A, x), ys@[m]@);
            }
            assert(nev_ok(P, xs@, ys@, iv, jv));
            assert forall|i2: int, j2: int| 0 <= j2 <= i2 < xs@.len() && (i2 < iv || j2 == 0) implies #[trigger] nev_ok(qs@[i2 + xs@.len() * j2], xs@, ys@, i2, j2) by {
                lemma_idx(n, i2, j2);
                if i2 + n * j2 == cell { lemma_idx_inj(n, i2, j2, iv, jv); }
                assert(nev_ok(q0[i2 + n * j2], xs@, ys@, i2, j2));
            }
            assert forall|jj: int| 0 <= jj <= it2.index@ + 1 implies #[trigger] nev_ok(qs@[iv + xs@.len() * jj], xs@, ys@, iv, jj) by {
                lemma_idx(n, iv, jj);
                if jj == jv { } else { if iv + n * jj == cell { lemma_idx_inj(n, iv, jj, iv, jv); } assert(nev_ok(q0[iv + n * jj], xs@, ys@, iv, jj)); }
            }
        }
    }""")
    return [u]


DECIDED = [
    "lagrange: mismatched lengths -> Err; for distinct abscissae the Neville table invariant is proved by induction over the two loops: entry (i, j) has degree <= j and takes y_m at x_m for i-j <= m <= i (pval through the exact linear-factor paths of multiply, one z3 NRA lemma for the Neville step); the result has at most n coefficients and differs coefficient-wise by at most max(tol, its own zero tolerance) from a polynomial through all n points",
    "hermite: both length mismatches -> Err; the doubled-node divided-difference table satisfies its seeds (values, derivatives, first differences) and the recurrence Q_ij = (Q_i,j-1 - Q_i-1,j-1)/(z_i - z_i-j) cell by cell; before the zeroing pass the result is exactly the Newton form sum_i Q_ii prod_{j<i}(x - z_j) as a polynomial function (Horner assembly through += and *=); at most 2n coefficients; zeroing/trimming bound as above",
]
NOT_DECIDED = [
    "hermite: that the Newton form over the doubled-node divided differences matches values AND derivatives (the classical theorem on confluent divided differences -- needs a limit argument, not a contract on this code)",
    "uniqueness / recovering the sampled polynomial / independence of node order (theorems about polynomials)", "complex data, rounding and conditioning of the nodes",
]
ASSUMPTIONS = ["1 <= n < 65536 (lagrange: n*n table; n = 0 underflows `n*n - 1`) / n < 16384 (hermite: 4 n^2 table)", "tol > 0",
               "distinct abscissae for the interpolation claims (x_i - x_{i-j} is a divisor)"]
