"""C08 -- Newton-type iterations (src/roots/mod.rs: newton, jac_finite_diff, secant, steffensen; src/roots/polynomial.rs)."""
from vx.unit import Unit
from vx import nra
from specs_polycommon import *

RF, RPF = "src/roots/mod.rs", "src/roots/polynomial.rs"

L_LIN = nra.Lemma("lemma_newton_step_linear", ["c0", "c1", "g"], ["c1 != 0"], "g - (c0 + g * c1) / c1 == (0 - c0) / c1 and c0 + ((0 - c0) / c1) * c1 == 0",
                  note="one Newton step on c0 + c1 x lands on the root -c0/c1, where the polynomial vanishes")
NRA_LEMMAS = [L_LIN]


def extra_obligations(ctx):
    return nra.run_lemmas("C08", "newton", NRA_LEMMAS + MULLER_LEMMAS, ctx)


def scalar_unit():
    c = cfg()
    # R25: a `fn(N) -> N` function-pointer parameter is verified as `impl Fn(R) -> R` (every fn pointer is an Fn)
    c.type_subst = [(["fn", "(", "N", ")", "->", "N"], "impl Fn(R) -> R")] + c.type_subst
    u = Unit("C08", "scalar", preludes=("real", "stdx"), cfg=c)
    u.item(PFILE, "struct", "Polynomial")
    u.spec(POLY_SPEC)
    u.spec(HSD_SPEC)
    u.spec("".join(l.verus_stub() for l in NRA_LEMMAS))
    add_basic(u, names=("evaluate_derivative",))
    u.spec(r"""
pub uninterp spec fn G(t: real) -> real;
// the Newton map of a polynomial
pub open spec fn newton_map(p: Polynomial, g: real) -> real { g - pval(p, g) / hsd(p.coefficients@, 1, g) }
""")
    f = u.fn(RPF, "newton_polynomial")
    f.req("poly.wf()")
    f.ens(
        # an Ok result is a Newton update whose size is within the tolerance
        "res is Ok ==> exists|g: real| #![trigger newton_map(*poly, g)] (hsd(poly.coefficients@, 1, g) != 0real ==> res->Ok_0@ == newton_map(*poly, g)) "
        "&& (hsd(poly.coefficients@, 1, g) != 0real ==> rabs(pval(*poly, g) / hsd(poly.coefficients@, 1, g)) <= tol@)",
        # a polynomial of degree 1 is solved exactly from any start
        "poly.coefficients@.len() == 2 && poly.c(1) != 0real && n_max >= 2 && tol@ >= 0real ==> res is Ok && res->Ok_0@ == (0real - poly.c(0)) / poly.c(1)",
        "n_max == 0 ==> res is Err")
    f.loop(1, invariant=[
        "n <= n_max",
        "poly.coefficients@.len() == 2 && poly.c(1) != 0real && n >= 1 ==> guess@ == (0real - poly.c(0)) / poly.c(1)",
        "poly.coefficients@.len() == 2 && poly.c(1) != 0real && tol@ >= 0real ==> n <= 1",
    ], decreases="n_max - n")
    f.hint("after: let new_guess =", """proof {
        if poly.coefficients@.len() == 2 && poly.c(1) != 0real {
            let s = poly.coefficients@; let g = guess@;
            assert(hs(s, 2, g) == 0real && hsd(s, 2, g) == 0real);
            assert(hs(s, 1, g) == s[1]@ + g * hs(s, 2, g));
            assert(hs(s, 0, g) == s[0]@ + g * hs(s, 1, g));
            assert(hsd(s, 1, g) == hs(s, 1, g) + g * hsd(s, 2, g));
            assert(g * 0real == 0real) by(nonlinear_arith);
            lemma_newton_step_linear(s[0]@, s[1]@, g);
            assert(f_deriv_val@ == s[1]@ && f_val@ == s[0]@ + g * s[1]@);
            if n >= 1 { assert(f_val@ == 0real); assert(0real / s[1]@ == 0real) by(nonlinear_arith) requires s[1]@ != 0real; }
        }
        assert(newton_map(*poly, guess@) == guess@ - pval(*poly, guess@) / hsd(poly.coefficients@, 1, guess@));
    }""")
    g = u.fn(RF, "steffensen")
    g.req("forall|t: R| f.requires((t,))", "forall|t: R, y: R| f.ensures((t,), y) ==> y@ == G(t@)")
    g.ens("n_max == 0 ==> res is Err",
          # a start that already is a fixed point (to the tolerance) is returned instead of dividing 0 by 0
          "n_max >= 1 && rabs(G(initial_0@) - initial_0@) <= tol@ ==> res is Ok && res->Ok_0@ == G(initial_0@)",
          "res is Ok ==> exists|p: real| #![trigger G(p)] (rabs(G(p) - p) <= tol@ && res->Ok_0@ == G(p)) || "
          "(G(G(p)) - 2real * G(p) + p != 0real ==> rabs(res->Ok_0@ - p) <= tol@)")
    g.loop(1, invariant=["n <= n_max", "n == 0 ==> initial == initial_0", "rabs(G(initial_0@) - initial_0@) <= tol@ ==> n == 0"], decreases="n_max - n")
    return u


def system_unit():
    from vx.extract import Config
    c = Config(extra_subst=[("SVector<N, S>", "SV<S>"), ("SVector::<N, S>", "SV::<S>"), ("SMatrix<N, S, S>", "SM<S>"), ("SMatrix::<N, S, S>", "SM::<S>")])
    c.drop_where = c.drop_where + ["Const<S>"]
    u = Unit("C08", "system", preludes=("real", "nalg"), cfg=c)
    u.spec(r"""
// an affine system  F(x) = A (x - r)  with constant Jacobian A
pub uninterp spec fn sys_a() -> int;
pub uninterp spec fn sys_r() -> Seq<real>;
pub uninterp spec fn FV(x: Seq<real>) -> Seq<real>;      // a general (pure) vector function for the finite-difference contract
// res = g - B F(g) for some iterate g and some matrix B, and the update is within the tolerance
// the secant equation of Broyden's method for the (approximate inverse Jacobian) matrix b:  b y == s
pub open spec fn broyden_secant_ok(b: int, y: Seq<real>, s: Seq<real>) -> bool { mv(b, y) == s }
pub open spec fn quasi_update_ok(res: Seq<real>, tol: real) -> bool {
    exists|g: Seq<real>, b: int| #![trigger mv(mneg(b), FV(g))] res == wadd(g, mv(mneg(b), FV(g))) && wnorm(mv(mneg(b), FV(g))) <= tol
}
""")
    f = u.fn(RF, "newton")
    f.req("initial@.len() == S",
          "forall|x: &[R]| x@.len() == S ==> #[trigger] f_0.requires((x,))", "forall|x: &[R]| x@.len() == S ==> #[trigger] jac_0.requires((x,))",
          # the callbacks are an affine system with constant Jacobian
          "forall|x: &[R], y: SV<S>| #[trigger] f_0.ensures((x,), y) ==> y@ == mv(sys_a(), wsub(sl(x), sys_r()))",
          "forall|x: &[R], j: SM<S>| #[trigger] jac_0.ensures((x,), j) ==> j.id@ == sys_a()",
          "sys_r().len() == S")
    f.ens("n_max == 0 ==> res is Err",
          "!nonsingular(sys_a()) && n_max >= 1 ==> res is Err",
          # an affine system with non-singular matrix is solved exactly from ANY start (the origin included)
          "nonsingular(sys_a()) && n_max >= 2 && tol@ >= 0real ==> res is Ok && res->Ok_0@ == sys_r()")
    f.loop(1, invariant=["n <= n_max", "f == f_0 && jac == jac_0", "guess@.len() == S",
                         "nonsingular(sys_a()) && n >= 1 ==> guess@ == sys_r()",
                         "nonsingular(sys_a()) && tol@ >= 0real ==> n <= 1"], decreases="n_max - n")
    f.hint("before: let new_guess =", """proof {
        let x = guess@; let r = sys_r(); let a = sys_a();
        axiom_mv(a, wsub(x, r), adjustment@);
        axiom_mv(a, adjustment@, wneg(wsub(x, r)));
        if nonsingular(a) {
            assert(mv(a, adjustment@) == wneg(mv(a, wsub(x, r))));
            assert(adjustment@ == wneg(wsub(x, r)));
            assert(wadd(x, adjustment@) =~= r);
            if n >= 1 {
                assert(wneg(wsub(x, r)) =~= wzero(S as nat));
                axiom_wnorm(adjustment@);
            }
        }
    }""")
    g = u.fn(RF, "jac_finite_diff")
    g.opt(index_vector=("x", "jac_col"), index_assign=("mat",))
    g.req("old(x)@.len() == S", "h@ != 0real",
          "forall|p: &[R]| p@.len() == S ==> #[trigger] f_0.requires((p,))",
          "forall|p: &[R], y: SV<S>| #[trigger] f_0.ensures((p,), y) ==> y@ == FV(sl(p)) && y@.len() == S")
    ENTRY = ("entry({m}.id@, r, c) == (FV(old(x)@.update(c, old(x)@[c] + h@))[r] - FV(old(x)@.update(c, old(x)@[c] - h@))[r]) * (1real / (2real * h@))")
    g.ens("final(x)@ == old(x)@",
          "forall|r: int, c: int| #![trigger entry(res.id@, r, c)] 0 <= r < S && 0 <= c < S ==> " + ENTRY.format(m="res"))
    g.loop(1, iter="it", invariant=[
        "x@ == old(x)@", "f == f_0", "h@ == h_in@ && h@ != 0real && denom@ == 1real / (2real * h@)",
        "forall|r: int, c: int| #![trigger entry(mat.id@, r, c)] 0 <= r < S && 0 <= c < it.index@ ==> " + ENTRY.format(m="mat")])
    g.loop(2, iter="it2", invariant=[
        "x@ == old(x)@", "col < S", "jac_col@.len() == S",
        "forall|r: int| 0 <= r < S ==> #[trigger] jac_col@[r] == (FV(old(x)@.update(col as int, old(x)@[col as int] + h@))[r] - FV(old(x)@.update(col as int, old(x)@[col as int] - h@))[r]) * (1real / (2real * h@))",
        "forall|r: int, c: int| #![trigger entry(mat.id@, r, c)] 0 <= r < S && (0 <= c < col || (c == col && r < it2.index@)) ==> " + ENTRY.format(m="mat")])
    g.hint("before: let mut mat =", "let ghost h_in = h;")
    g.hint("loop 1 begin", "let ghost x0 = x@; let ghost cv = col as int;")
    g.hint("after: let above =", "proof { assert(x@ =~= x0.update(cv, x0[cv] + h@)); }")
    g.hint("after: let below =", "proof { assert(x@ =~= x0.update(cv, x0[cv] - h@)); }")
    g.hint("before: let jac_col =", "proof { assert(x@ =~= x0); }")
    u.spec(r"""
// m is a central-difference Jacobian of FV at x with width h
pub open spec fn fd_matrix(m: int, x: Seq<real>, h: real, s: int) -> bool {
    forall|r: int, c: int| #![trigger entry(m, r, c)] 0 <= r < s && 0 <= c < s ==>
        entry(m, r, c) == (FV(x.update(c, x[c] + h))[r] - FV(x.update(c, x[c] - h))[r]) * (1real / (2real * h))
}
""")
    s = u.fn(RF, "secant")
    s.opt(add_assign=("guess", "jac_inv"), subst=[(")[(0, 0)]", ").vx_at((0, 0))", "R22-index-read")])
    s.req("initial@.len() == S", "h@ != 0real",
          # every value of the callback's type computes FV (the callback is handed on as `&mut func`, so its state may change)
          "forall|g: F, p: &[R]| p@.len() == S ==> #[trigger] g.requires((p,))",
          "forall|g: F, p: &[R], y: SV<S>| #[trigger] g.ensures((p,), y) ==> y@ == FV(sl(p)) && y@.len() == S")
    s.ens(
        # a singular finite-difference Jacobian is an Err
        "(forall|m: int| fd_matrix(m, sl(initial), h@, S as int) ==> !nonsingular(m)) ==> res is Err",
        # a start exactly on a root is returned (the first update is zero)
        "(forall|m: int| fd_matrix(m, sl(initial), h@, S as int) ==> nonsingular(m)) && FV(sl(initial)) == wzero(S as nat) && tol@ >= 0real "
        "==> res is Ok && res->Ok_0@ == sl(initial)",
        # an Ok result is a quasi-Newton update g - B F(g) of some iterate g (B: the current approximation of the inverse Jacobian, not
        # constrained by this contract) whose SIZE is within the tolerance
        "res is Ok ==> quasi_update_ok(res->Ok_0@, tol@)")
    s.loop(1, invariant=["n <= n_max || n == 2", "guess@.len() == S", "func_eval@.len() == S", "shift@.len() == S",
                          "forall|g: F, p: &[R]| p@.len() == S ==> #[trigger] g.requires((p,))",
                          "forall|g: F, p: &[R], y: SV<S>| #[trigger] g.ensures((p,), y) ==> y@ == FV(sl(p)) && y@.len() == S"], decreases="n_max - n")
    # the Broyden update: after it the approximate inverse Jacobian satisfies the SECANT EQUATION  B (F(x_k) - F(x_{k-1})) = x_k - x_{k-1}
    # (whenever the scalar s^T B y it divides by is not zero)
    s.hint("loop 1 begin", "let ghost b0 = jac_inv.id@; let ghost s0 = shift@;")
    s.hint("after: jac_inv +=", """proof {
        let y = diff@; let by = mv(b0, y);
        axiom_mneg(b0, y);
        assert(adjustment@ == wneg(by));
        axiom_wdot_neg(s0, adjustment@);
        axiom_wdot_neg(s0, by);
        assert(p@ == wdot(s0, by));
        axiom_rowmul(s0, b0, y);
        assert(wdot(u.v@, y) == p@);
        let a = wadd(s0, adjustment@);
        let m1 = mouter(a, u.v@);
        axiom_mouter(a, u.v@, y);
        axiom_madd(b0, mdivs(m1, p@), y);
        if p@ != 0real {
            axiom_mdivs(m1, p@, y);
            let r = mv(jac_inv.id@, y);
            assert(r == wadd(by, wscale(wscale(a, p@), 1real / p@)));
            assert forall|i: int| 0 <= i < s0.len() implies #[trigger] r[i] == s0[i] by {
                let ai = a[i]; let pp = p@;
                assert((ai * pp) * (1real / pp) == ai) by(nonlinear_arith) requires pp != 0real;
            }
            assert(r =~= s0);
            assert(broyden_secant_ok(jac_inv.id@, y, s0));
        }
    }""")
    s.hint("after: #1 guess += &shift", "proof { axiom_wnorm(shift@); if wnorm(shift@) <= tol@ { assert(quasi_update_ok(guess@, tol@)); } }")
    s.hint("after: #2 guess += &shift", "proof { axiom_wnorm(shift@); if wnorm(shift@) <= tol@ { assert(quasi_update_ok(guess@, tol@)); } }")
    s.hint("before: guess +=", """proof {
        axiom_mv_zero(minv(jac.id@), S as nat); axiom_wnorm(shift@);
        if FV(sl(initial)) == wzero(S as nat) { assert(wadd(guess@, shift@) =~= guess@); }
    }""")
    return u


def general_unit():
    """newton on a general (non-affine) system: what an Ok result is."""
    from vx.extract import Config
    c = Config(extra_subst=[("SVector<N, S>", "SV<S>"), ("SVector::<N, S>", "SV::<S>"), ("SMatrix<N, S, S>", "SM<S>"), ("SMatrix::<N, S, S>", "SM::<S>")])
    c.drop_where = c.drop_where + ["Const<S>"]
    u = Unit("C08", "system_general", preludes=("real", "nalg"), cfg=c)
    u.spec(r"""
pub uninterp spec fn FV(x: Seq<real>) -> Seq<real>;      // a general (pure) vector function
pub uninterp spec fn JV(x: Seq<real>) -> int;            // its Jacobian callback (a matrix id)
// res is the Newton update g + a of some iterate g (J(g) a = -F(g)) and the UPDATE a is within the tolerance
pub open spec fn newton_update_ok(res: Seq<real>, tol: real) -> bool {
    exists|g: Seq<real>, a: Seq<real>| #![trigger wadd(g, a)] mv(JV(g), a) == wneg(FV(g)) && res == wadd(g, a) && wnorm(a) <= tol
}
""")
    f = u.fn(RF, "newton")
    f.req("initial@.len() == S",
          "forall|x: &[R]| x@.len() == S ==> #[trigger] f_0.requires((x,))", "forall|x: &[R]| x@.len() == S ==> #[trigger] jac_0.requires((x,))",
          "forall|x: &[R], y: SV<S>| #[trigger] f_0.ensures((x,), y) ==> y@ == FV(sl(x)) && y@.len() == S",
          "forall|x: &[R], j: SM<S>| #[trigger] jac_0.ensures((x,), j) ==> j.id@ == JV(sl(x))")
    f.ens("res is Ok ==> newton_update_ok(res->Ok_0@, tol@)")
    f.loop(1, invariant=["n <= n_max", "f == f_0 && jac == jac_0", "guess@.len() == S"], decreases="n_max - n")
    f.hint("before: let new_guess =", "proof { assert(mv(JV(guess@), adjustment@) == wneg(FV(guess@))); let ghost w = wadd(guess@, adjustment@); }")
    return u


# ---- Muller's method, verified at the complex instantiation N = Complex (shim type C) ----------------------------------------
def _cm(x, y):
    return (f"({x[0]} * {y[0]} - {x[1]} * {y[1]})", f"({x[0]} * {y[1]} + {x[1]} * {y[0]})")


def _ca(x, y):
    return (f"({x[0]} + {y[0]})", f"({x[1]} + {y[1]})")


def _P(n):
    return (n + "0", n + "1")


def _eq(x, y):
    return [f"{x[0]} == {y[0]}", f"{x[1]} == {y[1]}"]


_a, _b, _c, _d, _e, _s, _p, _g, _t, _q = map(_P, "abcdespgtq")
# a p^2 + b p e + c g  (p = s e, g = e^2): the parabola's value at s, multiplied by e^2
_RHS = _ca(_ca(_cm(_a, _cm(_p, _p)), _cm(_cm(_b, _p), _e)), _cm(_c, _g))
_V = lambda names: [n + i for n in names for i in "01"]
# complex numbers as pairs of reals; every hypothesis is one complex equation split into its two real components
L_ZD = nra.Lemma("lemma_no_zero_divisors", _V("tg"), _eq(_cm(_t, _g), ("0", "0")) + ["g0 != 0 or g1 != 0"], "t0 == 0 and t1 == 0",
                 note="the complex numbers have no zero divisors: t g = 0 and g != 0 imply t = 0")
L_EXP = nra.Lemma("lemma_parabola_times_esq", _V("abcespgtq"), _eq(_p, _cm(_s, _e)) + _eq(_g, _cm(_e, _e)) + _eq(_q, _cm(_s, _s)) + _eq(_t, _ca(_ca(_cm(_a, _q), _cm(_b, _s)), _c)),
                  f"{_cm(_t, _g)[0]} == {_RHS[0]} and {_cm(_t, _g)[1]} == {_RHS[1]}",
                  note="ring identity: (a s^2 + b s + c) e^2 = a (s e)^2 + b (s e) e + c e^2")


def _vanish(sign, name):
    e_def = ((f"(b0 {sign} d0)"), (f"(b1 {sign} d1)"))
    four_ca = _cm(_c, _a)
    dd, bb = _cm(_d, _d), _cm(_b, _b)
    hyps = (_eq(_e, e_def) + _eq(_p, ("(0 - 2 * c0)", "(0 - 2 * c1)")) + _eq(_g, _cm(_e, _e))
            + [f"{dd[0]} == {bb[0]} - 4 * {four_ca[0]}", f"{dd[1]} == {bb[1]} - 4 * {four_ca[1]}"])
    return nra.Lemma(name, _V("abcdepg"), hyps, f"{_RHS[0]} == 0 and {_RHS[1]} == 0",
                     note=f"with s e = -2c, e = b {sign} d and d^2 = b^2 - 4ca:  a (s e)^2 + b (s e) e + c e^2 = c (4ac - b^2 + d^2) = 0")


L_VP, L_VM = _vanish("+", "lemma_parabola_vanishes_plus"), _vanish("-", "lemma_parabola_vanishes_minus")
MULLER_LEMMAS = [L_ZD, L_EXP, L_VP, L_VM]

MULLER_SPEC = r'''
pub open spec fn cs(p: Polynomial) -> Seq<(real, real)> { Seq::new(p.coefficients@.len(), |i: int| p.coefficients@[i]@) }
impl Polynomial { pub open spec fn wf(&self) -> bool { self.coefficients@.len() >= 1 } }
pub open spec fn chs(s: Seq<(real, real)>, j: int, x: (real, real)) -> (real, real) decreases s.len() - j {
    if j < 0 || j >= s.len() { czero() } else { cadd(s[j], cmul(x, chs(s, j + 1, x))) }
}
// the value of the polynomial with coefficient sequence s at x
pub open spec fn pval(s: Seq<(real, real)>, x: (real, real)) -> (real, real) { chs(s, 0, x) }
// callees: CONTRACTS ONLY (make_complex is proved in C14, evaluate = Horner value in C13)
impl Polynomial {
    #[verifier::external_body]
    pub fn make_complex(&self) -> (r: Polynomial) requires self.wf() ensures r.wf(), cs(r) == cs(*self) { unimplemented!() }
    #[verifier::external_body]
    pub fn evaluate(&self, x: C) -> (r: C) requires self.wf() ensures r@ == pval(cs(*self), x@) { unimplemented!() }
}
// ---- one Muller step from the three latest iterates x0, x1, x2: divided differences, the parabola's coefficients, the step ----
pub open spec fn m_d1(s: Seq<(real, real)>, x0: (real, real), x1: (real, real)) -> (real, real) { cdiv(csub(pval(s, x1), pval(s, x0)), csub(x1, x0)) }
pub open spec fn m_a(s: Seq<(real, real)>, x0: (real, real), x1: (real, real), x2: (real, real)) -> (real, real) {
    cdiv(csub(m_d1(s, x1, x2), m_d1(s, x0, x1)), cadd(csub(x2, x1), csub(x1, x0)))
}
pub open spec fn m_b(s: Seq<(real, real)>, x0: (real, real), x1: (real, real), x2: (real, real)) -> (real, real) {
    cadd(m_d1(s, x1, x2), cmul(csub(x2, x1), m_a(s, x0, x1, x2)))
}
pub open spec fn m_disc(s: Seq<(real, real)>, x0: (real, real), x1: (real, real), x2: (real, real)) -> (real, real) {
    let b = m_b(s, x0, x1, x2);
    csqrt(csub(cmul(b, b), cmul(cmul((4real, 0real), pval(s, x2)), m_a(s, x0, x1, x2))))
}
// the denominator of larger modulus
pub open spec fn m_den(s: Seq<(real, real)>, x0: (real, real), x1: (real, real), x2: (real, real)) -> (real, real) {
    let b = m_b(s, x0, x1, x2); let d = m_disc(s, x0, x1, x2);
    if cabs(csub(b, d)) < cabs(cadd(b, d)) { cadd(b, d) } else { csub(b, d) }
}
pub open spec fn m_step(s: Seq<(real, real)>, x0: (real, real), x1: (real, real), x2: (real, real)) -> (real, real) {
    cdiv(cmul((-2real, 0real), pval(s, x2)), m_den(s, x0, x1, x2))
}
// C08: the step is a root of the parabola  a h^2 + b h + c  (c = P(x2)) whenever its denominator is not zero; that parabola
// interpolates P at x2 (h = 0) by construction
pub proof fn lemma_muller_step(s: Seq<(real, real)>, x0: (real, real), x1: (real, real), x2: (real, real))
    requires m_den(s, x0, x1, x2) != czero()
    ensures ({ let h = m_step(s, x0, x1, x2); cadd(cadd(cmul(m_a(s, x0, x1, x2), cmul(h, h)), cmul(m_b(s, x0, x1, x2), h)), pval(s, x2)) == czero() })
{
    let a = m_a(s, x0, x1, x2); let b = m_b(s, x0, x1, x2); let c = pval(s, x2); let d = m_disc(s, x0, x1, x2); let e = m_den(s, x0, x1, x2);
    let h = m_step(s, x0, x1, x2);
    let z = csub(cmul(b, b), cmul(cmul((4real, 0real), c), a));
    axiom_csqrt(z);
    assert(cmul(d, d) == z);
    let num = cmul((-2real, 0real), c);
    axiom_cdiv(num, e);
    let p = cmul(h, e); let g = cmul(e, e); let q = cmul(h, h);
    let t = cadd(cadd(cmul(a, q), cmul(b, h)), c);
    assert(p == num && num == (-2real * c.0, -2real * c.1));
    // the discriminant, flattened:  d d == b b - 4 (c a)
    assert(cmul((4real, 0real), c) == (4real * c.0, 4real * c.1));
    assert(cmul(cmul((4real, 0real), c), a) == ((4real * c.0) * a.0 - (4real * c.1) * a.1, (4real * c.0) * a.1 + (4real * c.1) * a.0));
    assert((4real * c.0) * a.0 == 4real * (c.0 * a.0)) by(nonlinear_arith);
    assert((4real * c.1) * a.1 == 4real * (c.1 * a.1)) by(nonlinear_arith);
    assert((4real * c.0) * a.1 == 4real * (c.0 * a.1)) by(nonlinear_arith);
    assert((4real * c.1) * a.0 == 4real * (c.1 * a.0)) by(nonlinear_arith);
    assert(cmul(d, d) == (d.0 * d.0 - d.1 * d.1, d.0 * d.1 + d.1 * d.0));
    assert(cmul(b, b) == (b.0 * b.0 - b.1 * b.1, b.0 * b.1 + b.1 * b.0));
    assert(cmul(c, a) == (c.0 * a.0 - c.1 * a.1, c.0 * a.1 + c.1 * a.0));
    // definitions, flattened
    assert(p == (h.0 * e.0 - h.1 * e.1, h.0 * e.1 + h.1 * e.0));
    assert(g == (e.0 * e.0 - e.1 * e.1, e.0 * e.1 + e.1 * e.0));
    assert(q == (h.0 * h.0 - h.1 * h.1, h.0 * h.1 + h.1 * h.0));
    assert(cmul(a, q) == (a.0 * q.0 - a.1 * q.1, a.0 * q.1 + a.1 * q.0));
    assert(cmul(b, h) == (b.0 * h.0 - b.1 * h.1, b.0 * h.1 + b.1 * h.0));
    lemma_parabola_times_esq(a.0, a.1, b.0, b.1, c.0, c.1, e.0, e.1, h.0, h.1, p.0, p.1, g.0, g.1, t.0, t.1, q.0, q.1);
    if cabs(csub(b, d)) < cabs(cadd(b, d)) { lemma_parabola_vanishes_plus(a.0, a.1, b.0, b.1, c.0, c.1, d.0, d.1, e.0, e.1, p.0, p.1, g.0, g.1); }
    else { lemma_parabola_vanishes_minus(a.0, a.1, b.0, b.1, c.0, c.1, d.0, d.1, e.0, e.1, p.0, p.1, g.0, g.1); }
    // e != 0 ==> e e != 0 ==> t == 0
    if g == czero() { lemma_no_zero_divisors(e.0, e.1, e.0, e.1); assert(false); }
    lemma_no_zero_divisors(t.0, t.1, g.0, g.1);
    assert(t == czero());
}
// what an Ok result is: the last iterate plus a Muller step of modulus <= tol, taken from three iterates of which consecutive ones differ
pub open spec fn muller_result(s: Seq<(real, real)>, p: (real, real), tol: real) -> bool {
    exists|x0: (real, real), x1: (real, real), x2: (real, real)| #![trigger m_step(s, x0, x1, x2)] x0 != x1 && x1 != x2 && p == cadd(x2, m_step(s, x0, x1, x2)) && cabs(m_step(s, x0, x1, x2)) <= tol
}
'''


def muller_cfg():
    from vx.extract import Config
    c = Config(type_subst=[("Polynomial<Complex<<N as ComplexField>::RealField>>", "Polynomial"), ("Polynomial<Complex<N::RealField>>", "Polynomial"),
                           ("Complex<<N as ComplexField>::RealField>", "C"), ("Complex::<<N as ComplexField>::RealField>", "C"),
                           ("Complex<N::RealField>", "C"), ("Complex::<N::RealField>", "C"),
                           ("<N as ComplexField>::RealField", "R"), ("N::RealField", "R"),
                           ("Polynomial<N>", "Polynomial"), ("Polynomial::<N>", "Polynomial"),
                           ("N", "C"), ("f64", "R")])
    return c


def muller_unit():
    u = Unit("C08", "muller", preludes=("real", "stdx", "cx", "cxdivt"), cfg=muller_cfg())
    u.crate_attrs = []
    u.item("src/polynomial/mod.rs", "struct", "Polynomial")
    u.spec("".join(l.verus_stub() for l in MULLER_LEMMAS))
    u.spec(MULLER_SPEC)
    f = u.fn("src/roots/polynomial.rs", "muller_polynomial")
    # three starting points, consecutive ones distinct (the third is compared by its real part: the code builds it from initial.2's real
    # and initial.1's imaginary part)
    f.req("poly.wf()", "tol@ >= 0real", "initial.0@ != initial.1@", "initial.1@.0 != initial.2@.0")
    f.ens(# an Ok result is the last iterate plus a Muller step (computed from the three latest iterates) of modulus <= tol;
          # lemma_muller_step: that step is a root of the interpolating parabola
          "res is Ok ==> muller_result(cs(*poly), res->Ok_0@, tol@)",
          # the iteration is capped
          "n_max == 0 ==> res is Err")
    X = "cs(*vx_p0)"
    f.hint("begin", "let ghost vx_p0 = poly;")
    f.loop(1, invariant=[
        "n <= n_max", "poly.wf()", f"cs(poly) == {X}",
        "h_1@ == csub(poly_1@, poly_0@)", "h_2@ == csub(poly_2@, poly_1@)",
        f"poly_2_evaluated@ == pval({X}, poly_2@)",
        f"delta_1@ == m_d1({X}, poly_0@, poly_1@)", f"delta_2@ == m_d1({X}, poly_1@, poly_2@)",
        f"delta@ == m_a({X}, poly_0@, poly_1@, poly_2@)",
        "negtwo@ == -2real && four@ == 4real", "tol@ >= 0real", "poly_0@ != poly_1@ && poly_1@ != poly_2@"],
        decreases="n_max - n")
    f.hint("before: if step.abs() <= tol", f"proof {{ assert(step@ == m_step({X}, poly_0@, poly_1@, poly_2@)); axiom_cabs(step@); }}")
    return u


def units(ctx):
    return [scalar_unit(), system_unit(), general_unit(), muller_unit()]


DECIDED = [
    "newton (systems, general callbacks F and J): an Ok result is a Newton update g + a with J(g) a = -F(g) whose SIZE |a| is within the tolerance (convergence is not declared from a change of norms)",
    "newton (systems): the callbacks being an affine system A(x-r) with constant Jacobian A: non-singular A and n_max >= 2 -> Ok(r) exactly, from ANY start (origin included); singular A -> Err (LU solve gives None); n_max == 0 -> Err; the loop is bounded by n_max (decreases n_max - n)",
    "jac_finite_diff: entry (r, c) of the result is (F(x + h e_c)_r - F(x - h e_c)_r) / (2h) for every r, c -- a subtraction, not a sum -- and x is restored",
    "secant: an Ok result is a quasi-Newton update g - B F(g) of the current iterate (F evaluated AT that iterate) whose size is within the tolerance, at the first step and in the Broyden loop",
    "secant: after every Broyden (Sherman-Morrison) update the approximate inverse Jacobian B satisfies the secant equation B (F(x_k) - F(x_{k-1})) = x_k - x_{k-1} (whenever the scalar s^T B y it divides by is not zero)",
    "secant: a singular finite-difference Jacobian -> Err; a start exactly on a root (F(x0) = 0) with a non-singular finite-difference Jacobian is returned as Ok(x0); loop bounded by n_max",
    "newton_polynomial: an Ok result is a Newton update g - p(g)/p'(g) whose size |p(g)/p'(g)| is within the tolerance (not a difference of norms); a polynomial of degree 1 is solved exactly from any start in one update (n_max >= 2); n_max == 0 -> Err; bounded by n_max",
    "muller_polynomial (unit muller, complex instantiation): an Ok result is x2 + s where (x0, x1, x2) are the three latest iterates (consecutive ones distinct), s is the Muller step computed from them -- "
    "divided differences d1, d2, second difference a, b = d2 + (x2 - x1) a, denominator b +- sqrt(b^2 - 4 P(x2) a) of larger modulus, s = -2 P(x2) / denominator -- and |s| <= tol; "
    "lemma_muller_step (Verus + four NRA lemmas over pairs of reals): whenever the denominator is not zero, s is a root of the interpolating parabola a h^2 + b h + P(x2); n_max == 0 -> Err; bounded by n_max",
    "steffensen: n_max == 0 -> Err; a start that is a fixed point to the tolerance is returned as Ok instead of dividing 0 by 0; an Ok result is either G(p) with |G(p) - p| <= tol or within tol of the previous iterate; bounded by n_max",
]
NOT_DECIDED = [
    "convergence on NON-affine systems from a start inside the convergence region (quadratic convergence is an analytic statement about a neighbourhood; no contract over exact reals expresses 'inside the convergence region')",
    "secant: that the Broyden iteration converges (the secant equation is decided per update, not the quality of B as an approximation of the inverse Jacobian)",
    "muller_polynomial: that the iteration converges and the returned number is a root of the POLYNOMIAL to a residual bound (analytic); division by a vanishing denominator (b +- d == 0, or the new iterate "
    "coinciding with the one before last) is not excluded -- the contract then says nothing about that step (complex division is total in this unit, its value at 0 unspecified); "
    "the real instantiation N = f64 (verified at N = Complex, where initial.k.real()/imaginary() are the components). Observation, not a violation of C08: the third starting value is built from "
    "initial.2's real part and initial.1's IMAGINARY part (src/roots/polynomial.rs:102); the contract does not constrain the starting values",
    "steffensen converging on a contraction to its fixed point; tolerances near machine precision (exact reals)",
    "NaN / panic freedom in floating point",
]
ASSUMPTIONS = [
    "nalgebra shims (prelude/nalg.rs): SVector/SMatrix/LU are ghost-valued; LU::solve returns Some(x) with A x = b exactly for non-singular A, LU::try_inverse likewise; trusted axioms axiom_mv (injectivity and oddness of x -> A x for non-singular A), axiom_mv_zero (A 0 = 0), axiom_wnorm (norm 0 <=> zero vector, norm >= 0)",
    "callbacks are pure functions of their argument (FnMut verified through requires/ensures; for secant every value of the callback type computes the same function, since `&mut func` is handed to jac_finite_diff)",
    "rule R25: `fn(N) -> N` is verified as `impl Fn(R) -> R`",
    "rules R22/R22b/R22c: m[(i,j)] = e, v[i] += e, v[i] reads and v += e on nalgebra values are spelled as shim method calls",
    "secant's Broyden update: row vectors carry their entries; s^T M, a u^T, M / p, A + B on abstract matrices are uninterpreted and tied to the matrix-vector product by six trusted identities of matrix algebra (prelude/nalg.rs: axiom_rowmul, axiom_mouter, axiom_mdivs, axiom_madd, axiom_mneg, axiom_wdot_neg)",
    "side lemma lemma_newton_step_linear discharged by z3/cvc5 (NRA) and used as an external_body proof fn",
    "muller: prelude/cx.rs + cxdivt.rs (complex numbers as exact pairs; division total, specified for non-zero divisors only; sqrt by what it inverts); Polynomial::make_complex / evaluate as contracts only "
    "(proved in C14 / C13); NRA lemmas lemma_no_zero_divisors, lemma_parabola_times_esq, lemma_parabola_vanishes_plus/minus discharged by z3 (cvc5, z3 5.1 in the thorough tier)",
]
