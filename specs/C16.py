"""C16 -- cubic splines (src/interp/spline.rs)."""
from vx.unit import Unit
from vx import nra
from specs_polycommon import *

SPF = "src/interp/spline.rs"

# ---- NRA lemmas: local algebra of the spline equations (one index at a time, no induction) -----------------
L_INTERP = nra.Lemma("lemma_piece_hits_next_knot", ["y0", "y1", "h", "c0", "c1", "b", "d"],
                     ["h != 0", "b == (y1 - y0) / h - h * (c1 + 2 * c0) * (1 / 3)", "d == (c1 - c0) / (3 * h)"],
                     "((h * d + c0) * h + b) * h + y0 == y1",
                     note="S_i(x_{i+1}) = y_{i+1} from the formulas for b_i and d_i")
L_C2 = nra.Lemma("lemma_second_derivative_continuous", ["h", "c0", "c1", "d"], ["h != 0", "d == (c1 - c0) / (3 * h)"],
                 "2 * c0 + 6 * d * h == 2 * c1", note="S_i''(x_{i+1}) = S_{i+1}''(x_{i+1})")
# row i of the tridiagonal system from the Thomas sweep relations
L_ROW = nra.Lemma("lemma_thomas_row", ["hm", "h", "zm", "mum", "l", "mu", "z", "al", "cm", "c", "cp"],
                  ["l != 0", "l == 2 * (hm + h) - hm * mum", "mu == h / l", "z == (al - hm * zm) / l", "cm == zm - mum * c", "c == z - mu * cp"],
                  "hm * cm + 2 * (hm + h) * c + h * cp == al",
                  note="forward elimination + back substitution satisfy row i: h_{i-1} c_{i-1} + 2(h_{i-1}+h_i) c_i + h_i c_{i+1} = alpha_i")
# C1 at an interior knot follows from row i and the formulas for b, d
L_C1 = nra.Lemma("lemma_first_derivative_continuous", ["hm", "h", "ym", "y", "yp", "cm", "c", "cp", "bm", "b", "dm", "al"],
                 ["hm != 0", "h != 0", "al == (3 / h) * (yp - y) - (3 / hm) * (y - ym)", "hm * cm + 2 * (hm + h) * c + h * cp == al",
                  "bm == (y - ym) / hm - hm * (c + 2 * cm) * (1 / 3)", "b == (yp - y) / h - h * (cp + 2 * c) * (1 / 3)", "dm == (c - cm) / (3 * hm)"],
                 "bm + 2 * cm * hm + 3 * dm * hm * hm == b", note="S_{i-1}'(x_i) = S_i'(x_i)")
L_DIAG = nra.Lemma("lemma_thomas_pivot_positive", ["hm", "h", "mum", "l"],
                   ["hm > 0", "h > 0", "0 <= mum", "mum <= 1 / 2", "l == 2 * (hm + h) - hm * mum"],
                   "l > 0 and 0 <= h / l and h / l <= 1 / 2", note="diagonal dominance keeps every pivot positive and mu in [0, 1/2]")
L_CL0 = nra.Lemma("lemma_clamped_start", ["h", "y0", "y1", "f0", "c0", "c1", "b0", "al", "l", "z"],
                  ["h != 0", "al == 3 * ((y1 - y0) / h - f0)", "l == 2 * h", "z == al / l", "c0 == z - (1 / 2) * c1",
                   "b0 == (y1 - y0) / h - h * (c1 + 2 * c0) * (1 / 3)"],
                  "b0 == f0", note="clamped: S_0'(x_0) = f_0")
L_CLN = nra.Lemma("lemma_clamped_end", ["h", "ym", "y", "fq", "cm", "c", "bm", "dm", "al", "l", "zm", "mum", "z"],
                  ["h != 0", "l != 0", "al == 3 * (fq - (y - ym) / h)", "l == h * (2 - mum)", "z == (al - h * zm) / l", "c == z", "cm == zm - mum * c",
                   "bm == (y - ym) / h - h * (c + 2 * cm) * (1 / 3)", "dm == (c - cm) / (3 * h)"],
                  "bm + 2 * cm * h + 3 * dm * h * h == fq", note="clamped: S_{n-1}'(x_n) = f_n")
L_LF = nra.Lemma("lemma_lf_step", ["am", "aj", "b0", "b1", "x", "t"], [],
                "am * b1 + aj * b0 + x * (aj * b1 + (b1 * x + b0) * t) == am * b1 + (b1 * x + b0) * (aj + x * t)",
                note="one Horner step of a product by a linear factor")
L_NA = nra.Lemma("lemma_alpha_forms", ["h", "hm", "dy", "dym"], ["h != 0", "hm != 0"],
                "3 * (dy / h - dym / hm) == (3 / h) * dy - (3 / hm) * dym", note="the two spellings of alpha_i in spline_free / spline_clamped agree")
L_NB = nra.Lemma("lemma_b_forms", ["h", "q", "s"], [], "q - h * (1 / 3) * s == q - h * s * (1 / 3)", note="the two spellings of b_i agree")
NRA_LEMMAS = [L_NA, L_NB, L_LF, L_INTERP, L_C2, L_ROW, L_C1, L_DIAG, L_CL0, L_CLN]


def extra_obligations(ctx):
    return nra.run_lemmas("C16", "spline", NRA_LEMMAS, ctx)


SPLINE_SPEC = r'''
// value lemmas for the Horner assembly of a piece through Polynomial operators
pub proof fn lemma_hs_scaled(r: Seq<R>, a: Seq<R>, s: real, j: int, x: real)
    requires r.len() == a.len(), 0 <= j <= a.len(), forall|k: int| 0 <= k < a.len() ==> #[trigger] r[k]@ == a[k]@ * s
    ensures hs(r, j, x) == hs(a, j, x) * s
    decreases a.len() - j
{
    if j < a.len() {
        lemma_hs_scaled(r, a, s, j + 1, x);
        let t = hs(a, j + 1, x);
        assert((a[j]@ + x * t) * s == a[j]@ * s + x * (t * s)) by(nonlinear_arith);
    } else { assert(0real * s == 0real) by(nonlinear_arith); }
}
// r = a * (b0 + b1 x):  r_k = a_{k-1} b1 + a_k b0
pub proof fn lemma_hs_linear_factor(r: Seq<R>, a: Seq<R>, b0: real, b1: real, j: int, x: real)
    requires r.len() == a.len() + 1, 0 <= j <= r.len(), forall|k: int| #![trigger coef(r, k)] coef(r, k) == coef(a, k - 1) * b1 + coef(a, k) * b0
    ensures hs(r, j, x) == coef(a, j - 1) * b1 + (b1 * x + b0) * hs(a, j, x)
    decreases r.len() - j
{
    if j < r.len() {
        lemma_hs_linear_factor(r, a, b0, b1, j + 1, x);
        let am = coef(a, j - 1); let aj = coef(a, j); let t = hs(a, j + 1, x);
        assert(coef(r, j) == am * b1 + aj * b0);
        assert(hs(a, j, x) == aj + x * t) by { if j >= a.len() { assert(hs(a, j, x) == 0real); assert(hs(a, j + 1, x) == 0real); assert(x * 0real == 0real) by(nonlinear_arith); } }
        lemma_lf_step(am, aj, b0, b1, x, t);
    } else {
        assert(coef(a, j - 1) * b1 == 0real) by { assert(coef(r, j) == 0real); assert(coef(a, j) == 0real); assert(0real * b0 == 0real) by(nonlinear_arith); }
        assert((b1 * x + b0) * 0real == 0real) by(nonlinear_arith);
    }
}
pub open spec fn cubic(a: real, b: real, c: real, d: real, t: real) -> real { ((t * d + c) * t + b) * t + a }
pub proof fn lemma_hs_ext(r: Seq<R>, a: Seq<R>, j: int, x: real)
    requires r.len() == a.len(), 0 <= j, forall|k: int| j <= k < a.len() ==> #[trigger] r[k]@ == a[k]@
    ensures hs(r, j, x) == hs(a, j, x)
    decreases a.len() - j
{ if j < a.len() { lemma_hs_ext(r, a, j + 1, x); } }
pub open spec fn is_linear_term(t: Polynomial, xi: real) -> bool { t.coefficients@.len() == 2 && t.coefficients@[0]@ == -xi && t.coefficients@[1]@ == 1real }
pub proof fn lemma_term_value(t: Polynomial, xi: real, x: real)
    requires is_linear_term(t, xi)
    ensures pval(t, x) == x - xi
{
    let s = t.coefficients@;
    assert(hs(s, 2, x) == 0real);
    assert(hs(s, 1, x) == s[1]@ + x * hs(s, 2, x));
    assert(hs(s, 0, x) == s[0]@ + x * hs(s, 1, x));
    assert(x * 0real == 0real && x * 1real == x) by(nonlinear_arith);
}
pub proof fn lemma_pval_scaled(r: Polynomial, a: Polynomial, s: real, x: real)
    requires is_scaled(r, a, s)
    ensures pval(r, x) == pval(a, x) * s
{ lemma_hs_scaled(r.coefficients@, a.coefficients@, s, 0, x); }
pub proof fn lemma_pval_shift0(r: Polynomial, a: Polynomial, d: real, x: real)
    requires is_shift0(r, a, d), a.wf()
    ensures pval(r, x) == pval(a, x) + d
{
    let rs = r.coefficients@; let az = a.coefficients@;
    assert forall|k: int| 1 <= k < az.len() implies #[trigger] rs[k]@ == az[k]@ by { assert(coef(rs, k) == coef(az, k)); }
    lemma_hs_ext(rs, az, 1, x);
    assert(hs(rs, 0, x) == rs[0]@ + x * hs(rs, 1, x));
    assert(hs(az, 0, x) == az[0]@ + x * hs(az, 1, x));
    assert(coef(rs, 0) == coef(az, 0) + d);
}
pub proof fn lemma_pval_times_term(r: Polynomial, a: Polynomial, t: Polynomial, xi: real, x: real)
    requires is_product_exact(r, a, t), is_linear_term(t, xi), a.coefficients@.len() >= 2
    ensures pval(r, x) == pval(a, x) * (x - xi)
{
    let rs = r.coefficients@; let az = a.coefficients@; let ts = t.coefficients@;
    assert(prod_exact(rs, az, ts));
    assert forall|k: int| #![trigger coef(rs, k)] coef(rs, k) == coef(az, k - 1) * 1real + coef(az, k) * (-xi) by {
        assert(coef(rs, k) == coef(az, k - 1) * ts[1]@ + coef(az, k) * ts[0]@);
    }
    lemma_hs_linear_factor(rs, az, -xi, 1real, 0, x);
    let v = hs(az, 0, x);
    assert(coef(az, -1) * 1real + (1real * x + (-xi)) * v == v * (x - xi)) by(nonlinear_arith) requires coef(az, -1) == 0real;
}
// what the constructors promise: knots, pieces and the coefficient arrays behind them
pub open spec fn spline_shape(s: CubicSpline, xs: Seq<R>, ys: Seq<R>, b: Seq<real>, c: Seq<real>, d: Seq<real>) -> bool {
    let m = xs.len() - 1;
    s.cubics@.len() == m && s.ranges@.len() == m && b.len() == xs.len() && c.len() == xs.len() && d.len() == xs.len()
    && (forall|i: int| 0 <= i < m ==> (#[trigger] s.ranges@[i]).0 == xs[i] && s.ranges@[i].1 == xs[i + 1])
    // piece i is  y_i + b_i (x - x_i) + c_i (x - x_i)^2 + d_i (x - x_i)^3  as a polynomial function
    && (forall|i: int, x: real| 0 <= i < m ==> #[trigger] pval(s.cubics@[i], x) == cubic(ys[i]@, b[i], c[i], d[i], x - xs[i]@))
}
// interpolation and C2 at the knots, expressed on the piece coefficients (h_i = x_{i+1} - x_i)
pub open spec fn spline_smooth(xs: Seq<R>, ys: Seq<R>, b: Seq<real>, c: Seq<real>, d: Seq<real>) -> bool {
    let m = xs.len() - 1;
    (forall|i: int| 0 <= i < m ==> #[trigger] cubic(ys[i]@, b[i], c[i], d[i], xs[i + 1]@ - xs[i]@) == ys[i + 1]@)
    && (forall|i: int| 0 <= i < m ==> 2real * #[trigger] c[i] + 6real * d[i] * (xs[i + 1]@ - xs[i]@) == 2real * c[i + 1])
    && (forall|i: int| 0 <= i < m - 1 ==> #[trigger] b[i] + 2real * c[i] * (xs[i + 1]@ - xs[i]@) + 3real * d[i] * (xs[i + 1]@ - xs[i]@) * (xs[i + 1]@ - xs[i]@) == b[i + 1])
}
// a free (natural) spline: some coefficient arrays describe the pieces, are smooth at the knots, and S''(x_0) = S''(x_n) = 0
pub open spec fn free_spline_ok(s: CubicSpline, xs: Seq<R>, ys: Seq<R>) -> bool {
    exists|b: Seq<real>, c: Seq<real>, d: Seq<real>| #![trigger spline_shape(s, xs, ys, b, c, d)]
        spline_shape(s, xs, ys, b, c, d) && spline_smooth(xs, ys, b, c, d) && c[0] == 0real && c[xs.len() - 1] == 0real
}
pub open spec fn strictly_increasing(xs: Seq<R>) -> bool { forall|i: int| 0 <= i < xs.len() - 1 ==> #[trigger] xs[i]@ < xs[i + 1]@ }
pub open spec fn some_decrease(xs: Seq<R>) -> bool { exists|i: int| 0 <= i < xs.len() - 1 && #[trigger] xs[i]@ > xs[i + 1]@ }
'''


def units(ctx):
    c = cfg()
    c.type_subst = [(["CubicSpline", "<", "N", ">"], "CubicSpline")] + c.type_subst
    u = Unit("C16", "spline", preludes=("real", "stdx"), cfg=c)
    u.rlimit = 100
    u.timeout = 600
    all_ops(u)
    u.spec(HSD_SPEC)
    add_basic(u, names=("new", "from_slice", "evaluate", "evaluate_derivative"))
    im = u.impl(PFILE, "Polynomial<N>", header="impl Polynomial")
    f = im.fn("set_tolerance")
    f.ens("tolerance@ < 0real ==> res is Err", "res is Ok ==> final(self).tolerance == tolerance && final(self).coefficients == old(self).coefficients",
          "tolerance@ > 0real ==> res is Ok")
    u.item(SPF, "struct", "CubicSpline")
    u.spec("".join(l.verus_stub() for l in NRA_LEMMAS) + SPLINE_SPEC)
    # ---- evaluation: piece lookup by closed range
    im = u.impl(SPF, "CubicSpline<N>", header="impl CubicSpline")
    for name, ret in (("evaluate", "res->Ok_0@ == pval(self.cubics@[i], x@)"),
                      ("evaluate_derivative", "res->Ok_0.0@ == pval(self.cubics@[i], x@) && res->Ok_0.1@ == hsd(self.cubics@[i].coefficients@, 1, x@)")):
        f = im.fn(name)
        f.req("self.cubics@.len() == self.ranges@.len()", "self.ranges@.len() < usize::MAX", "forall|i: int| 0 <= i < self.cubics@.len() ==> (#[trigger] self.cubics@[i]).wf()")
        f.ens("self.cubics@.len() == 0 ==> res is Err",
              "(forall|i: int| 0 <= i < self.ranges@.len() ==> !((#[trigger] self.ranges@[i]).0@ <= x@ <= self.ranges@[i].1@)) ==> res is Err",
              "res is Ok ==> exists|i: int| 0 <= i < self.ranges@.len() && (#[trigger] self.ranges@[i]).0@ <= x@ <= self.ranges@[i].1@ && " + ret)
        f.opt(subst=[('format!("CubicSpline evaluate: {} outside of range", x)', '"CubicSpline evaluate: outside of range".to_owned()', "R23-format-error-text")])
        f.loop(1, iter="it", invariant=[
            "ind == it.index@", "it.index@ <= self.ranges@.len()",
            "forall|k: int| 0 <= k < it.index@ ==> !((#[trigger] self.ranges@[k]).0@ <= x@ <= self.ranges@[k].1@)",
            "forall|k: int| 0 <= k < it.history@.len() ==> *it.history@[k] == self.ranges@[k]",
        ])
    spline_free(u)
    spline_clamped(u)
    return [u]


SI = "strictly_increasing(xs@)"

REL_SPEC = r"""
// ---- the defining relations of the arrays built by the spline constructors (h_k = x_{k+1} - x_k)
pub open spec fn hs_rel(xs: Seq<R>, hs: Seq<R>, n: int) -> bool { forall|k: int| 0 <= k < n ==> #[trigger] hs[k]@ == xs[k + 1]@ - xs[k]@ }
pub open spec fn alpha_rel(ys: Seq<R>, hs: Seq<R>, al: Seq<R>, n: int) -> bool {
    forall|k: int| 1 <= k < n ==> #[trigger] al[k]@ == (3real / hs[k]@) * (ys[k + 1]@ - ys[k]@) - (3real / hs[k - 1]@) * (ys[k]@ - ys[k - 1]@)
}
pub open spec fn sweep_rel(xs: Seq<R>, hs: Seq<R>, al: Seq<R>, l: Seq<R>, mu: Seq<R>, z: Seq<R>, n: int) -> bool {
    forall|k: int| 1 <= k < n ==> #[trigger] l[k]@ == 2real * (xs[k + 1]@ - xs[k - 1]@) - hs[k - 1]@ * mu[k - 1]@
        && l[k]@ > 0real && mu[k]@ == hs[k]@ / l[k]@ && 0real <= mu[k]@ <= 0.5real && z[k]@ == (al[k]@ - hs[k - 1]@ * z[k - 1]@) / l[k]@
}
pub open spec fn back_rel(ys: Seq<R>, hs: Seq<R>, z: Seq<R>, mu: Seq<R>, b: Seq<R>, c: Seq<R>, d: Seq<R>, lo: int, m: int) -> bool {
    forall|k: int| lo <= k < m ==> #[trigger] c[k]@ == z[k]@ - mu[k]@ * c[k + 1]@
        && b[k]@ == (ys[k + 1]@ - ys[k]@) / hs[k]@ - hs[k]@ * (c[k + 1]@ + 2real * c[k]@) * (1real / 3real)
        && d[k]@ == (c[k + 1]@ - c[k]@) / (3real * hs[k]@)
}
pub open spec fn rv(s: Seq<R>) -> Seq<real> { Seq::new(s.len(), |k: int| s[k]@) }
// the relations imply interpolation, C1 and C2 at the knots
pub proof fn lemma_relations_give_smooth_spline(xs: Seq<R>, ys: Seq<R>, hs: Seq<R>, al: Seq<R>, l: Seq<R>, mu: Seq<R>, z: Seq<R>, b: Seq<R>, c: Seq<R>, d: Seq<R>)
    requires
        xs.len() >= 2, ys.len() == xs.len(), strictly_increasing(xs), hs.len() == xs.len() - 1, al.len() >= xs.len() - 1,
        l.len() >= xs.len() - 1, mu.len() == xs.len() - 1, z.len() >= xs.len() - 1, b.len() == xs.len(), c.len() == xs.len(), d.len() == xs.len(),
        hs_rel(xs, hs, xs.len() - 1), alpha_rel(ys, hs, al, xs.len() - 1), sweep_rel(xs, hs, al, l, mu, z, xs.len() - 1),
        back_rel(ys, hs, z, mu, b, c, d, 0, xs.len() - 1),
    ensures spline_smooth(xs, ys, rv(b), rv(c), rv(d))
{
    let m = xs.len() - 1;
    let bb = rv(b); let cc = rv(c); let dd = rv(d);
    assert forall|i: int| 0 <= i < m implies #[trigger] cubic(ys[i]@, bb[i], cc[i], dd[i], xs[i + 1]@ - xs[i]@) == ys[i + 1]@ by {
        assert(hs[i]@ == xs[i + 1]@ - xs[i]@ && xs[i]@ < xs[i + 1]@);
        assert(c[i]@ == z[i]@ - mu[i]@ * c[i + 1]@);
        lemma_piece_hits_next_knot(ys[i]@, ys[i + 1]@, hs[i]@, cc[i], cc[i + 1], bb[i], dd[i]);
    }
    assert forall|i: int| 0 <= i < m implies 2real * #[trigger] cc[i] + 6real * dd[i] * (xs[i + 1]@ - xs[i]@) == 2real * cc[i + 1] by {
        assert(hs[i]@ == xs[i + 1]@ - xs[i]@ && xs[i]@ < xs[i + 1]@);
        assert(c[i]@ == z[i]@ - mu[i]@ * c[i + 1]@);
        lemma_second_derivative_continuous(hs[i]@, cc[i], cc[i + 1], dd[i]);
    }
    assert forall|i: int| 0 <= i < m - 1 implies #[trigger] bb[i] + 2real * cc[i] * (xs[i + 1]@ - xs[i]@) + 3real * dd[i] * (xs[i + 1]@ - xs[i]@) * (xs[i + 1]@ - xs[i]@) == bb[i + 1] by {
        let j = i + 1;
        assert(hs[i]@ == xs[i + 1]@ - xs[i]@ && hs[j]@ == xs[j + 1]@ - xs[j]@ && xs[i]@ < xs[i + 1]@ && xs[j]@ < xs[j + 1]@);
        assert(c[i]@ == z[i]@ - mu[i]@ * c[i + 1]@ && c[j]@ == z[j]@ - mu[j]@ * c[j + 1]@);
        assert(l[j]@ == 2real * (xs[j + 1]@ - xs[j - 1]@) - hs[j - 1]@ * mu[j - 1]@);
        assert(al[j]@ == (3real / hs[j]@) * (ys[j + 1]@ - ys[j]@) - (3real / hs[j - 1]@) * (ys[j]@ - ys[j - 1]@));
        lemma_thomas_row(hs[i]@, hs[j]@, z[i]@, mu[i]@, l[j]@, mu[j]@, z[j]@, al[j]@, cc[i], cc[j], cc[j + 1]);
        lemma_first_derivative_continuous(hs[i]@, hs[j]@, ys[i]@, ys[j]@, ys[j + 1]@, cc[i], cc[j], cc[j + 1], bb[i], bb[j], dd[i], al[j]@);
    }
}
"""


def spline_free(u):
    u.spec(REL_SPEC)
    f = u.fn(SPF, "spline_free")
    f.attrs = []          # default loop isolation: every loop is verified from its own invariants (the function is long)
    f.req("xs@.len() < usize::MAX / 2", "tol@ > 0real")
    f.ens("xs@.len() != ys@.len() ==> res is Err", "xs@.len() < 2 ==> res is Err",
          "xs@.len() == ys@.len() && some_decrease(xs@) ==> res is Err",
          f"xs@.len() == ys@.len() && xs@.len() >= 2 && {SI} ==> res is Ok && free_spline_ok(res->Ok_0, xs@, ys@)")
    f.closure(1, params="h: &R", ret="vx_b: bool", ensures=["(*h)@ > 0real ==> !vx_b", "(*h)@ < 0real ==> vx_b"])
    f.opt(subst=[("hs.iter().any(", "vx_any(&hs, ", "R24-iterator-any"),
                 ("let mut hs =", "let mut hs: Vec<R> =", "R10-type-annotation"), ("let mut alphas =", "let mut alphas: Vec<R> =", "R10-type-annotation"),
                 ("let mut l =", "let mut l: Vec<R> =", "R10-type-annotation"), ("let mut mu =", "let mut mu: Vec<R> =", "R10-type-annotation"),
                 ("let mut z =", "let mut z: Vec<R> =", "R10-type-annotation"),
                 ("let mut polynomials =", "let mut polynomials: Vec<Polynomial> =", "R10-type-annotation"),
                 ("let mut ranges =", "let mut ranges: Vec<(R, R)> =", "R10-type-annotation")])
    N0 = "xs@.len() == ys@.len() && xs@.len() >= 2 && xs@.len() < usize::MAX / 2"
    m = "(xs@.len() - 1)"
    f.loop(1, iter="it", invariant=[N0, "hs@.len() == it.index@", "hs_rel(xs@, hs@, it.index@)"])
    BASE = [N0, f"hs@.len() == {m}", f"hs_rel(xs@, hs@, {m})", "third@ == 1real / 3real && two@ == 2real && three@ == 3real"]
    f.loop(2, iter="it", invariant=BASE + ["alphas@.len() == it.index@ + 1", f"{SI} ==> alpha_rel(ys@, hs@, alphas@, it.index@ + 1)"])
    f.loop(3, iter="it", invariant=BASE + [f"alphas@.len() == {m}", f"{SI} ==> alpha_rel(ys@, hs@, alphas@, {m})",
                                            "l@.len() == it.index@ + 1 && mu@.len() == it.index@ + 1 && z@.len() == it.index@ + 1",
                                            "mu@[0]@ == 0real && z@[0]@ == 0real && l@[0]@ == 1real",
                                            f"{SI} ==> sweep_rel(xs@, hs@, alphas@, l@, mu@, z@, it.index@ + 1)"])
    AFTER_SW = [f"alphas@.len() == {m}", f"{SI} ==> alpha_rel(ys@, hs@, alphas@, {m})", f"l@.len() == xs@.len() && mu@.len() == {m} && z@.len() == xs@.len()",
                "mu@[0]@ == 0real && z@[0]@ == 0real && l@[0]@ == 1real", f"{SI} ==> sweep_rel(xs@, hs@, alphas@, l@, mu@, z@, {m})"]
    VECS = "c_coefficient@.len() == xs@.len() && b_coefficient@.len() == xs@.len() && d_coefficient@.len() == xs@.len()"
    f.loop(4, iter="it", invariant=BASE + AFTER_SW + [VECS, f"c_coefficient@[{m}]@ == 0real",
                                                       f"{SI} ==> back_rel(ys@, hs@, z@, mu@, b_coefficient@, c_coefficient@, d_coefficient@, {m} - it.index@, {m})"])
    f.loop(5, iter="it", invariant=BASE + [VECS, "tol@ > 0real",
        "polynomials@.len() == it.index@ && ranges@.len() == it.index@",
        "forall|k: int| 0 <= k < it.index@ ==> (#[trigger] ranges@[k]).0 == xs@[k] && ranges@[k].1 == xs@[k + 1]",
        "forall|k: int, x: real| 0 <= k < it.index@ ==> #[trigger] pval(polynomials@[k], x) == "
        "cubic(ys@[k]@, b_coefficient@[k]@, c_coefficient@[k]@, d_coefficient@[k]@, x - xs@[k]@)"])
    f.hint("loop 3 end", """proof {
        if strictly_increasing(xs@) {
            let k = i as int;
            assert(hs@[k - 1]@ == xs@[k]@ - xs@[k - 1]@ && hs@[k]@ == xs@[k + 1]@ - xs@[k]@);
            assert(xs@[k - 1]@ < xs@[k]@ && xs@[k]@ < xs@[k + 1]@);
            assert(l@[k]@ == 2real * (hs@[k - 1]@ + hs@[k]@) - hs@[k - 1]@ * mu@[k - 1]@);
            if k - 1 >= 1 { let lk = l@[k - 1]@; assert(0real <= mu@[k - 1]@ <= 0.5real); }
            lemma_thomas_pivot_positive(hs@[k - 1]@, hs@[k]@, mu@[k - 1]@, l@[k]@);
            // spelled out (the obligation used to depend on how z3 happened to instantiate the relation): the new row ...
            assert(l@[k]@ > 0real);
            assert(mu@[k]@ == hs@[k]@ / l@[k]@ && 0real <= mu@[k]@ <= 0.5real);
            assert(z@[k]@ == (alphas@[k]@ - hs@[k - 1]@ * z@[k - 1]@) / l@[k]@);
            assert(l@[k]@ == 2real * (xs@[k + 1]@ - xs@[k - 1]@) - hs@[k - 1]@ * mu@[k - 1]@);
            // ... and the rows that were already there: every row j < k + 1, case by case
            assert forall|j: int| 1 <= j < k + 1 implies #[trigger] l@[j]@ == 2real * (xs@[j + 1]@ - xs@[j - 1]@) - hs@[j - 1]@ * mu@[j - 1]@
                && l@[j]@ > 0real && mu@[j]@ == hs@[j]@ / l@[j]@ && 0real <= mu@[j]@ <= 0.5real && z@[j]@ == (alphas@[j]@ - hs@[j - 1]@ * z@[j - 1]@) / l@[j]@ by {
                if j < k {
                    assert(l@[j] == vx_l0[j] && mu@[j] == vx_mu0[j] && mu@[j - 1] == vx_mu0[j - 1] && z@[j] == vx_z0[j] && z@[j - 1] == vx_z0[j - 1]);
                    assert(vx_l0[j]@ == 2real * (xs@[j + 1]@ - xs@[j - 1]@) - hs@[j - 1]@ * vx_mu0[j - 1]@);
                    assert(vx_l0[j]@ > 0real && vx_mu0[j]@ == hs@[j]@ / vx_l0[j]@ && 0real <= vx_mu0[j]@ <= 0.5real && vx_z0[j]@ == (alphas@[j]@ - hs@[j - 1]@ * vx_z0[j - 1]@) / vx_l0[j]@);
                }
            }
            assert(sweep_rel(xs@, hs@, alphas@, l@, mu@, z@, k + 1));
        }
    }""")
    f.hint("loop 3 begin", "let ghost vx_l0 = l@; let ghost vx_mu0 = mu@; let ghost vx_z0 = z@;")
    f.hint("before: let third =", """proof {
        assert forall|k: int| 0 <= k < hs@.len() implies hs@[k]@ >= 0real by { }
        if some_decrease(xs@) { let k = choose|k: int| 0 <= k < xs@.len() - 1 && #[trigger] xs@[k]@ > xs@[k + 1]@; assert(hs@[k]@ < 0real); }
    }""")
    f.hint("before: Ok(CubicSpline", """proof {
        if strictly_increasing(xs@) {
            lemma_relations_give_smooth_spline(xs@, ys@, hs@, alphas@, l@, mu@, z@, b_coefficient@, c_coefficient@, d_coefficient@);
            let b = rv(b_coefficient@); let c = rv(c_coefficient@); let d = rv(d_coefficient@);
            let sp = CubicSpline { cubics: polynomials, ranges: ranges };
            assert(spline_shape(sp, xs@, ys@, b, c, d));
            assert(c[0] == 0real) by { assert(c_coefficient@[0]@ == z@[0]@ - mu@[0]@ * c_coefficient@[1]@); assert(0real * c_coefficient@[1]@ == 0real) by(nonlinear_arith); }
            assert(c[xs@.len() - 1] == 0real);
            assert(spline_smooth(xs@, ys@, b, c, d));
            assert(free_spline_ok(sp, xs@, ys@));
        }
    }""")
    assembly_hints(f)
    return f


def spline_clamped(u):
    u.spec(r"""
// a clamped spline: as above, with S'(x_0) = f_0 and S'(x_n) = f_n
pub open spec fn clamped_spline_ok(s: CubicSpline, xs: Seq<R>, ys: Seq<R>, f0: real, fq: real) -> bool {
    exists|b: Seq<real>, c: Seq<real>, d: Seq<real>| #![trigger spline_shape(s, xs, ys, b, c, d)]
        spline_shape(s, xs, ys, b, c, d) && spline_smooth(xs, ys, b, c, d) && b[0] == f0
        && ({ let m = xs.len() - 2; let h = xs[m + 1]@ - xs[m]@; b[m] + 2real * c[m] * h + 3real * d[m] * h * h == fq })
}
""")
    f = u.fn(SPF, "spline_clamped")
    f.attrs = []
    f.req("xs@.len() < usize::MAX / 2", "tol@ > 0real")
    f.ens("xs@.len() != ys@.len() ==> res is Err", "xs@.len() < 2 ==> res is Err",
          "xs@.len() == ys@.len() && some_decrease(xs@) ==> res is Err",
          f"xs@.len() == ys@.len() && xs@.len() >= 2 && {SI} ==> res is Ok && clamped_spline_ok(res->Ok_0, xs@, ys@, arg2_.0@, arg2_.1@)")
    f.closure(1, params="h: &R", ret="vx_b: bool", ensures=["(*h)@ > 0real ==> !vx_b", "(*h)@ < 0real ==> vx_b"])
    f.opt(subst=[("hs.iter().any(", "vx_any(&hs, ", "R24-iterator-any"),
                 ("let mut hs =", "let mut hs: Vec<R> =", "R10-type-annotation"),
                 ("let mut l =", "let mut l: Vec<R> =", "R10-type-annotation"), ("let mut mu =", "let mut mu: Vec<R> =", "R10-type-annotation"),
                 ("let mut z =", "let mut z: Vec<R> =", "R10-type-annotation"),
                 ("let mut polynomials =", "let mut polynomials: Vec<Polynomial> =", "R10-type-annotation"),
                 ("let mut ranges =", "let mut ranges: Vec<(R, R)> =", "R10-type-annotation")])
    N0 = "xs@.len() == ys@.len() && xs@.len() >= 2 && xs@.len() < usize::MAX / 2"
    m = "(xs@.len() - 1)"
    f.loop(1, iter="it", invariant=[N0, "hs@.len() == it.index@", "hs_rel(xs@, hs@, it.index@)"])
    BASE = [N0, f"hs@.len() == {m}", f"hs_rel(xs@, hs@, {m})", "third@ == 1real / 3real && two@ == 2real && three@ == 3real && half@ == 0.5real",
            "f_0 == arg2_.0 && f_n == arg2_.1"]
    A0 = f"{SI} ==> alphas@[0]@ == 3real * ((ys@[1]@ - ys@[0]@) / hs@[0]@ - f_0@) && alphas@[{m}]@ == 3real * (f_n@ - (ys@[{m}]@ - ys@[{m} - 1]@) / hs@[{m} - 1]@)"
    f.loop(2, iter="it", invariant=BASE + ["alphas@.len() == xs@.len()", A0, f"{SI} ==> alpha_rel(ys@, hs@, alphas@, it.index@ + 1)"])
    f.hint("loop 2 end", """proof {
        if strictly_increasing(xs@) {
            let k = i as int;
            assert(hs@[k]@ == xs@[k + 1]@ - xs@[k]@ && hs@[k - 1]@ == xs@[k]@ - xs@[k - 1]@ && xs@[k - 1]@ < xs@[k]@ && xs@[k]@ < xs@[k + 1]@);
            lemma_alpha_forms(hs@[k]@, hs@[k - 1]@, ys@[k + 1]@ - ys@[k]@, ys@[k]@ - ys@[k - 1]@);
        }
    }""")
    SW0 = f"{SI} ==> l@[0]@ == 2real * hs@[0]@ && mu@[0]@ == 0.5real && z@[0]@ == alphas@[0]@ / l@[0]@"
    f.loop(3, iter="it", invariant=BASE + ["alphas@.len() == xs@.len()", A0, f"{SI} ==> alpha_rel(ys@, hs@, alphas@, {m})",
                                            "l@.len() == it.index@ + 1 && mu@.len() == it.index@ + 1 && z@.len() == it.index@ + 1", SW0,
                                            f"{SI} ==> sweep_rel(xs@, hs@, alphas@, l@, mu@, z@, it.index@ + 1)"])
    f.hint("loop 3 end", """proof {
        if strictly_increasing(xs@) {
            let k = i as int;
            assert(hs@[k - 1]@ == xs@[k]@ - xs@[k - 1]@ && hs@[k]@ == xs@[k + 1]@ - xs@[k]@);
            assert(xs@[k - 1]@ < xs@[k]@ && xs@[k]@ < xs@[k + 1]@);
            assert(l@[k]@ == 2real * (hs@[k - 1]@ + hs@[k]@) - hs@[k - 1]@ * mu@[k - 1]@);
            if k - 1 >= 1 { let lk = l@[k - 1]@; assert(0real <= mu@[k - 1]@ <= 0.5real); }
            lemma_thomas_pivot_positive(hs@[k - 1]@, hs@[k]@, mu@[k - 1]@, l@[k]@);
            // spelled out (the obligation used to depend on how z3 happened to instantiate the relation): the new row ...
            assert(l@[k]@ > 0real);
            assert(mu@[k]@ == hs@[k]@ / l@[k]@ && 0real <= mu@[k]@ <= 0.5real);
            assert(z@[k]@ == (alphas@[k]@ - hs@[k - 1]@ * z@[k - 1]@) / l@[k]@);
            assert(l@[k]@ == 2real * (xs@[k + 1]@ - xs@[k - 1]@) - hs@[k - 1]@ * mu@[k - 1]@);
            // ... and the rows that were already there: every row j < k + 1, case by case
            assert forall|j: int| 1 <= j < k + 1 implies #[trigger] l@[j]@ == 2real * (xs@[j + 1]@ - xs@[j - 1]@) - hs@[j - 1]@ * mu@[j - 1]@
                && l@[j]@ > 0real && mu@[j]@ == hs@[j]@ / l@[j]@ && 0real <= mu@[j]@ <= 0.5real && z@[j]@ == (alphas@[j]@ - hs@[j - 1]@ * z@[j - 1]@) / l@[j]@ by {
                if j < k {
                    assert(l@[j] == vx_l0[j] && mu@[j] == vx_mu0[j] && mu@[j - 1] == vx_mu0[j - 1] && z@[j] == vx_z0[j] && z@[j - 1] == vx_z0[j - 1]);
                    assert(vx_l0[j]@ == 2real * (xs@[j + 1]@ - xs@[j - 1]@) - hs@[j - 1]@ * vx_mu0[j - 1]@);
                    assert(vx_l0[j]@ > 0real && vx_mu0[j]@ == hs@[j]@ / vx_l0[j]@ && 0real <= vx_mu0[j]@ <= 0.5real && vx_z0[j]@ == (alphas@[j]@ - hs@[j - 1]@ * vx_z0[j - 1]@) / vx_l0[j]@);
                }
            }
            assert(sweep_rel(xs@, hs@, alphas@, l@, mu@, z@, k + 1));
        }
    }""")
    f.hint("loop 3 begin", "let ghost vx_l0 = l@; let ghost vx_mu0 = mu@; let ghost vx_z0 = z@;")
    LAST = (f"{SI} ==> l@[{m}]@ == hs@[{m} - 1]@ * (2real - mu@[{m} - 1]@) && z@[{m}]@ == (alphas@[{m}]@ - hs@[{m} - 1]@ * z@[{m} - 1]@) / l@[{m}]@ && l@[{m}]@ > 0real")
    AFTER_SW = ["alphas@.len() == xs@.len()", A0, f"{SI} ==> alpha_rel(ys@, hs@, alphas@, {m})", f"l@.len() == xs@.len() && mu@.len() == {m} && z@.len() == xs@.len()",
                SW0, f"{SI} ==> sweep_rel(xs@, hs@, alphas@, l@, mu@, z@, {m})", LAST]
    VECS = "c_coefficient@.len() == xs@.len() && b_coefficient@.len() == xs@.len() && d_coefficient@.len() == xs@.len()"
    f.loop(4, iter="it", invariant=BASE + AFTER_SW + [VECS, f"c_coefficient@[{m}]@ == z@[{m}]@",
                                                       f"{SI} ==> back_rel(ys@, hs@, z@, mu@, b_coefficient@, c_coefficient@, d_coefficient@, {m} - it.index@, {m})"])
    f.hint("loop 4 end", """proof {
        let k = i as int;
        lemma_b_forms(hs@[k]@, (ys@[k + 1]@ - ys@[k]@) / hs@[k]@, c_coefficient@[k + 1]@ + 2real * c_coefficient@[k]@);
    }""")
    f.loop(5, iter="it", invariant=BASE + [VECS, "tol@ > 0real",
        "polynomials@.len() == it.index@ && ranges@.len() == it.index@",
        "forall|k: int| 0 <= k < it.index@ ==> (#[trigger] ranges@[k]).0 == xs@[k] && ranges@[k].1 == xs@[k + 1]",
        "forall|k: int, x: real| 0 <= k < it.index@ ==> #[trigger] pval(polynomials@[k], x) == "
        "cubic(ys@[k]@, b_coefficient@[k]@, c_coefficient@[k]@, d_coefficient@[k]@, x - xs@[k]@)"])
    f.hint("before: let third =", """proof {
        assert forall|k: int| 0 <= k < hs@.len() implies hs@[k]@ >= 0real by { }
        if some_decrease(xs@) { let k = choose|k: int| 0 <= k < xs@.len() - 1 && #[trigger] xs@[k]@ > xs@[k + 1]@; assert(hs@[k]@ < 0real); }
    }""")
    f.hint("before: let mut b_coefficient =", """proof {
        if strictly_increasing(xs@) {
            let mm = xs@.len() - 1; let hm = hs@[mm - 1]@;
            assert(hm == xs@[mm]@ - xs@[mm - 1]@ && xs@[mm - 1]@ < xs@[mm]@);
            if mm - 1 >= 1 { let lk = l@[mm - 1]@; assert(0real <= mu@[mm - 1]@ <= 0.5real); }
            assert(hm * (2real - mu@[mm - 1]@) > 0real) by(nonlinear_arith) requires hm > 0real, mu@[mm - 1]@ <= 0.5real;
        }
    }""")
    f.hint("before: Ok(CubicSpline", """proof {
        if strictly_increasing(xs@) {
            lemma_relations_give_smooth_spline(xs@, ys@, hs@, alphas@, l@, mu@, z@, b_coefficient@, c_coefficient@, d_coefficient@);
            let b = rv(b_coefficient@); let c = rv(c_coefficient@); let d = rv(d_coefficient@);
            let sp = CubicSpline { cubics: polynomials, ranges: ranges };
            assert(spline_shape(sp, xs@, ys@, b, c, d));
            let mm = xs@.len() - 1;
            assert(hs@[0]@ == xs@[1]@ - xs@[0]@ && xs@[0]@ < xs@[1]@);
            assert(c_coefficient@[0]@ == z@[0]@ - mu@[0]@ * c_coefficient@[1]@);
            lemma_clamped_start(hs@[0]@, ys@[0]@, ys@[1]@, f_0@, c[0], c[1], b[0], alphas@[0]@, l@[0]@, z@[0]@);
            assert(hs@[mm - 1]@ == xs@[mm]@ - xs@[mm - 1]@ && xs@[mm - 1]@ < xs@[mm]@);
            assert(c_coefficient@[mm - 1]@ == z@[mm - 1]@ - mu@[mm - 1]@ * c_coefficient@[mm]@);
            lemma_clamped_end(hs@[mm - 1]@, ys@[mm - 1]@, ys@[mm]@, f_n@, c[mm - 1], c[mm], b[mm - 1], d[mm - 1], alphas@[mm]@, l@[mm]@, z@[mm - 1]@, mu@[mm - 1]@, z@[mm]@);
            assert(clamped_spline_ok(sp, xs@, ys@, f_0@, f_n@));
        }
    }""")
    assembly_hints(f)
    return f


def assembly_hints(f):
    f.hint("after: let term =", "let ghost xi = xs@[i as int]@; proof { assert(is_linear_term(term, xi)); }")
    f.hint("after: let mut poly =", "let ghost p1a = poly; proof { assert(is_scaled(p1a, term, d_coefficient@[i as int]@)); }")
    f.hint("after: poly.set_tolerance(tol)?", "let ghost p1 = poly; proof { assert(p1.coefficients == p1a.coefficients); }")
    f.hint("after: poly += c_coefficient[i]", "let ghost p2 = poly; proof { assert(p2.coefficients@.len() == 2); }")
    f.hint("after: poly *= &term", "let ghost p3 = poly;")
    f.hint("after: poly += b_coefficient[i]", "let ghost p4 = poly;")
    f.hint("after: poly *= term", "let ghost p5 = poly;")
    f.hint("after: poly += ys[i]", """proof {
        let dd = d_coefficient@[i as int]@; let cc = c_coefficient@[i as int]@; let bb = b_coefficient@[i as int]@; let yy = ys@[i as int]@;
        assert forall|x: real| pval(poly, x) == cubic(yy, bb, cc, dd, x - xi) by {
            lemma_term_value(term, xi, x);
            lemma_pval_scaled(p1a, term, dd, x);
            assert(pval(p1, x) == pval(p1a, x));
            lemma_pval_shift0(p2, p1, cc, x);
            lemma_pval_times_term(p3, p2, term, xi, x);
            lemma_pval_shift0(p4, p3, bb, x);
            lemma_pval_times_term(p5, p4, term, xi, x);
            lemma_pval_shift0(poly, p5, yy, x);
        }
    }""")


DECIDED = [
    "spline_free / spline_clamped: mismatched lengths, fewer than two points, or a decreasing pair of knots -> Err",
    "for strictly increasing knots: Ok, piece i covers [x_i, x_{i+1}] and equals y_i + b_i t + c_i t^2 + d_i t^3 (t = x - x_i) as a polynomial function for every x (proved through the Polynomial operators used by the assembly loop)",
    "the coefficient arrays satisfy their defining relations (loop invariants), all Thomas pivots are positive (diagonal dominance), and the relations imply (z3 NRA lemmas, one knot at a time): S_i(x_{i+1}) = y_{i+1}, S' and S'' continuous at every interior knot",
    "end conditions: free S''(x_0) = S''(x_n) = 0; clamped S'(x_0) = f_0 and S'(x_n) = f_n",
    "CubicSpline::evaluate / evaluate_derivative: Err on an empty spline or x outside every range; otherwise the value (and derivative accumulator) of a piece whose closed range contains x",
]
NOT_DECIDED = ["'coincides with the unique such spline' and 'reproduces any cubic / straight line' (consequences of uniqueness of the spline equations, a theorem not a contract)",
               "behaviour for repeated knots (h_i = 0): neither rejected nor specified", "rounding; complex ordinates"]
ASSUMPTIONS = ["tol > 0 (set_tolerance rejects negative tolerances)", "rule R24: Iterator::any with its full meaning (vx_any)",
               "rule R23: the text of a format!() error message is replaced by a constant string",
               "derivative continuity is stated on the piece coefficients (b_{i+1} = b_i + 2 c_i h_i + 3 d_i h_i^2, 2 c_{i+1} = 2 c_i + 6 d_i h_i)"]
