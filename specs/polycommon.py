"""Shared spec text and extraction config for units over src/polynomial/mod.rs."""
from vx.extract import Config

PFILE = "src/polynomial/mod.rs"


def cfg():
    c = Config(extra_subst=[("Polynomial<N>", "Polynomial"), ("Polynomial::<N>", "Polynomial")])
    c.extra = [("Vec::from(", "vx_vec_from_slice(", "R13-vec-from-slice")]
    return c


POLY_SPEC = r'''
pub assume_specification<T>[ <[T]>::reverse ](s: &mut [T])
    ensures final(s)@ == old(s)@.reverse();

impl Clone for Polynomial {
    fn clone(&self) -> (r: Polynomial) ensures r.coefficients@ == self.coefficients@, r.tolerance == self.tolerance {
        Polynomial { coefficients: self.coefficients.clone(), tolerance: self.tolerance }
    }
}

// coefficient of x^k (0 beyond the stored ones)
pub open spec fn coef(s: Seq<R>, k: int) -> real { if 0 <= k < s.len() { s[k]@ } else { 0real } }
// value by Horner from index j:  c_j + x (c_{j+1} + x (...))  ==  sum_{k>=j} c_k x^(k-j)
pub open spec fn hs(s: Seq<R>, j: int, x: real) -> real
    decreases s.len() - j
{ if j < 0 || j >= s.len() { 0real } else { s[j]@ + x * hs(s, j + 1, x) } }
// the coefficient expansion  sum_{k<n} c_k x^k
pub open spec fn psum(s: Seq<R>, n: int, x: real) -> real
    decreases n
{ if n <= 0 { 0real } else { psum(s, n - 1, x) + coef(s, n - 1) * rpowi(x, n - 1) } }
pub open spec fn pval(p: Polynomial, x: real) -> real { hs(p.coefficients@, 0, x) }
impl Polynomial {
    pub open spec fn wf(&self) -> bool { self.coefficients@.len() >= 1 }
    pub open spec fn c(&self, k: int) -> real { coef(self.coefficients@, k) }
}
'''
