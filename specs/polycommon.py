"""Shared spec text and extraction config for units over src/polynomial/mod.rs."""
from vx.extract import Config
from vx.unit import Unit

PFILE = "src/polynomial/mod.rs"


def cfg():
    c = Config(extra_subst=[("Polynomial<N>", "Polynomial"), ("Polynomial::<N>", "Polynomial"),
                            ("choose::<N>", "choose_"),   # `choose` is a Verus keyword: the fn is emitted as choose_
                            ("factorial::<N>", "factorial")])
    c.extra = [("Vec::from(", "vx_vec_from_slice(", "R13-vec-from-slice")]
    c.expand_polynomial_macro = True
    return c


POLY_SPEC = r'''
pub assume_specification<T>[ <[T]>::reverse ](s: &mut [T])
    ensures final(s)@ == old(s)@.reverse();

impl Clone for Polynomial {
    fn clone(&self) -> (r: Polynomial) ensures r.coefficients@ == self.coefficients@, r.tolerance == self.tolerance {
        Polynomial { coefficients: self.coefficients.clone(), tolerance: self.tolerance }
    }
}

// coefficient of x^k (0 beyond the stored ones)
pub open spec fn coef(s: Seq<R>, k: int) -> real { if 0 <= k < s.len() { s[k]@ } else { 0real } }
// value by Horner from index j:  c_j + x (c_{j+1} + x (...))  ==  sum_{k>=j} c_k x^(k-j)
pub open spec fn hs(s: Seq<R>, j: int, x: real) -> real
    decreases s.len() - j
{ if j < 0 || j >= s.len() { 0real } else { s[j]@ + x * hs(s, j + 1, x) } }
// the coefficient expansion  sum_{k<n} c_k x^k
pub open spec fn psum(s: Seq<R>, n: int, x: real) -> real
    decreases n
{ if n <= 0 { 0real } else { psum(s, n - 1, x) + coef(s, n - 1) * rpowi(x, n - 1) } }
pub open spec fn pval(p: Polynomial, x: real) -> real { hs(p.coefficients@, 0, x) }
impl Polynomial {
    pub open spec fn wf(&self) -> bool { self.coefficients@.len() >= 1 }
    pub open spec fn c(&self, k: int) -> real { coef(self.coefficients@, k) }
}
'''


# ---------------------------------------------------------------------------
# contracts for the operator impls and multiply() (used by C11 and re-verified wherever they are called)
SPEC = r'''
pub open spec fn rmaxi(a: int, b: int) -> int { if a >= b { a } else { b } }
// res = a + sign*b coefficient-wise, length of the longer operand, tolerance of the left operand
pub open spec fn is_sum(res: Polynomial, a: Polynomial, b: Polynomial, sign: real) -> bool {
    res.coefficients@.len() == rmaxi(a.coefficients@.len() as int, b.coefficients@.len() as int)
    && res.tolerance == a.tolerance
    && forall|k: int| #![trigger coef(res.coefficients@, k)] coef(res.coefficients@, k) == coef(a.coefficients@, k) + sign * coef(b.coefficients@, k)
}
// res = a + d (constant term shifted), everything else unchanged
pub open spec fn is_shift0(res: Polynomial, a: Polynomial, d: real) -> bool {
    res.coefficients@.len() == a.coefficients@.len() && res.tolerance == a.tolerance
    && coef(res.coefficients@, 0) == coef(a.coefficients@, 0) + d
    && forall|k: int| #![trigger coef(res.coefficients@, k)] k != 0 ==> coef(res.coefficients@, k) == coef(a.coefficients@, k)
}
pub open spec fn is_scaled(res: Polynomial, a: Polynomial, s: real) -> bool {
    res.coefficients@.len() == a.coefficients@.len() && res.tolerance == a.tolerance
    && forall|k: int| #![trigger res.coefficients@[k]] #![trigger a.coefficients@[k]] 0 <= k < a.coefficients@.len() ==> res.coefficients@[k]@ == a.coefficients@[k]@ * s
}
pub open spec fn is_divided(res: Polynomial, a: Polynomial, s: real) -> bool {
    res.coefficients@.len() == a.coefficients@.len() && res.tolerance == a.tolerance
    && forall|k: int| #![trigger res.coefficients@[k]] #![trigger a.coefficients@[k]] 0 <= k < a.coefficients@.len() ==> res.coefficients@[k]@ == a.coefficients@[k]@ / s
}
pub open spec fn is_negated(res: Polynomial, a: Polynomial) -> bool {
    res.coefficients@.len() == a.coefficients@.len() && res.tolerance == a.tolerance
    && forall|k: int| #![trigger res.coefficients@[k]] #![trigger a.coefficients@[k]] 0 <= k < a.coefficients@.len() ==> res.coefficients@[k]@ == -a.coefficients@[k]@
}
// coefficient k of the product a*b:  sum_{i=0..k} a_i b_{k-i}
pub open spec fn conv_upto(a: Polynomial, b: Polynomial, k: int, n: int) -> real
    decreases n
{ if n <= 0 { 0real } else { conv_upto(a, b, k, n - 1) + a.c(n - 1) * b.c(k - (n - 1)) } }
pub open spec fn conv(a: Polynomial, b: Polynomial, k: int) -> real { conv_upto(a, b, k, k + 1) }
// what multiply() promises on each of its exact code paths (over coefficient sequences)
pub open spec fn prod_exact(r: Seq<R>, a: Seq<R>, b: Seq<R>) -> bool {
    if b.len() == 1 { r.len() == a.len() && forall|k: int| #![trigger r[k]] 0 <= k < a.len() ==> r[k]@ == a[k]@ * b[0]@ }
    else if a.len() == 1 { r.len() == b.len() && forall|k: int| #![trigger r[k]] 0 <= k < b.len() ==> r[k]@ == b[k]@ * a[0]@ }
    else if b.len() == 2 {
        r.len() == a.len() + 1 && forall|k: int| #![trigger coef(r, k)] coef(r, k) == coef(a, k - 1) * b[1]@ + coef(a, k) * b[0]@
    } else if a.len() == 2 {
        r.len() == b.len() + 1 && forall|k: int| #![trigger coef(r, k)] coef(r, k) == coef(b, k - 1) * a[1]@ + coef(b, k) * a[0]@
    } else { true }
}
pub open spec fn is_product_exact(res: Polynomial, a: Polynomial, b: Polynomial) -> bool {
    prod_exact(res.coefficients@, a.coefficients@, b.coefficients@)
}
pub open spec fn exact_path(a: Polynomial, b: Polynomial) -> bool {
    a.coefficients@.len() <= 2 || b.coefficients@.len() <= 2
}

// ---- the FFT path of multiply() is NOT verified: dft / idft are trusted stubs that promise only
// ---- what purge_leading() guarantees about the shape of the result (DESIGN.md 5 C11)
pub struct C { pub re: R, pub im: R }
impl Clone for C { #[verifier::external_body] fn clone(&self) -> (r: C) ensures r == *self { unimplemented!() } }
impl Copy for C {}
#[verifier::external_body]
pub fn vx_pointwise_product(l: &Vec<C>, r: &Vec<C>) -> (p: Vec<C>) { unimplemented!() }
impl Polynomial {
    #[verifier::external_body]
    pub fn dft(&self, size: usize) -> (r: Vec<C>) { unimplemented!() }
    #[verifier::external_body]
    pub fn idft(vec: &[C], tol: R) -> (r: Polynomial) ensures r.wf(), r.tolerance == tol { unimplemented!() }
}
'''

LEMMAS = r'''
// ---- the exact code paths of multiply() compute the convolution (coefficient algebra of the product)
pub proof fn lemma_conv_const(a: Polynomial, b: Polynomial, k: int, n: int)
    requires b.coefficients@.len() == 1, 0 <= n, 0 <= k
    ensures conv_upto(a, b, k, n) == if k < n { a.c(k) * b.c(0) } else { 0real }
    decreases n
{
    if n > 0 {
        lemma_conv_const(a, b, k, n - 1);
        if k != n - 1 {
            assert(b.c(k - (n - 1)) == 0real);
            assert(a.c(n - 1) * 0real == 0real) by(nonlinear_arith);
        }
    }
}
pub proof fn lemma_conv_linear(a: Polynomial, b: Polynomial, k: int, n: int)
    requires b.coefficients@.len() == 2, 0 <= n, 0 <= k
    ensures conv_upto(a, b, k, n) == (if k < n { a.c(k) * b.c(0) } else { 0real }) + (if 0 <= k - 1 < n { a.c(k - 1) * b.c(1) } else { 0real })
    decreases n
{
    if n > 0 {
        lemma_conv_linear(a, b, k, n - 1);
        if k != n - 1 && k - 1 != n - 1 {
            assert(b.c(k - (n - 1)) == 0real);
            assert(a.c(n - 1) * 0real == 0real) by(nonlinear_arith);
        }
    }
}
// multiply(a, b) with deg b <= 1 returns the exact convolution
pub proof fn lemma_exact_paths_are_convolution(res: Polynomial, a: Polynomial, b: Polynomial, k: int)
    requires is_product_exact(res, a, b), a.wf(), 1 <= b.coefficients@.len() <= 2, 0 <= k,
    ensures res.c(k) == conv(a, b, k)
{
    if b.coefficients@.len() == 1 {
        lemma_conv_const(a, b, k, k + 1);
        if k >= a.coefficients@.len() { assert(0real * b.c(0) == 0real) by(nonlinear_arith); }
    } else {
        lemma_conv_linear(a, b, k, k + 1);
        if a.coefficients@.len() == 1 {
            // the code takes the scalar path on the left operand
            assert(b.c(k) * a.c(0) == a.c(0) * b.c(k)) by(nonlinear_arith);
            if k == 0 { assert(a.c(-1) * b.c(1) == 0real) by(nonlinear_arith) requires a.c(-1) == 0real; }
            if k >= 1 { assert(a.c(k) * b.c(0) == 0real) by(nonlinear_arith) requires a.c(k) == 0real; }
            if k >= 2 { assert(a.c(k - 1) * b.c(1) == 0real) by(nonlinear_arith) requires a.c(k - 1) == 0real; }
            if k >= 2 { assert(res.c(k) == 0real); }
        } else {
            assert(coef(res.coefficients@, k) == coef(a.coefficients@, k - 1) * b.coefficients@[1]@ + coef(a.coefficients@, k) * b.coefficients@[0]@);
            if k == 0 { assert(a.c(-1) * b.c(1) == 0real) by(nonlinear_arith) requires a.c(-1) == 0real; }
        }
    }
}
'''

OPS = {"Add": ("add", "+", "1real", ""), "Sub": ("sub", "-", "(-1real)", "-")}


def spec_impl(trait, rhs, selfty, req, assign=False, unary=False):
    lower = {"Add": "add", "Sub": "sub", "Mul": "mul", "Div": "div", "Neg": "neg"}[trait]
    if unary:
        return (f"impl NegSpecImpl for {selfty} {{\n    open spec fn obeys_neg_spec() -> bool {{ false }}\n"
                f"    open spec fn neg_req(self) -> bool {{ {req} }}\n    open spec fn neg_spec(self) -> Polynomial {{ arbitrary() }}\n}}\n")
    if assign:
        return (f"impl {trait}AssignSpecImpl<{rhs}> for {selfty} {{\n    open spec fn obeys_{lower}_assign_spec() -> bool {{ false }}\n"
                f"    open spec fn {lower}_assign_req(&self, rhs: {rhs}) -> bool {{ {req} }}\n"
                f"    open spec fn {lower}_assign_spec(&self, rhs: {rhs}) -> &Self {{ arbitrary() }}\n}}\n")
    return (f"impl {trait}SpecImpl<{rhs}> for {selfty} {{\n    open spec fn obeys_{lower}_spec() -> bool {{ false }}\n"
            f"    open spec fn {lower}_req(self, rhs: {rhs}) -> bool {{ {req} }}\n"
            f"    open spec fn {lower}_spec(self, rhs: {rhs}) -> Polynomial {{ arbitrary() }}\n}}\n")


def vty(t):
    """verus type of a repo type"""
    return t.replace("Polynomial<N>", "Polynomial").replace("N", "R") if t != "N" else "R"


def deref(name, ty):
    return f"*{name}" if ty.startswith("&") else name


def mutating_pp(u, trait, rhs_t, assign):
    """Polynomial (op)= Polynomial on an owned / &mut self: iter_mut().take() loop then push loop"""
    fn, op, sign, neg = OPS[trait]
    tr = trait + ("Assign" if assign else "")
    u.spec(spec_impl(trait, vty(rhs_t), "Polynomial", "self.wf() && rhs.wf() && self.coefficients@.len() + rhs.coefficients@.len() < usize::MAX", assign=assign))
    im = u.impl(PFILE, f"ops::{tr}<{rhs_t}> for Polynomial<N>")
    f = im.fn(fn + ("_assign" if assign else ""))
    OLD, CUR = ("old(self)", "self") if assign else ("self", "self_")
    r = deref("rhs", rhs_t)
    if assign:
        f.ens(f"is_sum(*final(self), *old(self), {r}, {sign})")
    else:
        f.ens(f"is_sum(res, self, {r}, {sign})")
    f.loop(1, iter="it", invariant=[
        "ind == it.index@",
        f"forall|k: int| #![trigger it.history@[k]] #![trigger {OLD}.coefficients@[k]] 0 <= k < it.index@ ==> "
        f"(*final(it.history@[k]))@ == {OLD}.coefficients@[k]@ {op} rhs.coefficients@[k]@",
    ])
    f.loop(2, iter="it2", invariant=[
        f"{CUR}.coefficients@.len() == {OLD}.coefficients@.len() + it2.index@",
        f"{CUR}.tolerance == {OLD}.tolerance",
        f"forall|k: int| 0 <= k < min_order ==> {CUR}.coefficients@[k]@ == {OLD}.coefficients@[k]@ {op} rhs.coefficients@[k]@",
        f"forall|k: int| min_order <= k < {OLD}.coefficients@.len() ==> {CUR}.coefficients@[k] == {OLD}.coefficients@[k]",
        f"it2.index@ > 0 ==> min_order == {OLD}.coefficients@.len()",
        f"forall|k: int| {OLD}.coefficients@.len() <= k < {OLD}.coefficients@.len() + it2.index@ ==> {CUR}.coefficients@[k]@ == {neg}rhs.coefficients@[k]@",
        "forall|k: int| 0 <= k < it2.history@.len() ==> *it2.history@[k] == rhs.coefficients@[min_order + k]",
    ])
    return f


def building_pp(u, trait, rhs_t):
    """&Polynomial op Polynomial: three push loops into a fresh vector"""
    fn, op, sign, neg = OPS[trait]
    u.spec(spec_impl(trait, vty(rhs_t), "&Polynomial", "self.wf() && rhs.wf() && self.coefficients@.len() + rhs.coefficients@.len() < usize::MAX"))
    im = u.impl(PFILE, f"ops::{trait}<{rhs_t}> for &Polynomial<N>")
    f = im.fn(fn)
    f.opt(subst=[("let mut coefficients =", "let mut coefficients: Vec<R> =", "R10-type-annotation")])
    r = deref("rhs", rhs_t)
    f.ens(f"is_sum(res, *self, {r}, {sign})")
    head = [f"forall|k: int| 0 <= k < min_order ==> coefficients@[k]@ == self.coefficients@[k]@ {op} rhs.coefficients@[k]@"]
    f.loop(1, iter="it", invariant=[
        "ind == it.index@", "coefficients@.len() == it.index@",
        f"forall|k: int| 0 <= k < it.index@ ==> coefficients@[k]@ == self.coefficients@[k]@ {op} rhs.coefficients@[k]@",
        "forall|k: int| 0 <= k < it.history@.len() ==> *it.history@[k] == self.coefficients@[k]",
    ])
    f.loop(2, iter="it2", invariant=head + [
        "coefficients@.len() == min_order + it2.index@",
        "forall|k: int| min_order <= k < min_order + it2.index@ ==> coefficients@[k] == self.coefficients@[k]",
        "forall|k: int| 0 <= k < it2.history@.len() ==> *it2.history@[k] == self.coefficients@[min_order + k]",
    ])
    f.loop(3, iter="it3", invariant=head + [
        "coefficients@.len() == self.coefficients@.len() + it3.index@",
        "forall|k: int| min_order <= k < self.coefficients@.len() ==> coefficients@[k] == self.coefficients@[k]",
        "it3.index@ > 0 ==> min_order == self.coefficients@.len()",
        f"forall|k: int| self.coefficients@.len() <= k < self.coefficients@.len() + it3.index@ ==> coefficients@[k]@ == {neg}rhs.coefficients@[k]@",
        "forall|k: int| 0 <= k < it3.history@.len() ==> *it3.history@[k] == rhs.coefficients@[min_order + k]",
    ])
    return f


def scalar_shift(u, trait):
    fn, op, sign, neg = OPS[trait]
    d = f"{neg}rhs@" if neg else "rhs@"
    u.spec(spec_impl(trait, "R", "Polynomial", "self.wf()"))
    f = u.impl(PFILE, f"ops::{trait}<N> for Polynomial<N>").fn(fn)
    f.ens(f"is_shift0(res, self, {d})")
    u.spec(spec_impl(trait, "R", "&Polynomial", "self.wf()"))
    f = u.impl(PFILE, f"ops::{trait}<N> for &Polynomial<N>").fn(fn)
    f.ens(f"is_shift0(res, *self, {d})")
    u.spec(spec_impl(trait, "R", "Polynomial", "self.wf()", assign=True))
    f = u.impl(PFILE, f"ops::{trait}Assign<N> for Polynomial<N>").fn(fn + "_assign")
    f.ens(f"is_shift0(*final(self), *old(self), {d})")


def scalar_scale(u):
    MUT_INV = lambda OLD, o: [
        f"forall|k: int| #![trigger it.history@[k]] #![trigger {OLD}.coefficients@[k]] 0 <= k < it.index@ ==> "
        f"(*final(it.history@[k]))@ == {OLD}.coefficients@[k]@ {o} rhs@"]
    # Mul<N>
    u.spec(spec_impl("Mul", "R", "Polynomial", "true"))
    f = u.impl(PFILE, "ops::Mul<N> for Polynomial<N>").fn("mul")
    f.ens("is_scaled(res, self, rhs@)")
    f.loop(1, iter="it", invariant=MUT_INV("self", "*"))
    u.spec(spec_impl("Mul", "R", "&Polynomial", "true"))
    f = u.impl(PFILE, "ops::Mul<N> for &Polynomial<N>").fn("mul")
    f.ens("is_scaled(res, *self, rhs@)")
    f.opt(subst=[("let mut coefficients =", "let mut coefficients: Vec<R> =", "R10-type-annotation")])
    f.loop(1, iter="it", invariant=[
        "coefficients@.len() == it.index@",
        "forall|k: int| 0 <= k < it.index@ ==> coefficients@[k]@ == self.coefficients@[k]@ * rhs@",
        "forall|k: int| 0 <= k < it.history@.len() ==> *it.history@[k] == self.coefficients@[k]"])
    u.spec(spec_impl("Mul", "R", "Polynomial", "true", assign=True))
    f = u.impl(PFILE, "ops::MulAssign<N> for Polynomial<N>").fn("mul_assign")
    f.ens("is_scaled(*final(self), *old(self), rhs@)")
    f.loop(1, iter="it", invariant=MUT_INV("old(self)", "*"))
    # Div<N>: dividing by zero is allowed by the code (inf/NaN in floats); the contract is for rhs != 0
    u.spec(spec_impl("Div", "R", "Polynomial", "rhs@ != 0real"))
    f = u.impl(PFILE, "ops::Div<N> for Polynomial<N>").fn("div")
    f.ens("is_divided(res, self, rhs@)")
    f.loop(1, iter="it", invariant=MUT_INV("self", "/"))
    u.spec(spec_impl("Div", "R", "&Polynomial", "rhs@ != 0real"))
    f = u.impl(PFILE, "ops::Div<N> for &Polynomial<N>").fn("div")
    f.ens("is_divided(res, *self, rhs@)")
    f.loop(1, iter="it", invariant=[
        f"forall|k: int| #![trigger it.history@[k]] #![trigger self.coefficients@[k]] 0 <= k < it.index@ ==> "
        f"(*final(it.history@[k]))@ == self.coefficients@[k]@ / rhs@"])
    u.spec(spec_impl("Div", "R", "Polynomial", "rhs@ != 0real", assign=True))
    f = u.impl(PFILE, "ops::DivAssign<N> for Polynomial<N>").fn("div_assign")
    f.ens("is_divided(*final(self), *old(self), rhs@)")
    f.loop(1, iter="it", invariant=MUT_INV("old(self)", "/"))
    # Neg
    u.spec(spec_impl("Neg", None, "Polynomial", "true", unary=True))
    f = u.impl(PFILE, "ops::Neg for Polynomial<N>").fn("neg")
    f.ens("is_negated(res, self)")
    f.loop(1, iter="it", invariant=[
        "forall|k: int| #![trigger it.history@[k]] #![trigger self.coefficients@[k]] 0 <= k < it.index@ ==> "
        "(*final(it.history@[k]))@ == -self.coefficients@[k]@"])
    u.spec(spec_impl("Neg", None, "&Polynomial", "true", unary=True))
    f = u.impl(PFILE, "ops::Neg for &Polynomial<N>").fn("neg")
    f.ens("is_negated(res, *self)")
    # closure + collect inside (or called from) a trait-impl method loses its specification in this Verus
    # build: the body is hoisted into a free fn (R15) that is proved in the sibling unit `poly_neg_ref`;
    # in this unit the hoisted fn is visible through its contract only
    f.opt(subst=[("|c|", "|c: &R|", "R7-closure-param-type")], hoist="assumed-here", proved_in="poly_neg_ref")
    f.closure(1, ret="y: R", ensures=["y@ == -(*c)@"])
    f.trusted_here = True


def product(u, mul_tolerance=False):
    f = u.fn(PFILE, "multiply")
    f.req("lhs.wf()", "rhs.wf()", "lhs.coefficients@.len() + rhs.coefficients@.len() < usize::MAX / 2")
    # (which operand's tolerance the result carries differs between the code paths and is not part of the property)
    f.ens("res.wf()", "is_product_exact(res, *lhs, *rhs)")
    # helper clause for callers that multiply operands of EQUAL tolerance (C18 constructors): the result carries the tolerance of one of the operands
    TOLC = lambda r, a, b: f"{r}.tolerance == ({a}).tolerance || {r}.tolerance == ({b}).tolerance"
    if mul_tolerance:
        f.ens(TOLC("res", "*lhs", "*rhs"))
    # the FFT tail: `.iter().zip(..).map(|(l_p, r_p)| *l_p * r_p).collect()` on the unverified complex type is
    # routed to a trusted stub; nothing is claimed about that path
    f.opt(subst=[("left_points . iter ( ) . zip ( right_points . iter ( ) ) . map ( | ( l_p , r_p ) | * l_p * r_p ) . collect ( )",
                  "vx_pointwise_product(&left_points, &right_points)", "R14-fft-path-stub")])
    req = "self.wf() && rhs.wf() && self.coefficients@.len() + rhs.coefficients@.len() < usize::MAX / 2"
    for rhs_t, self_t in (("Polynomial<N>", "Polynomial<N>"), ("&Polynomial<N>", "Polynomial<N>"),
                          ("Polynomial<N>", "&Polynomial<N>"), ("&Polynomial<N>", "&Polynomial<N>")):
        u.spec(spec_impl("Mul", vty(rhs_t), vty(self_t), req))
        g = u.impl(PFILE, f"ops::Mul<{rhs_t}> for {self_t}").fn("mul")
        a, b = deref("self", self_t), deref("rhs", rhs_t)
        g.ens("res.wf()", f"is_product_exact(res, {a}, {b})")
        if mul_tolerance:
            g.ens(TOLC("res", a, b))
    for rhs_t in ("Polynomial<N>", "&Polynomial<N>"):
        u.spec(spec_impl("Mul", vty(rhs_t), "Polynomial", req, assign=True))
        g = u.impl(PFILE, f"ops::MulAssign<{rhs_t}> for Polynomial<N>").fn("mul_assign")
        b = deref("rhs", rhs_t)
        g.ens("final(self).wf()", "final(self).tolerance == old(self).tolerance", f"is_product_exact(*final(self), *old(self), {b})")




def all_ops(u, mul_tolerance=False):
    """struct, shared specs and every operator impl + multiply, each verified against its contract"""
    u.item(PFILE, "struct", "Polynomial")
    u.spec(POLY_SPEC)
    u.spec(SPEC)
    u.spec(LEMMAS)
    for trait in ("Add", "Sub"):
        scalar_shift(u, trait)
        mutating_pp(u, trait, "Polynomial<N>", False)
        mutating_pp(u, trait, "&Polynomial<N>", False)
        building_pp(u, trait, "Polynomial<N>")
        building_pp(u, trait, "&Polynomial<N>")
        mutating_pp(u, trait, "Polynomial<N>", True)
        mutating_pp(u, trait, "&Polynomial<N>", True)
    scalar_scale(u)
    product(u, mul_tolerance)


# ---------------------------------------------------------------------------
# contracts of the inherent Polynomial methods (C13); re-verified wherever they are called
HSD_SPEC = r"""
pub open spec fn rmaxi2(a: int, b: int) -> int { if a >= b { a } else { b } }
// Horner accumulator for the derivative:  sum_{k>=m} (k-m+1) c_k x^(k-m)
pub open spec fn hsd(s: Seq<R>, m: int, x: real) -> real
    decreases s.len() - m
{ if m < 0 || m >= s.len() { 0real } else { hs(s, m, x) + x * hsd(s, m + 1, x) } }
"""


def add_basic(u, names=None):
    """inherent methods of Polynomial under their C13 contracts; names=None -> all"""
    from vx.rules import COPIED
    want = lambda n: names is None or n in names
    im = u.impl(PFILE, "Polynomial<N>", header="impl Polynomial")
    if want("new"):
        f = im.fn("new")
        f.ens("res.wf()", "res.coefficients@.len() == 1", "res.c(0) == 0real", "res.tolerance@ == 1real / 10000000000real")
    if want("with_tolerance"):
        f = im.fn("with_tolerance")
        f.ens("tolerance@ < 0real ==> res is Err", "tolerance@ > 0real ==> res is Ok",
              "res is Ok ==> res->Ok_0.coefficients@.len() == 1 && res->Ok_0.c(0) == 0real && res->Ok_0.tolerance == tolerance")
    if want("from_slice"):
        f = im.fn("from_slice").opt(subst=COPIED)
        f.ens("res.wf()",
              "data@.len() == 0 ==> res.coefficients@.len() == 1 && res.c(0) == 0real",
              "data@.len() > 0 ==> res.coefficients@ == data@.reverse()")
    if want("order"):
        f = im.fn("order")
        f.req("self.wf()").ens("res == self.coefficients@.len() - 1")
    if want("get_coefficients"):
        f = im.fn("get_coefficients")
        f.ens("res@ == self.coefficients@.reverse()")
    if want("get_coefficient"):
        f = im.fn("get_coefficient")
        f.ens("res@ == self.c(ind as int)")
    if want("evaluate"):
        f = im.fn("evaluate")
        f.req("self.wf()").ens("res@ == pval(*self, x@)")
        f.loop(1, iter="it", invariant=[
            "it.index@ + 1 <= self.coefficients@.len()",
            "acc@ == hs(self.coefficients@, self.coefficients@.len() - 1 - it.index@, x@)",
            "forall|k: int| 0 <= k < it.history@.len() ==> *it.history@[k] == self.coefficients@[self.coefficients@.len() - 2 - k]",
        ])
        f.hint("before loop 1", r"""proof {
            let s = self.coefficients@; let n = s.len() as int;
            assert(hs(s, n, x@) == 0real);
            assert(hs(s, n - 1, x@) == s[n - 1]@ + x@ * hs(s, n, x@));
        }""")
        f.hint("loop 1 begin", "let ghost acc0 = acc@; let ghost j = self.coefficients@.len() - 1 - it.index@;")
        f.hint("loop 1 end", r"""proof {
            let s = self.coefficients@;
            assert(*val == s[j - 1]);
            assert(acc0 * x@ == x@ * acc0) by(nonlinear_arith);
            assert(hs(s, j - 1, x@) == s[j - 1]@ + x@ * hs(s, j, x@));
        }""")
    if want("evaluate_derivative"):
        f = im.fn("evaluate_derivative")
        f.req("self.wf()")
        f.ens("res.0@ == pval(*self, x@)",
              "res.1@ == hsd(self.coefficients@, 1, x@)")
        f.loop(1, iter="it", invariant=[
            "self.coefficients@.len() >= 2",
            "it.index@ + 2 <= self.coefficients@.len()",
            "acc_eval@ == hs(self.coefficients@, self.coefficients@.len() - 1 - it.index@, x@)",
            "acc_deriv@ == hsd(self.coefficients@, self.coefficients@.len() - 1 - it.index@, x@)",
            "forall|k: int| 0 <= k < it.history@.len() ==> *it.history@[k] == self.coefficients@[self.coefficients@.len() - 2 - k]",
        ])
        f.hint("before loop 1", r"""proof {
            let s = self.coefficients@; let n = s.len() as int;
            assert(hs(s, n, x@) == 0real);
            assert(hsd(s, n, x@) == 0real);
            assert(hs(s, n - 1, x@) == s[n - 1]@ + x@ * hs(s, n, x@));
            assert(hsd(s, n - 1, x@) == hs(s, n - 1, x@) + x@ * hsd(s, n, x@));
        }""")
        f.hint("loop 1 begin", "let ghost e0 = acc_eval@; let ghost d0 = acc_deriv@; let ghost j = self.coefficients@.len() - 1 - it.index@;")
        f.hint("loop 1 end", r"""proof {
            let s = self.coefficients@;
            assert(*val == s[j - 1]);
            assert(e0 * x@ == x@ * e0) by(nonlinear_arith);
            assert(d0 * x@ == x@ * d0) by(nonlinear_arith);
            assert(hs(s, j - 1, x@) == s[j - 1]@ + x@ * hs(s, j, x@));
            assert(hsd(s, j - 1, x@) == hs(s, j - 1, x@) + x@ * hsd(s, j, x@));
        }""")
        f.hint("after loop 1", r"""proof {
            let s = self.coefficients@;
            assert(hs(s, 0, x@) == s[0]@ + x@ * hs(s, 1, x@));
        }""")
        f.hint("before: return (self.coefficients[0]", r"""proof {
            let s = self.coefficients@;
            assert(hs(s, 1, x@) == 0real);
            assert(hs(s, 0, x@) == s[0]@ + x@ * hs(s, 1, x@));
            assert(hsd(s, 1, x@) == 0real);
        }""")

    if want("set_coefficient"):
        f = im.fn("set_coefficient")
        f.req("old(self).wf()", "power < u32::MAX", "old(self).coefficients@.len() < u32::MAX")
        f.ens("final(self).wf()",
              "final(self).c(power as int) == coefficient@",
              "forall|j: int| j != power ==> final(self).c(j) == old(self).c(j)",
              "final(self).coefficients@.len() == if old(self).coefficients@.len() > power { old(self).coefficients@.len() } else { power as nat + 1 }",
              "final(self).tolerance == old(self).tolerance")
        f.loop(1, invariant=[
            "self.coefficients@.len() >= old(self).coefficients@.len()",
            "self.coefficients@.len() <= rmaxi2(old(self).coefficients@.len() as int, power + 1)",
            "forall|j: int| self.c(j) == old(self).c(j)",
            "self.tolerance == old(self).tolerance",
        ], decreases="power + 1 - self.coefficients@.len()")

    if want("purge_coefficient"):
        f = im.fn("purge_coefficient")
        f.req("old(self).wf()")
        f.ens("final(self).wf()",
              "final(self).c(power as int) == 0real",
              "forall|j: int| j != power ==> final(self).c(j) == old(self).c(j)",
              "power >= old(self).coefficients@.len() ==> final(self).coefficients@ == old(self).coefficients@",
              "final(self).tolerance == old(self).tolerance",
              "final(self).coefficients@.len() <= old(self).coefficients@.len()")

    if want("purge_leading"):
        f = im.fn("purge_leading")
        f.req("old(self).wf()")
        f.ens("final(self).wf()",
              "final(self).coefficients@.len() <= old(self).coefficients@.len()",
              "forall|j: int| 0 <= j < final(self).coefficients@.len() ==> final(self).coefficients@[j] == old(self).coefficients@[j]",
              "forall|j: int| final(self).coefficients@.len() <= j < old(self).coefficients@.len() ==> rabs(old(self).c(j)) <= old(self).tolerance@",
              "final(self).coefficients@.len() == 1 || rabs(final(self).c(final(self).coefficients@.len() - 1)) > final(self).tolerance@",
              "final(self).tolerance == old(self).tolerance")
        f.loop(1, invariant=[
            "self.wf()", "self.tolerance == old(self).tolerance",
            "self.coefficients@.len() <= old(self).coefficients@.len()",
            "forall|j: int| 0 <= j < self.coefficients@.len() ==> self.coefficients@[j] == old(self).coefficients@[j]",
            "forall|j: int| self.coefficients@.len() <= j < old(self).coefficients@.len() ==> rabs(old(self).c(j)) <= old(self).tolerance@",
        ], decreases="self.coefficients@.len()")

    if want("derivative"):
        f = im.fn("derivative")
        f.opt(subst=[("let mut deriv_coeff =", "let mut deriv_coeff: Vec<R> =", "R10-type-annotation")])
        f.req("self.wf()")
        f.ens("res.wf()", "res.tolerance == self.tolerance",
              "self.coefficients@.len() == 1 ==> res.coefficients@.len() == 1 && res.c(0) == 0real",
              "self.coefficients@.len() > 1 ==> res.coefficients@.len() == self.coefficients@.len() - 1",
              "forall|k: int| 0 <= k ==> res.c(k) == (k + 1) as real * self.c(k + 1)")
        f.loop(1, iter="it", invariant=[
            "i == it.index@ + 1", "it.index@ + 1 <= self.coefficients@.len()",
            "deriv_coeff@.len() == it.index@",
            "forall|k: int| 0 <= k < it.index@ ==> deriv_coeff@[k]@ == (k + 1) as real * self.coefficients@[k + 1]@",
            "forall|k: int| 0 <= k < it.history@.len() ==> *it.history@[k] == self.coefficients@[k + 1]",
        ])

    if want("antiderivative"):
        f = im.fn("antiderivative")
        f.req("self.wf()", "self.coefficients@.len() < usize::MAX")
        f.ens("res.wf()", "res.tolerance == self.tolerance",
              "res.coefficients@.len() == self.coefficients@.len() + 1",
              "res.c(0) == constant@",
              "forall|k: int| 0 <= k < self.coefficients@.len() ==> res.c(k + 1) == self.c(k) * (1real / (k + 1) as real)")
        f.loop(1, iter="it", invariant=[
            "ind == it.index@", "it.index@ <= self.coefficients@.len()",
            "coefficients@.len() == it.index@ + 1", "coefficients@[0] == constant",
            "forall|k: int| 0 <= k < it.index@ ==> coefficients@[k + 1]@ == self.coefficients@[k]@ * (1real / (k + 1) as real)",
            "forall|k: int| 0 <= k < it.history@.len() ==> *it.history@[k] == self.coefficients@[k]",
        ])

    if want("integrate"):
        f = im.fn("integrate")
        f.req("self.wf()", "self.coefficients@.len() < usize::MAX")
        f.ens("exists|a: Polynomial| #![trigger a.wf()] a.wf() && a.coefficients@.len() == self.coefficients@.len() + 1 "
              "&& (forall|k: int| 0 <= k < self.coefficients@.len() ==> a.c(k + 1) == self.c(k) * (1real / (k + 1) as real)) "
              "&& res@ == pval(a, upper@) - pval(a, lower@)")


    return im


def from_vec_shim(u):
    """the FromIterator impl of Polynomial instantiated at I = Vec<R> (what `.collect()` into a Polynomial and
    `Polynomial::from_iter` call); `Vec::from_iter(vec)` is that vector (rule R20)"""
    import copy
    c2 = copy.copy(u.cfg)
    c2.drop_generics = set(u.cfg.drop_generics) | {"I"}
    c2.type_subst = [(["I"], "Vec<R>")] + u.cfg.type_subst
    im = u.impl(PFILE, "FromIterator<N> for Polynomial<N>", header="impl Polynomial", keep_assoc=False, cfg=c2)
    f = im.fn("from_iter")
    f.rename = "vx_from_vec"
    f.opt(subst=[("Vec::from_iter(iter)", "iter", "R20-vec-from-iter-of-vec")])
    f.ens("res.coefficients@ == iter@", "res.tolerance@ == 1real / 10000000000real")
    return f
