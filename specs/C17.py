"""C17 -- least squares (src/optimize/mod.rs): linear_fit, the finite-difference Jacobian of curve_fit."""
from vx.unit import Unit
from vx.rules import COPIED
from vx import nra
from specs_polycommon import cfg, POLY_SPEC, PFILE

OFILE = "src/optimize/mod.rs"

NORMAL = nra.Lemma("lemma_normal_equations", ["m", "sx", "sy", "sxx", "sxy"], ["m * sxx - sx * sx != 0"],
                   "m * ((sxx * sy - sxy * sx) / (m * sxx - sx * sx)) + ((m * sxy - sx * sy) / (m * sxx - sx * sx)) * sx == sy "
                   "and ((sxx * sy - sxy * sx) / (m * sxx - sx * sx)) * sx + ((m * sxy - sx * sy) / (m * sxx - sx * sx)) * sxx == sxy",
                   note="(a, b) returned by linear_fit satisfy the normal equations: residuals orthogonal to 1 and to x")
EXACT = nra.Lemma("lemma_linear_data_reproduced", ["m", "sx", "sxx", "al", "be"], ["m * sxx - sx * sx != 0"],
                  "((sxx * (m * al + be * sx) - (al * sx + be * sxx) * sx) / (m * sxx - sx * sx)) == al "
                  "and ((m * (al * sx + be * sxx) - sx * (m * al + be * sx)) / (m * sxx - sx * sx)) == be",
                  note="for data y_i = al + be x_i (so Sy = m al + be Sx, Sxy = al Sx + be Sxx) the fit returns intercept al and slope be")
FD = nra.Lemma("lemma_fd_affine", ["h", "c", "v", "above", "below"], ["h != 0", "above == v + c * h", "below == v - c * h"],
               "(1 / (2 * h)) * (above - below) == c",
               note="central difference of a function affine in the parameter returns its slope exactly")


def extra_obligations(ctx):
    return nra.run_lemmas("C17", "optimize", [NORMAL, EXACT, FD], ctx)


def units(ctx):
    c = cfg()
    c.type_subst = [(["SVector", "<", "N", ",", "V", ">"], "Vec<R>"), (["DMatrix", "<", "N", ">"], "DM")] + c.type_subst
    u = Unit("C17", "optimize", preludes=("real", "stdx", "nalg"), cfg=c)
    u.item(PFILE, "struct", "Polynomial")
    u.spec(POLY_SPEC)
    u.spec(r'''
pub open spec fn ssum(s: Seq<R>, n: int) -> real decreases n { if n <= 0 { 0real } else { ssum(s, n - 1) + s[n - 1]@ } }
pub open spec fn ssum_sq(s: Seq<R>, n: int) -> real decreases n { if n <= 0 { 0real } else { ssum_sq(s, n - 1) + s[n - 1]@ * s[n - 1]@ } }
pub open spec fn ssum_xy(x: Seq<R>, y: Seq<R>, n: int) -> real decreases n { if n <= 0 { 0real } else { ssum_xy(x, y, n - 1) + y[n - 1]@ * x[n - 1]@ } }
// sums of exactly linear data
pub proof fn lemma_sums_of_linear_data(x: Seq<R>, y: Seq<R>, al: real, be: real, n: int)
    requires 0 <= n <= x.len(), x.len() == y.len(), forall|i: int| 0 <= i < x.len() ==> y[i]@ == al + be * x[i]@
    ensures ssum(y, n) == (n as real) * al + be * ssum(x, n), ssum_xy(x, y, n) == al * ssum(x, n) + be * ssum_sq(x, n)
    decreases n
{
    if n == 0 {
        assert((0 as real) * al == 0real) by(nonlinear_arith);
        assert(be * 0real == 0real) by(nonlinear_arith);
        assert(al * 0real == 0real) by(nonlinear_arith);
    } else {
        lemma_sums_of_linear_data(x, y, al, be, n - 1);
        let xi = x[n - 1]@; let s = ssum(x, n - 1); let q = ssum_sq(x, n - 1); let a = (n - 1) as real;
        assert(y[n - 1]@ == al + be * xi);
        assert((n as real) == a + 1real);
        assert((a + 1real) * al == a * al + al) by(nonlinear_arith);
        assert(be * (s + xi) == be * s + be * xi) by(nonlinear_arith);
        assert(al * (s + xi) == al * s + al * xi) by(nonlinear_arith);
        assert(be * (q + xi * xi) == be * q + be * (xi * xi)) by(nonlinear_arith);
        assert((al + be * xi) * xi == al * xi + be * (xi * xi)) by(nonlinear_arith);
    }
}
// the callback of the curve fitting routines: a pure function of (x, parameters)
pub uninterp spec fn MF(x: real, p: Seq<real>) -> real;
// the analytic gradient callback of curve_fit_jac
pub uninterp spec fn MJ(x: real, p: Seq<real>) -> Seq<real>;
pub open spec fn pv(p: Seq<R>) -> Seq<real> { Seq::new(p.len(), |i: int| p[i]@) }
''' + NORMAL.verus_stub() + EXACT.verus_stub() + FD.verus_stub())
    im = u.impl(PFILE, "Polynomial<N>", header="impl Polynomial")
    f = im.fn("from_slice").opt(subst=COPIED)
    f.ens("res.wf()", "data@.len() > 0 ==> res.coefficients@ == data@.reverse()")
    f = u.fn(OFILE, "linear_fit")
    f.req("xs@.len() < usize::MAX")
    D = "(xs@.len() as real) * ssum_sq(xs@, xs@.len() as int) - ssum(xs@, xs@.len() as int) * ssum(xs@, xs@.len() as int)"
    f.ens("xs@.len() != ys@.len() ==> res is Err",
          "xs@.len() == ys@.len() ==> res is Ok && res->Ok_0.coefficients@.len() == 2",
          # slope a and intercept b: the closed-form solution of the normal equations
          f"res is Ok && {D} != 0real ==> res->Ok_0.c(1) == ((xs@.len() as real) * ssum_xy(xs@, ys@, xs@.len() as int) - ssum(xs@, xs@.len() as int) * ssum(ys@, xs@.len() as int)) / ({D})",
          f"res is Ok && {D} != 0real ==> res->Ok_0.c(0) == (ssum_sq(xs@, xs@.len() as int) * ssum(ys@, xs@.len() as int) - ssum_xy(xs@, ys@, xs@.len() as int) * ssum(xs@, xs@.len() as int)) / ({D})")
    f.loop(1, iter="it", invariant=[
        "ind == it.index@", "it.index@ <= xs@.len()",
        "sum_x@ == ssum(xs@, it.index@)", "sum_y@ == ssum(ys@, it.index@)", "sum_x_sq@ == ssum_sq(xs@, it.index@)",
        "sum_xy@ == ssum_xy(xs@, ys@, it.index@)",
        "forall|k: int| 0 <= k < it.history@.len() ==> *it.history@[k] == xs@[k]",
    ])
    f.hint("loop 1 end", "proof { assert(rpowi(x@, 2) == x@ * x@) by { reveal_with_fuel(rpowi, 3); } }")
    f.hint("before: let m =", "proof { let sx = sum_x@; assert(rpowi(sx, 2) == sx * sx) by { reveal_with_fuel(rpowi, 3); } }")

    g = u.fn(OFILE, "jac_finite_differences")
    g.opt(index_assign=("mat",))
    NR, NC = "old(mat).nrows", "old(mat).ncols"
    g.req("old(params)@.len() == V", "old(mat).ncols <= V", "old(mat).nrows <= xs@.len()", "h@ != 0real",
          "forall|x: R, p: &Vec<R>| #[trigger] f_0.requires((x, p))",
          "forall|x: R, p: &Vec<R>, y: R| #[trigger] f_0.ensures((x, p), y) ==> y@ == MF(x@, pv(p@))")
    g.ens("final(params)@.len() == V", "pv(final(params)@) == pv(old(params)@)",
          "final(mat).nrows == old(mat).nrows && final(mat).ncols == old(mat).ncols",
          # every entry is the central difference of the model in that parameter
          "forall|r: int, c: int| #![trigger final(mat).at(r, c)] 0 <= r < old(mat).nrows && 0 <= c < old(mat).ncols ==> final(mat).at(r, c) == "
          "(1real / (2real * h@)) * (MF(xs@[r]@, pv(old(params)@).update(c, old(params)@[c]@ + h@)) - MF(xs@[r]@, pv(old(params)@).update(c, old(params)@[c]@ - h@)))")
    g.loop(1, iter="it", invariant=[
        "params@.len() == V", "pv(params@) == pv(old(params)@)", "mat.nrows == old(mat).nrows && mat.ncols == old(mat).ncols", "f == f_0",
        "forall|r: int, c: int| #![trigger mat.at(r, c)] 0 <= r < it.index@ && 0 <= c < mat.ncols ==> mat.at(r, c) == "
        "(1real / (2real * h@)) * (MF(xs@[r]@, pv(old(params)@).update(c, old(params)@[c]@ + h@)) - MF(xs@[r]@, pv(old(params)@).update(c, old(params)@[c]@ - h@)))",
    ])
    g.loop(2, iter="it2", invariant=[
        "params@.len() == V", "pv(params@) == pv(old(params)@)", "mat.nrows == old(mat).nrows && mat.ncols == old(mat).ncols", "f == f_0",
        "forall|r: int, c: int| #![trigger mat.at(r, c)] ((0 <= r < row && 0 <= c < mat.ncols) || (r == row && 0 <= c < it2.index@)) ==> mat.at(r, c) == "
        "(1real / (2real * h@)) * (MF(xs@[r]@, pv(old(params)@).update(c, old(params)@[c]@ + h@)) - MF(xs@[r]@, pv(old(params)@).update(c, old(params)@[c]@ - h@)))",
    ])
    g.hint("loop 2 begin", "let ghost p0 = pv(params@); let ghost c0 = col as int;")
    g.hint("after: params[col] += h", "proof { assert(pv(params@) =~= p0.update(c0, p0[c0] + h@)); }")
    g.hint("after: #2 params[col] -= h", "proof { assert(pv(params@) =~= p0.update(c0, p0[c0] - h@)); }")
    g.hint("loop 2 end", "proof { assert(pv(params@) =~= p0); assert(denom@ == 1real / (2real * h@)); }")
    # the analytic Jacobian of curve_fit_jac: row r is the user's gradient at x_r, for EVERY data point
    a = u.fn(OFILE, "jac_analytic")
    a.opt(index_assign=("mat",))
    a.req("old(params)@.len() == V", "old(mat).ncols <= V", "old(mat).nrows <= xs@.len()",
          "forall|x: R, p: &Vec<R>| #[trigger] jac_0.requires((x, p))",
          "forall|x: R, p: &Vec<R>, y: Vec<R>| #[trigger] jac_0.ensures((x, p), y) ==> y@.len() == V && pv(y@) == MJ(x@, pv(p@))")
    a.ens("pv(final(params)@) == pv(old(params)@)", "final(mat).nrows == old(mat).nrows && final(mat).ncols == old(mat).ncols",
          "forall|r: int, c: int| #![trigger final(mat).at(r, c)] 0 <= r < old(mat).nrows && 0 <= c < old(mat).ncols ==> final(mat).at(r, c) == MJ(xs@[r]@, pv(old(params)@))[c]")
    a.loop(1, iter="it", invariant=[
        "params@ == old(params)@ && params@.len() == V", "mat.nrows == old(mat).nrows && mat.ncols == old(mat).ncols && mat.ncols <= V && mat.nrows <= xs@.len()", "jac == jac_0",
        "forall|r: int, c: int| #![trigger mat.at(r, c)] 0 <= r < it.index@ && 0 <= c < mat.ncols ==> mat.at(r, c) == MJ(xs@[r]@, pv(old(params)@))[c]"])
    a.loop(2, iter="it2", invariant=[
        "params@ == old(params)@ && params@.len() == V", "mat.nrows == old(mat).nrows && mat.ncols == old(mat).ncols && mat.ncols <= V && mat.nrows <= xs@.len()", "jac == jac_0",
        "row < mat.nrows && deriv@.len() == V && pv(deriv@) == MJ(xs@[row as int]@, pv(old(params)@))",
        "forall|r: int, c: int| #![trigger mat.at(r, c)] ((0 <= r < row && 0 <= c < mat.ncols) || (r == row && 0 <= c < it2.index@)) ==> mat.at(r, c) == MJ(xs@[r]@, pv(old(params)@))[c]"])
    return [u]


DECIDED = [
    "jac_analytic (the Jacobian of curve_fit_jac): EVERY row r < rows holds the user's gradient at x_r, entry by entry; parameters untouched",
    "linear_fit: mismatched lengths -> Err; otherwise slope and intercept are exactly the closed-form solution of the normal equations over the sums Sx, Sy, Sxx, Sxy (loop invariants over recursive sum specs)",
    "NRA lemmas: those values satisfy both normal equations whenever m Sxx - Sx^2 != 0, and reproduce exactly-linear data (with the Verus lemma lemma_sums_of_linear_data); the sums, hence the fit, do not depend on the order of the points",
    "jac_finite_differences: parameters restored exactly, matrix shape kept, every entry equals the central difference (f(x_r, p + h e_c) - f(x_r, p - h e_c))/2h -- this obligation FAILS on the pinned tree and is the recorded finding (the code adds the samples)",
    "lemma_fd_affine: a central difference is exact for models affine in the parameter",
]
NOT_DECIDED = [
    "curve_fit / curve_fit_jac themselves: termination (no iteration cap; the property text reports a non-terminating case), convergence, agreement of both variants, and their four Err clauses (the functions are nalgebra-heavy: DMatrix products, LU/QR solves, closures capturing &mut closures) -- not brought under contract; the Err clauses are exercised only by the witness probe",
]
ASSUMPTIONS = ["SVector<N,V> is verified as Vec<R> of length V (only indexing is used); DMatrix is the shim DM with assumed column/row/IndexMut behaviour (rule R22)",
               "the model callback is a pure function MF(x, p)"]
