"""C17 -- least squares (src/optimize/mod.rs): linear_fit, the finite-difference Jacobian of curve_fit."""
from vx.unit import Unit
from vx.rules import COPIED
from vx import nra
from specs_polycommon import cfg, POLY_SPEC, PFILE

OFILE = "src/optimize/mod.rs"

NORMAL = nra.Lemma("lemma_normal_equations", ["m", "sx", "sy", "sxx", "sxy"], ["m * sxx - sx * sx != 0"],
                   "m * ((sxx * sy - sxy * sx) / (m * sxx - sx * sx)) + ((m * sxy - sx * sy) / (m * sxx - sx * sx)) * sx == sy "
                   "and ((sxx * sy - sxy * sx) / (m * sxx - sx * sx)) * sx + ((m * sxy - sx * sy) / (m * sxx - sx * sx)) * sxx == sxy",
                   note="(a, b) returned by linear_fit satisfy the normal equations: residuals orthogonal to 1 and to x")
EXACT = nra.Lemma("lemma_linear_data_reproduced", ["m", "sx", "sxx", "al", "be"], ["m * sxx - sx * sx != 0"],
                  "((sxx * (m * al + be * sx) - (al * sx + be * sxx) * sx) / (m * sxx - sx * sx)) == al "
                  "and ((m * (al * sx + be * sxx) - sx * (m * al + be * sx)) / (m * sxx - sx * sx)) == be",
                  note="for data y_i = al + be x_i (so Sy = m al + be Sx, Sxy = al Sx + be Sxx) the fit returns intercept al and slope be")
FD = nra.Lemma("lemma_fd_affine", ["h", "c", "v", "above", "below"], ["h != 0", "above == v + c * h", "below == v - c * h"],
               "(1 / (2 * h)) * (above - below) == c",
               note="central difference of a function affine in the parameter returns its slope exactly")


def extra_obligations(ctx):
    return nra.run_lemmas("C17", "optimize", [NORMAL, EXACT, FD], ctx)


def units(ctx):
    c = cfg()
    c.type_subst = [(["SVector", "<", "N", ",", "V", ">"], "Vec<R>"), (["DMatrix", "<", "N", ">"], "DM")] + c.type_subst
    u = Unit("C17", "optimize", preludes=("real", "stdx", "nalg"), cfg=c)
    u.item(PFILE, "struct", "Polynomial")
    u.spec(POLY_SPEC)
    u.spec(r'''
pub open spec fn ssum(s: Seq<R>, n: int) -> real decreases n { if n <= 0 { 0real } else { ssum(s, n - 1) + s[n - 1]@ } }
pub open spec fn ssum_sq(s: Seq<R>, n: int) -> real decreases n { if n <= 0 { 0real } else { ssum_sq(s, n - 1) + s[n - 1]@ * s[n - 1]@ } }
pub open spec fn ssum_xy(x: Seq<R>, y: Seq<R>, n: int) -> real decreases n { if n <= 0 { 0real } else { ssum_xy(x, y, n - 1) + y[n - 1]@ * x[n - 1]@ } }
// sums of exactly linear data
pub proof fn lemma_sums_of_linear_data(x: Seq<R>, y: Seq<R>, al: real, be: real, n: int)
    requires 0 <= n <= x.len(), x.len() == y.len(), forall|i: int| 0 <= i < x.len() ==> y[i]@ == al + be * x[i]@
    ensures ssum(y, n) == (n as real) * al + be * ssum(x, n), ssum_xy(x, y, n) == al * ssum(x, n) + be * ssum_sq(x, n)
    decreases n
{
    if n == 0 {
        assert((0 as real) * al == 0real) by(nonlinear_arith);
        assert(be * 0real == 0real) by(nonlinear_arith);
        assert(al * 0real == 0real) by(nonlinear_arith);
    } else {
        lemma_sums_of_linear_data(x, y, al, be, n - 1);
        let xi = x[n - 1]@; let s = ssum(x, n - 1); let q = ssum_sq(x, n - 1); let a = (n - 1) as real;
        assert(y[n - 1]@ == al + be * xi);
        assert((n as real) == a + 1real);
        assert((a + 1real) * al == a * al + al) by(nonlinear_arith);
        assert(be * (s + xi) == be * s + be * xi) by(nonlinear_arith);
        assert(al * (s + xi) == al * s + al * xi) by(nonlinear_arith);
        assert(be * (q + xi * xi) == be * q + be * (xi * xi)) by(nonlinear_arith);
        assert((al + be * xi) * xi == al * xi + be * (xi * xi)) by(nonlinear_arith);
    }
}
// the callback of the curve fitting routines: a pure function of (x, parameters)
pub uninterp spec fn MF(x: real, p: Seq<real>) -> real;
// the analytic gradient callback of curve_fit_jac
pub uninterp spec fn MJ(x: real, p: Seq<real>) -> Seq<real>;
pub open spec fn pv(p: Seq<R>) -> Seq<real> { Seq::new(p.len(), |i: int| p[i]@) }
''' + NORMAL.verus_stub() + EXACT.verus_stub() + FD.verus_stub())
    im = u.impl(PFILE, "Polynomial<N>", header="impl Polynomial")
    f = im.fn("from_slice").opt(subst=COPIED)
    f.ens("res.wf()", "data@.len() > 0 ==> res.coefficients@ == data@.reverse()")
    f = u.fn(OFILE, "linear_fit")
    f.req("xs@.len() < usize::MAX")
    D = "(xs@.len() as real) * ssum_sq(xs@, xs@.len() as int) - ssum(xs@, xs@.len() as int) * ssum(xs@, xs@.len() as int)"
    f.ens("xs@.len() != ys@.len() ==> res is Err",
          "xs@.len() == ys@.len() ==> res is Ok && res->Ok_0.coefficients@.len() == 2",
          # slope a and intercept b: the closed-form solution of the normal equations
          f"res is Ok && {D} != 0real ==> res->Ok_0.c(1) == ((xs@.len() as real) * ssum_xy(xs@, ys@, xs@.len() as int) - ssum(xs@, xs@.len() as int) * ssum(ys@, xs@.len() as int)) / ({D})",
          f"res is Ok && {D} != 0real ==> res->Ok_0.c(0) == (ssum_sq(xs@, xs@.len() as int) * ssum(ys@, xs@.len() as int) - ssum_xy(xs@, ys@, xs@.len() as int) * ssum(xs@, xs@.len() as int)) / ({D})")
    f.loop(1, iter="it", invariant=[
        "ind == it.index@", "it.index@ <= xs@.len()",
        "sum_x@ == ssum(xs@, it.index@)", "sum_y@ == ssum(ys@, it.index@)", "sum_x_sq@ == ssum_sq(xs@, it.index@)",
        "sum_xy@ == ssum_xy(xs@, ys@, it.index@)",
        "forall|k: int| 0 <= k < it.history@.len() ==> *it.history@[k] == xs@[k]",
    ])
    f.hint("loop 1 end", "proof { assert(rpowi(x@, 2) == x@ * x@) by { reveal_with_fuel(rpowi, 3); } }")
    f.hint("before: let m =", "proof { let sx = sum_x@; assert(rpowi(sx, 2) == sx * sx) by { reveal_with_fuel(rpowi, 3); } }")

    g = u.fn(OFILE, "jac_finite_differences")
    g.opt(index_assign=("mat",))
    NR, NC = "old(mat).nrows", "old(mat).ncols"
    g.req("old(params)@.len() == V", "old(mat).ncols <= V", "old(mat).nrows <= xs@.len()", "h@ != 0real",
          "forall|x: R, p: &Vec<R>| #[trigger] f_0.requires((x, p))",
          "forall|x: R, p: &Vec<R>, y: R| #[trigger] f_0.ensures((x, p), y) ==> y@ == MF(x@, pv(p@))")
    g.ens("final(params)@.len() == V", "pv(final(params)@) == pv(old(params)@)",
          "final(mat).nrows == old(mat).nrows && final(mat).ncols == old(mat).ncols",
          # every entry is the central difference of the model in that parameter
          "forall|r: int, c: int| #![trigger final(mat).at(r, c)] 0 <= r < old(mat).nrows && 0 <= c < old(mat).ncols ==> final(mat).at(r, c) == "
          "(1real / (2real * h@)) * (MF(xs@[r]@, pv(old(params)@).update(c, old(params)@[c]@ + h@)) - MF(xs@[r]@, pv(old(params)@).update(c, old(params)@[c]@ - h@)))")
    g.loop(1, iter="it", invariant=[
        "params@.len() == V", "pv(params@) == pv(old(params)@)", "mat.nrows == old(mat).nrows && mat.ncols == old(mat).ncols", "f == f_0",
        "forall|r: int, c: int| #![trigger mat.at(r, c)] 0 <= r < it.index@ && 0 <= c < mat.ncols ==> mat.at(r, c) == "
        "(1real / (2real * h@)) * (MF(xs@[r]@, pv(old(params)@).update(c, old(params)@[c]@ + h@)) - MF(xs@[r]@, pv(old(params)@).update(c, old(params)@[c]@ - h@)))",
    ])
    g.loop(2, iter="it2", invariant=[
        "params@.len() == V", "pv(params@) == pv(old(params)@)", "mat.nrows == old(mat).nrows && mat.ncols == old(mat).ncols", "f == f_0",
        "forall|r: int, c: int| #![trigger mat.at(r, c)] ((0 <= r < row && 0 <= c < mat.ncols) || (r == row && 0 <= c < it2.index@)) ==> mat.at(r, c) == "
        "(1real / (2real * h@)) * (MF(xs@[r]@, pv(old(params)@).update(c, old(params)@[c]@ + h@)) - MF(xs@[r]@, pv(old(params)@).update(c, old(params)@[c]@ - h@)))",
    ])
    g.hint("loop 2 begin", "let ghost p0 = pv(params@); let ghost c0 = col as int;")
    g.hint("after: params[col] += h", "proof { assert(pv(params@) =~= p0.update(c0, p0[c0] + h@)); }")
    g.hint("after: #2 params[col] -= h", "proof { assert(pv(params@) =~= p0.update(c0, p0[c0] - h@)); }")
    g.hint("loop 2 end", "proof { assert(pv(params@) =~= p0); assert(denom@ == 1real / (2real * h@)); }")
    # the analytic Jacobian of curve_fit_jac: row r is the user's gradient at x_r, for EVERY data point
    a = u.fn(OFILE, "jac_analytic")
    a.opt(index_assign=("mat",))
    a.req("old(params)@.len() == V", "old(mat).ncols <= V", "old(mat).nrows <= xs@.len()",
          "forall|x: R, p: &Vec<R>| #[trigger] jac_0.requires((x, p))",
          "forall|x: R, p: &Vec<R>, y: Vec<R>| #[trigger] jac_0.ensures((x, p), y) ==> y@.len() == V && pv(y@) == MJ(x@, pv(p@))")
    a.ens("pv(final(params)@) == pv(old(params)@)", "final(mat).nrows == old(mat).nrows && final(mat).ncols == old(mat).ncols",
          "forall|r: int, c: int| #![trigger final(mat).at(r, c)] 0 <= r < old(mat).nrows && 0 <= c < old(mat).ncols ==> final(mat).at(r, c) == MJ(xs@[r]@, pv(old(params)@))[c]")
    a.loop(1, iter="it", invariant=[
        "params@ == old(params)@ && params@.len() == V", "mat.nrows == old(mat).nrows && mat.ncols == old(mat).ncols && mat.ncols <= V && mat.nrows <= xs@.len()", "jac == jac_0",
        "forall|r: int, c: int| #![trigger mat.at(r, c)] 0 <= r < it.index@ && 0 <= c < mat.ncols ==> mat.at(r, c) == MJ(xs@[r]@, pv(old(params)@))[c]"])
    a.loop(2, iter="it2", invariant=[
        "params@ == old(params)@ && params@.len() == V", "mat.nrows == old(mat).nrows && mat.ncols == old(mat).ncols && mat.ncols <= V && mat.nrows <= xs@.len()", "jac == jac_0",
        "row < mat.nrows && deriv@.len() == V && pv(deriv@) == MJ(xs@[row as int]@, pv(old(params)@))",
        "forall|r: int, c: int| #![trigger mat.at(r, c)] ((0 <= r < row && 0 <= c < mat.ncols) || (r == row && 0 <= c < it2.index@)) ==> mat.at(r, c) == MJ(xs@[r]@, pv(old(params)@))[c]"])
    return [u, lm_unit(), lm_helpers_unit()]


LM_SPEC = r'''
pub uninterp spec fn MF(x: real, p: Seq<real>) -> real;
pub uninterp spec fn MJ(x: real, p: Seq<real>) -> Seq<real>;
pub open spec fn pv(p: Seq<R>) -> Seq<real> { Seq::new(p.len(), |i: int| p[i]@) }
// the model and its gradient are pure functions of (x, parameters)
pub open spec fn model_ok<F: FnMut(R, &Vec<R>) -> R>(f: F) -> bool {
    (forall|x: R, p: &Vec<R>| #[trigger] f.requires((x, p))) && (forall|x: R, p: &Vec<R>, y: R| #[trigger] f.ensures((x, p), y) ==> y@ == MF(x@, pv(p@)))
}
pub open spec fn grad_ok<G: FnMut(R, &Vec<R>) -> Vec<R>>(g: G, v: nat) -> bool {
    (forall|x: R, p: &Vec<R>| #[trigger] g.requires((x, p))) && (forall|x: R, p: &Vec<R>, y: Vec<R>| #[trigger] g.ensures((x, p), y) ==> y@.len() == v && pv(y@) == MJ(x@, pv(p@)))
}
// the model evaluated at every abscissa
pub open spec fn fvals(xs: Seq<R>, p: Seq<real>) -> Seq<real> { Seq::new(xs.len(), |i: int| MF(xs[i]@, p)) }
// `DVector::from_iterator(xs.len(), xs.iter().map(|&x| f(x, &p)))`: the model at every abscissa, in order
#[verifier::external_body]
pub fn vx_model_values<F: FnMut(R, &Vec<R>) -> R>(xs: &[R], f: &mut F, p: &Vec<R>) -> (r: DV)
    requires model_ok(*old(f))
    ensures *final(f) == *old(f), r@ == fvals(xs@, pv(p@))
{ unimplemented!() }
// SVector<N, V> is Copy: a by-value use of it is a copy
#[verifier::external_body]
pub fn vx_svec_copy(p: &Vec<R>) -> (r: Vec<R>) ensures r@.len() == p@.len(), pv(r@) == pv(p@) { unimplemented!() }
// ---- one Levenberg-Marquardt iteration ----
// residual sum of squares of the model with parameters p
pub open spec fn ss(xs: Seq<R>, ys: Seq<real>, p: Seq<real>) -> real { ssq(wsub(ys, fvals(xs, p)), ys.len() as int) }
// m is `base` with its diagonal multiplied by fac  (J^T J + lambda diag(J^T J), fac = 1 + lambda)
pub open spec fn damped(m: DM, base: MF2, n: nat, fac: real) -> bool {
    m.nrows == n && m.ncols == n && forall|r: int, c: int| #![trigger m.at(r, c)] 0 <= r < n && 0 <= c < n ==> m.at(r, c) == if r == c { base(r, c) * fac } else { base(r, c) }
}
// c = p + delta, where delta solves  damped(J^T J, fac) delta = J^T (y - ev)   (jt, j: the Jacobian's transpose and the Jacobian; ev: model values)
pub open spec fn lm_cand(c: Seq<real>, p: Seq<real>, ev: Seq<real>, ys: Seq<real>, jt: MF2, j: MF2, n: nat, v: nat, fac: real) -> bool {
    exists|m: DM| #![trigger m.e] damped(m, mm(jt, j, n), v, fac) && c == wadd(p, lsolve(m.e@, v, mvv(jt, v, n, wsub(ys, ev))))
}
// of two candidates the one with the smaller residual sum of squares is kept (the less damped one only if it is strictly better),
// the damping follows the choice
pub open spec fn lm_pick(xs: Seq<R>, ys: Seq<real>, c1: Seq<real>, c2: Seq<real>, lam: real, mu: real, p1: Seq<real>, lam1: real) -> bool {
    if ss(xs, ys, c2) < ss(xs, ys, c1) { p1 == c2 && lam1 == lam / mu } else { p1 == c1 && lam1 == lam }
}
// one iteration from parameters p0 (with model values ev0 and Jacobian j / jt in hand) with damping lam: both candidates are LM steps
// (as far as the first LU solve of each succeeded), the better one is kept
pub open spec fn lm_step(xs: Seq<R>, ys: Seq<real>, v: nat, p0: Seq<real>, ev0: Seq<real>, jt: MF2, j: MF2, lam: real, mu: real, ok1: bool, ok2: bool, p1: Seq<real>, lam1: real) -> bool {
    exists|c1: Seq<real>, c2: Seq<real>| #![trigger lm_pick(xs, ys, c1, c2, lam, mu, p1, lam1)]
        (ok1 ==> lm_cand(c1, p0, ev0, ys, jt, j, xs.len(), v, 1real + lam)) && (ok2 ==> lm_cand(c2, p0, ev0, ys, jt, j, xs.len(), v, 1real + lam / mu))
        && lm_pick(xs, ys, c1, c2, lam, mu, p1, lam1)
}
// what an Ok result of the curve fitting routines is: the starting parameters (no iteration was needed) or the outcome of an LM iteration
pub open spec fn lm_result(xs: Seq<R>, ys: Seq<real>, v: nat, start: Seq<real>, mu: real, res: Seq<real>) -> bool {
    res == start || exists|p0: Seq<real>, ev0: Seq<real>, jt: MF2, j: MF2, lam: real, ok1: bool, ok2: bool, lam1: real| #![trigger lm_step(xs, ys, v, p0, ev0, jt, j, lam, mu, ok1, ok2, res, lam1)]
        lm_step(xs, ys, v, p0, ev0, jt, j, lam, mu, ok1, ok2, res, lam1)
}
// ---- callees, CONTRACTS ONLY (jac_analytic is proved in unit `optimize`; it is called with `&mut jacobian`) ----
#[verifier::external_body]
pub fn jac_analytic<G: FnMut(R, &Vec<R>) -> Vec<R>, const V: usize>(jac: &mut G, xs: &[R], params: &mut Vec<R>, mat: &mut DM)
    requires old(params)@.len() == V, old(mat).ncols <= V, old(mat).nrows <= xs@.len(), grad_ok(*old(jac), V as nat)
    ensures *final(jac) == *old(jac), final(params)@.len() == V, pv(final(params)@) == pv(old(params)@), final(mat).nrows == old(mat).nrows && final(mat).ncols == old(mat).ncols,
        forall|r: int, c: int| #![trigger final(mat).at(r, c)] 0 <= r < old(mat).nrows && 0 <= c < old(mat).ncols ==> final(mat).at(r, c) == MJ(xs@[r]@, pv(old(params)@))[c]
{ unimplemented!() }
'''


JFD_STUB = r'''
// contracts only: jac_finite_differences is under contract in unit `optimize` (where its central-difference clause is the recorded finding);
// here only what the iteration needs: shapes, parameters restored
#[verifier::external_body]
pub fn jac_finite_differences<F: FnMut(R, &Vec<R>) -> R, const V: usize>(f: &mut F, xs: &[R], params: &mut Vec<R>, mat: &mut DM, h: R)
    requires old(params)@.len() == V, old(mat).ncols <= V, old(mat).nrows <= xs@.len(), model_ok(*old(f))
    ensures *final(f) == *old(f), final(params)@.len() == V, pv(final(params)@) == pv(old(params)@), final(mat).nrows == old(mat).nrows && final(mat).ncols == old(mat).ncols
{ unimplemented!() }
'''


def lm_fn(u, name, SUB, extra_sub, extra_req, extra_ens, extra_inv, end_anchor):
    f = u.fn(OFILE, name)
    f.attrs.append("#[verifier::exec_allows_no_decreases_clause]")
    f.opt(subst=SUB + [("&mut jac_transpose, params, )?", "&mut jac_transpose, vx_svec_copy(&params), )?", "R35-svector-is-copy")] + extra_sub,
          index_mul_assign=("multiplied", "multiplied_div"), ref_sub=("ys", "evaluation", "evaluation_div"))
    # damping_mult is not validated by the routine: a zero factor (division by it) is outside the contract
    f.req("model_ok(f_0)", "initial@.len() == V", "params.damping_mult@ != 0real", *extra_req)
    f.ens("params.tolerance@ < 0real ==> res is Err", "params.damping@ < 0real ==> res is Err", "xs@.len() != ys@.len() ==> res is Err", *extra_ens,
          "res is Ok ==> res->Ok_0@.len() == V",
          # an Ok result is the start or the outcome of a Levenberg-Marquardt iteration
          "res is Ok ==> lm_result(xs@, sl(ys), V as nat, sl(initial), params.damping_mult@, pv(res->Ok_0@))")
    SHAPES = ["params@.len() == V", "ys@.len() == xs@.len()", "evaluation@.len() == xs@.len()", "jac.nrows == xs@.len() && jac.ncols == V",
              "jac_transpose.nrows == V && jac_transpose.ncols == xs@.len()", "model_ok(f)"] + extra_inv
    f.hint("before: let mut last_sum_sq", "let ghost g_it: nat = 0; let ghost g_p0: Seq<real> = Seq::empty(); let ghost g_ev0: Seq<real> = Seq::empty(); let ghost g_jt: MF2 = jac.e@; let ghost g_j: MF2 = jac.e@; "
           "let ghost g_lam: real = 0real; let ghost g_ok1: bool = false; let ghost g_ok2: bool = false; let ghost vx_start = pv(params@); proof { assert(pv(params@) =~= sl(initial)); }")
    f.loop(1, invariant=SHAPES + [
        "damping_mult@ != 0real",
        "g_it == 0 ==> pv(params@) == vx_start",
        "g_it > 0 ==> lm_step(xs@, ys@, V as nat, g_p0, g_ev0, g_jt, g_j, g_lam, damping_mult@, g_ok1, g_ok2, pv(params@), damping@)",
        # after an iteration the bookkeeping is consistent with the parameters kept
        "g_it > 0 ==> evaluation@ == fvals(xs@, pv(params@)) && sum_sq@ == ss(xs@, ys@, pv(params@))"])
    f.hint("loop 1 begin", "let ghost p0 = pv(params@); let ghost ev0 = evaluation@; let ghost jt0 = jac_transpose.e@; let ghost j0 = jac.e@; let ghost lam0 = damping@;")
    f.hint("before: for i in 0..multiplied.row(0).len()", "let ghost base = multiplied.e@; let ghost rhs = b@; proof { assert(base == mm(jt0, j0, xs@.len() as nat)); assert(rhs == mvv(jt0, V as nat, xs@.len() as nat, wsub(ys@, ev0))); }")
    f.loop(2, iter="it", invariant=["multiplied.nrows == V && multiplied.ncols == V", "it.iter.end == V",
                                    "forall|r: int, c: int| #![trigger multiplied.at(r, c)] 0 <= r < V && 0 <= c < V ==> multiplied.at(r, c) == if r == c && r < it.index@ { base(r, c) * (1real + damping@) } else { base(r, c) }"])
    f.hint("after: let lu_solved =", "let ghost m1 = multiplied; let ghost ok1 = lu_solved; proof { assert(damped(m1, base, V as nat, 1real + lam0)); }")
    f.loop(3, iter="it3", invariant=["multiplied_div.nrows == V && multiplied_div.ncols == V", "it3.iter.end == V",
                                     "forall|r: int, c: int| #![trigger multiplied_div.at(r, c)] 0 <= r < V && 0 <= c < V ==> multiplied_div.at(r, c) == if r == c && r < it3.index@ { base(r, c) * (1real + damping@ / damping_mult@) } else { base(r, c) }"])
    f.hint("after: let solved =", "let ghost m2 = multiplied_div; let ghost ok2 = solved; proof { assert(damped(m2, base, V as nat, 1real + lam0 / damping_mult@)); }")
    f.hint("before: if resid_div", """let ghost c1 = pv(new_params@); let ghost c2 = pv(new_params_div@);
        proof {
            if ok1 { assert(c1 =~= wadd(p0, lsolve(m1.e@, V as nat, rhs))); assert(lm_cand(c1, p0, ev0, ys@, jt0, j0, xs@.len() as nat, V as nat, 1real + lam0)); }
            if ok2 { assert(c2 =~= wadd(p0, lsolve(m2.e@, V as nat, rhs))); assert(lm_cand(c2, p0, ev0, ys@, jt0, j0, xs@.len() as nat, V as nat, 1real + lam0 / damping_mult@)); }
            assert(resid@ == ss(xs@, ys@, c1) && resid_div@ == ss(xs@, ys@, c2));
        }""")
    f.hint(end_anchor, """proof {
            assert(lm_pick(xs@, ys@, c1, c2, lam0, damping_mult@, pv(params@), damping@));
            g_it = g_it + 1; g_p0 = p0; g_ev0 = ev0; g_jt = jt0; g_j = j0; g_lam = lam0; g_ok1 = ok1; g_ok2 = ok2;
        }""")
    return f


def lm_helpers_unit():
    """the start-up helpers of the two curve fitting routines: bodies verified for memory safety and shapes"""
    c = cfg()
    c.type_subst = [(["SVector", "<", "N", ",", "V", ">"], "Vec<R>"), (["DMatrix", "<", "N", ">"], "DM"), (["DVector", "<", "N", ">"], "DV")] + c.type_subst
    u = Unit("C17", "lm_helpers", preludes=("real", "stdx", "nalg", "lm"), cfg=c)
    u.spec(LM_SPEC)
    u.spec(JFD_STUB)
    HSUB = [
        ("ys[ind] - f(x, &params)", "ys.v[ind] - f(x, &params)", "R26-dvector-entry"),
        ("resid .iter() .map(|&r| r.modulus_squared()) .fold(N::RealField::zero(), |acc, r| acc + r)", "vx_sum_sq_vec(&resid)", "R35-map-fold-as-helper"),
        ("DVector::from_iterator(xs.len(), xs.iter().map(|&x| f(x, &params)))", "vx_model_values(xs, &mut f, &params)", "R35-map-collect-as-helper"),
        ("ys - &evaluation", "ys.vx_sub_ref(&evaluation)", "R29-ref-operator-as-call"),
        ("jac_transpose as &DMatrix<N> * &diff", "jac_transpose.vx_mul_vec(&diff)", "R29-ref-operator-as-call"),
        ("jac_transpose as &DMatrix<N> * jac as &DMatrix<N>", "jac_transpose.vx_mul(jac)", "R29-ref-operator-as-call"),
        ("params += &b;", "vx_svec_add_assign(&mut params, &b);", "R29-ref-operator-as-call"),
        ("diff .iter() .map(|&r| r.modulus_squared()) .fold(N::RealField::zero(), |acc, r| acc + r)", "vx_sum_sq(&diff)", "R35-map-fold-as-helper"),
    ]
    for nm, extra, reqs, inv in (("initial_residuals_exact", [("jac_analytic(&mut jacobian", "jac_analytic::<G, V>(&mut jacobian", "R36-explicit-const-generic")],
                                  ["grad_ok(jacobian_0, V as nat)"], ["grad_ok(jacobian, V as nat)"]),
                                 ("initial_residuals", [("jac_finite_differences(&mut f", "jac_finite_differences::<F, V>(&mut f", "R36-explicit-const-generic")], [], [])):
        g = u.fn(OFILE, nm)
        g.attrs = []
        g.opt(subst=HSUB + extra, index_mul_assign=("multiplied",))
        g.req("model_ok(f_0)", "params_0@.len() == V", "old(jac).nrows == xs@.len()", "old(jac).ncols == V", "old(jac_transpose).nrows == V", "old(jac_transpose).ncols == xs@.len()", "ys@.len() == xs@.len()", "xs@.len() < usize::MAX", *reqs)
        g.ens("final(jac).nrows == old(jac).nrows", "final(jac).ncols == old(jac).ncols", "final(jac_transpose).nrows == final(jac).ncols", "final(jac_transpose).ncols == final(jac).nrows",
              "res is Ok ==> res->Ok_0.1@.len() == xs@.len()")
        g.loop(1, iter="it", invariant=["resid@.len() == it.index@", "params@.len() == V", "ys@.len() == xs@.len()", "model_ok(f)", "ind == it.index@", "it.index@ <= xs@.len()", "xs@.len() < usize::MAX",
                                        "forall|k: int| 0 <= k < it.history@.len() ==> *it.history@[k] == xs@[k]"])
        g.loop(2, invariant=["params@.len() == V", "ys@.len() == xs@.len()", "evaluation@.len() == xs@.len()", "jac.nrows == xs@.len() && jac.ncols == V",
                             "jac_transpose.nrows == V && jac_transpose.ncols == xs@.len()", "model_ok(f)", "j <= 1000",
                             "old(jac).nrows == xs@.len() && old(jac).ncols == V"] + inv, decreases="1000 - j")
        g.loop(3, iter="it3", invariant=["multiplied.nrows == V && multiplied.ncols == V", "it3.iter.end == V"])
    return u


def lm_unit():
    """curve_fit_jac (Levenberg-Marquardt with the analytic Jacobian)"""
    c = cfg()
    c.type_subst = [(["SVector", "<", "N", ",", "V", ">"], "Vec<R>"), (["DMatrix", "<", "N", ">"], "DM"), (["DVector", "<", "N", ">"], "DV"),
                    (["CurveFitParams", "<", "N", ">"], "CurveFitParams")] + c.type_subst
    u = Unit("C17", "lm", preludes=("real", "stdx", "nalg", "lm"), cfg=c)
    u.item(OFILE, "struct", "CurveFitParams")
    u.spec(LM_SPEC)
    SUB = [
        ("SVector::<N, V>::from_column_slice(initial)", "vx_svec_from_slice(initial)", "R35-svector-from-slice"),
        ("DVector::<N>::from_column_slice(ys)", "DV::vx_from_slice(ys)", "R35-dvector-from-slice"),
        ("DMatrix::identity(", "DM::identity(", "R1-type-instantiation"),
        # SVector<N, V> became Vec<R>: the const argument V can no longer be inferred from the argument types
        ("jac_analytic(&mut jacobian", "jac_analytic::<G, V>(&mut jacobian", "R36-explicit-const-generic"),
        ("initial_residuals_exact(", "initial_residuals_exact::<F, G, V>(", "R36-explicit-const-generic"),
        ("&jac_transpose * &diff", "jac_transpose.vx_mul_vec(&diff)", "R29-ref-operator-as-call"),
        ("&jac_transpose * &jac", "jac_transpose.vx_mul(&jac)", "R29-ref-operator-as-call"),
        ("DVector::from_iterator(xs.len(), xs.iter().map(|&x| f(x, &new_params)))", "vx_model_values(xs, &mut f, &new_params)", "R35-map-collect-as-helper"),
        ("DVector::from_iterator(xs.len(), xs.iter().map(|&x| f(x, &new_params_div)))", "vx_model_values(xs, &mut f, &new_params_div)", "R35-map-collect-as-helper"),
        ("diff .iter() .map(|&r| r.modulus_squared()) .fold(N::RealField::zero(), |acc, r| acc + r)", "vx_sum_sq(&diff)", "R35-map-fold-as-helper"),
        ("diff_div .iter() .map(|&r| r.modulus_squared()) .fold(N::RealField::zero(), |acc, r| acc + r)", "vx_sum_sq(&diff_div)", "R35-map-fold-as-helper"),
        ("params + &b_div", "vx_svec_add(&params, &b_div)", "R29-ref-operator-as-call"),
        ("params + &b;", "vx_svec_add(&params, &b);", "R29-ref-operator-as-call"),
    ]
    u.spec(JFD_STUB)
    u.spec(r'''
// the two start-up helpers as their callers see them: CONTRACTS ONLY here, restated with `&mut F` parameters (they are called with `&mut f`,
// `&mut jacobian`) and the pure-callback assumption `*final(f) == *old(f)`; their bodies are verified in unit lm_helpers
#[verifier::external_body]
pub fn initial_residuals_exact<F: FnMut(R, &Vec<R>) -> R, G: FnMut(R, &Vec<R>) -> Vec<R>, const V: usize>(xs: &[R], ys: &DV, damping: &mut R, damping_mult: R, f: &mut F, jacobian: &mut G,
        jac: &mut DM, jac_transpose: &mut DM, params: Vec<R>) -> (res: Result<(R, DV), String>)
    requires model_ok(*old(f)), grad_ok(*old(jacobian), V as nat), params@.len() == V, old(jac).nrows == xs@.len(), old(jac).ncols == V,
        old(jac_transpose).nrows == V, old(jac_transpose).ncols == xs@.len(), ys@.len() == xs@.len()
    ensures *final(f) == *old(f), *final(jacobian) == *old(jacobian), final(jac).nrows == old(jac).nrows, final(jac).ncols == old(jac).ncols,
        final(jac_transpose).nrows == final(jac).ncols, final(jac_transpose).ncols == final(jac).nrows,
        res is Ok ==> res->Ok_0.1@.len() == xs@.len()
{ unimplemented!() }
#[verifier::external_body]
pub fn initial_residuals<F: FnMut(R, &Vec<R>) -> R, const V: usize>(xs: &[R], ys: &DV, damping: &mut R, damping_mult: R, h: R, f: &mut F,
        jac: &mut DM, jac_transpose: &mut DM, params: Vec<R>) -> (res: Result<(R, DV), String>)
    requires model_ok(*old(f)), params@.len() == V, old(jac).nrows == xs@.len(), old(jac).ncols == V,
        old(jac_transpose).nrows == V, old(jac_transpose).ncols == xs@.len(), ys@.len() == xs@.len()
    ensures *final(f) == *old(f), final(jac).nrows == old(jac).nrows, final(jac).ncols == old(jac).ncols,
        final(jac_transpose).nrows == final(jac).ncols, final(jac_transpose).ncols == final(jac).nrows,
        res is Ok ==> res->Ok_0.1@.len() == xs@.len()
{ unimplemented!() }
''')
    lm_fn(u, "curve_fit", [x for x in SUB if not x[0].startswith(("jac_analytic", "initial_residuals_exact"))],
          extra_sub=[("jac_finite_differences(&mut f", "jac_finite_differences::<F, V>(&mut f", "R36-explicit-const-generic"),
                     ("initial_residuals(", "initial_residuals::<F, V>(", "R36-explicit-const-generic")],
          extra_req=[], extra_ens=["params.h@ < 0real ==> res is Err"], extra_inv=[],
          end_anchor="before: #2 jac_finite_differences(&mut f, xs, &mut params, &mut jac, h);")
    lm_fn(u, "curve_fit_jac", SUB, extra_sub=[], extra_req=["grad_ok(jacobian_0, V as nat)"], extra_ens=[], extra_inv=["grad_ok(jacobian, V as nat)"],
          end_anchor="before: jac_analytic(&mut jacobian, xs, &mut params, &mut jac);\n        jac_transpose = jac.transpose();\n    }")
    return u


DECIDED = [
    "jac_analytic (the Jacobian of curve_fit_jac): EVERY row r < rows holds the user's gradient at x_r, entry by entry; parameters untouched",
    "linear_fit: mismatched lengths -> Err; otherwise slope and intercept are exactly the closed-form solution of the normal equations over the sums Sx, Sy, Sxx, Sxy (loop invariants over recursive sum specs)",
    "NRA lemmas: those values satisfy both normal equations whenever m Sxx - Sx^2 != 0, and reproduce exactly-linear data (with the Verus lemma lemma_sums_of_linear_data); the sums, hence the fit, do not depend on the order of the points",
    "jac_finite_differences: parameters restored exactly, matrix shape kept, every entry equals the central difference (f(x_r, p + h e_c) - f(x_r, p - h e_c))/2h -- this obligation FAILS on the pinned tree and is the recorded finding (the code adds the samples)",
    "lemma_fd_affine: a central difference is exact for models affine in the parameter",
    "curve_fit and curve_fit_jac (unit lm; nalgebra's DVector / DMatrix / LU / QR as uninterpreted shims): a negative tolerance, a negative damping, a negative step width (curve_fit) and xs / ys of different "
    "lengths give Err (partial correctness); an Ok result has V entries and is either the starting vector or the outcome of a Levenberg-Marquardt iteration: both candidates are p + delta with "
    "(J^T J with its diagonal multiplied by 1 + lambda, resp. 1 + lambda / damping_mult) delta = J^T (y - model values), the candidate with the smaller residual sum of squares is kept "
    "(the less damped one only if strictly better) and the damping is divided by damping_mult exactly when the less damped candidate is kept; after every iteration evaluation and sum_sq are those of the kept parameters",
]
NOT_DECIDED = [
    "curve_fit / curve_fit_jac: termination (no iteration cap; with a negative tolerance the loop condition can never become false -- the Err clauses are decided under partial correctness, "
    "the bounded probe watches the model-call budget), convergence, 'returns the least-squares parameters to an accuracy governed by the tolerance', agreement of the two variants (analytic; bounded probe only)",
    "what the fallback solvers compute when the first LU solve fails (they are handed whatever the failed attempt left in b): the step relation is claimed only for candidates whose first LU solve succeeded",
    "the start-up helpers initial_residuals / initial_residuals_exact: verified for memory safety and shapes only (they work on a COPY of the parameters -- SVector is Copy -- so the values they leave in "
    "evaluation / jac / sum_sq belong to a point the caller never adopts; the first main iteration therefore combines the caller's parameters with model values and a Jacobian taken elsewhere. "
    "This does not contradict a clause of C17 and is not reported as a finding; the step relation names the point of evaluation separately for that reason)",
    "a zero damping_mult (not validated by the routines; division by it) is outside the contract",
]
ASSUMPTIONS = ["unit lm / lm_helpers: prelude/lm.rs (DVector, DMatrix products, the solvers' solve_mut, SVector + &DVector, map/collect and map/fold expressions of the routines spelled as helper calls: rules R29, R35, R36); "
               "matrix product, matrix-vector product and the solution of a linear system are uninterpreted; the callees jac_analytic / jac_finite_differences / initial_residuals* appear to their callers as contracts restated "
               "with `&mut F` parameters and the pure-callback assumption *final(f) == *old(f)",
               "SVector<N,V> is verified as Vec<R> of length V (only indexing is used); DMatrix is the shim DM with assumed column/row/IndexMut behaviour (rule R22)",
               "the model callback is a pure function MF(x, p)"]
