"""C07 -- bracketing root finders (src/roots/mod.rs: bisection, brent, itp)."""
from vx.unit import Unit
from vx import nra

SECANT = nra.Lemma("lemma_secant_between", ["l", "r", "fl", "fr"],
                   ["fl * fr <= 0", "not (fl == 0 and fr == 0)"],
                   "fr - fl != 0 and min(l, r) <= r - fr * (r - l) / (fr - fl) <= max(l, r)",
                   note="the secant point of a sign-change bracket lies inside the bracket")


FALSI = nra.Lemma("lemma_falsi_between", ["l", "r", "fl", "fr", "xf"], ["fl <= 0", "0 <= fr", "fr - fl > 0", "xf * (fr - fl) == fr * l - fl * r"], "min(l, r) <= xf <= max(l, r)",
                  note="ITP: the regula-falsi point (f_r l - f_l r)/(f_r - f_l) of a bracket with f_l <= 0 <= f_r lies inside it")
TRUNC = nra.Lemma("lemma_truncation_between", ["h", "f", "d", "sg", "dl", "xt"],
                  ["d >= 0", "d == h - f or d == f - h", "d <= 0 or sg * d == h - f", "0 <= dl", "dl <= d", "xt == f + sg * dl"], "min(f, h) <= xt <= max(f, h)",
                  note="ITP truncation: x_f + sigma delta with sigma = (x_half - x_f)/|x_half - x_f| and 0 <= delta <= |x_half - x_f| lies between x_f and x_half")
PROJ = nra.Lemma("lemma_projection_between", ["h", "f", "d", "sg", "dl", "xt", "r", "xi", "a"],
                 ["d > 0", "d == h - f or d == f - h", "sg * d == h - f", "0 <= dl", "dl <= d", "xt == f + sg * dl", "a >= 0", "a == xt - h or a == h - xt", "0 <= r", "r < a", "xi == h - sg * r"],
                 "min(f, h) <= xi <= max(f, h) and (xi - h == r or h - xi == r)",
                 note="ITP projection: x_half - sigma r with 0 <= r < |x_t - x_half| lies between x_f and x_half, at distance exactly r from x_half")
ITP_LEMMAS = [FALSI, TRUNC, PROJ]


def extra_obligations(ctx):
    return nra.run_lemmas("C07", "roots", [SECANT] + ITP_LEMMAS, ctx)


def units(ctx):
    u = Unit("C07", "roots")
    u.spec(r'''
pub uninterp spec fn F(t: real) -> real;
''' + SECANT.verus_stub() + "".join(l.verus_stub() for l in ITP_LEMMAS) + r'''
// [l, r] is a sign-change bracket around x of width <= w inside [a, b]
pub open spec fn sc(l: real, r: real) -> bool { F(l) * F(r) <= 0real }
pub open spec fn nonpos_nonneg(l: real, r: real) -> bool { F(l) <= 0real <= F(r) }
pub open spec fn fz(z: real) -> bool { F(z) == 0real }
pub open spec fn sign_bracket(a: real, b: real, x: real, w: real) -> bool {
    exists|l: real, r: real| a <= l <= x && x <= r <= b && r - l <= w && #[trigger] sc(l, r)
}
// the callback was evaluated exactly on a root inside the bracket (the one case in which the
// sign-bit test of the code depends on +0.0 / -0.0, which exact reals do not model)
pub open spec fn exact_zero_in(a: real, b: real) -> bool {
    exists|z: real| a <= z <= b && #[trigger] fz(z)
}
pub proof fn lemma_mul_comm(a: real, b: real) ensures a * b == b * a { assert(a * b == b * a) by(nonlinear_arith); }
pub proof fn lemma_sign_keep(fl: real, fm: real, fr: real)
    requires fl * fr <= 0real, fm * fl > 0real
    ensures fm * fr <= 0real
{
    assert(fm * fr <= 0real) by(nonlinear_arith) requires fl * fr <= 0real, fm * fl > 0real;
}
pub proof fn lemma_sign_keep2(fl: real, fm: real, fr: real)
    requires fl * fr <= 0real, fm * fl < 0real
    ensures fl * fm <= 0real
{
    assert(fl * fm <= 0real) by(nonlinear_arith) requires fm * fl < 0real;
}
''')
    f = u.fn("src/roots/mod.rs", "bisection")
    f.req("forall|t: R| arg0_.0@ <= t@ <= arg0_.1@ ==> f_0.requires((t,))",
          "forall|t: R, y: R| f_0.ensures((t,), y) ==> y@ == F(t@)",
          "n_max < usize::MAX")
    f.ens("arg0_.0@ >= arg0_.1@ ==> res is Err",
          "F(arg0_.0@) * F(arg0_.1@) > 0real ==> res is Err",
          "tol@ <= 0real ==> res is Err",
          "res is Ok ==> arg0_.0@ <= res->Ok_0@ <= arg0_.1@",
          "res is Ok ==> sign_bracket(arg0_.0@, arg0_.1@, res->Ok_0@, 2real * (tol@ * rmax(1real, rabs(res->Ok_0@)))) || exact_zero_in(arg0_.0@, arg0_.1@)")
    f.loop(1, invariant=[
        "arg0_.0@ <= left@ < right@ <= arg0_.1@",
        "middle@ == left@ + (right@ - left@) / 2real",
        "half@ == 0.5real",
        "f_a@ == F(left@)",
        "F(left@) * F(right@) <= 0real || exact_zero_in(arg0_.0@, arg0_.1@)",
        "1 <= n <= n_max + 1",
        "!(F(arg0_.0@) * F(arg0_.1@) > 0real)",
        "f == f_0",
    ], decreases="n_max + 1 - n")
    f.hint("loop 1 begin", "let ghost l0 = left@; let ghost r0 = right@; let ghost m0 = middle@;")
    f.hint("before: if (middle - middle_new)", r"""proof {
        let fl = F(l0); let fm = F(m0); let fr = F(r0);
        if fl * fr <= 0real {
            if fm * fl > 0real { lemma_sign_keep(fl, fm, fr); }
            else if fm * fl < 0real { lemma_sign_keep2(fl, fm, fr); }
            else {
                assert(fm == 0real || fl == 0real) by(nonlinear_arith) requires fm * fl == 0real;
                assert(arg0_.0@ <= m0 <= arg0_.1@ && arg0_.0@ <= l0 <= arg0_.1@);
                assert(fz(m0) || fz(l0));
            }
        }
        let mx = rmax(1real, rabs(middle_new@));
        assert(tol@ <= 0real ==> tol@ * mx <= 0real) by(nonlinear_arith) requires mx >= 1real;
    }""")
    f.hint("before: return Ok(middle_new)", r"""proof {
        if F(left@) * F(right@) <= 0real {
            assert(sc(left@, right@));
            assert(right@ - left@ <= 2real * (tol@ * rmax(1real, rabs(middle_new@))));
        }
    }""")
    brent(u)
    itp(u)
    return [u]


def itp(u):
    f = u.fn("src/roots/mod.rs", "itp")
    LO, HI = "rmin(initial.0@, initial.1@)", "rmax(initial.0@, initial.1@)"
    # E0 = n_half + 2 n_0: the bound on the number of iterations (as the routine computes it)
    E0 = "(rceil(rlog2(rabs(initial.1@ - initial.0@) / (2real * tol@))) + 2real * n_0@)"
    f.req(f"forall|t: R| {LO} <= t@ <= {HI} ==> f_0.requires((t,))",
          "forall|t: R, y: R| f_0.ensures((t,), y) ==> y@ == F(t@)",
          # the routine does not validate these: tol == 0 (division by it), a negative n_0, an iteration bound beyond the i32 counter
          "tol@ != 0real", "n_0@ >= 0real", f"{E0} < 2147483646real",
          # at most one exact zero in the bracket (otherwise both end values can become 0 and the regula-falsi point is 0/0)
          f"forall|a: real, b: real| {LO} <= a <= {HI} && {LO} <= b <= {HI} && #[trigger] fz(a) && #[trigger] fz(b) ==> a == b",
          # the end values are not exact zeros (the sign-bit tests of the code are unconstrained there)
          "F(initial.0@) != 0real && F(initial.1@) != 0real")
    f.ens("tol@ < 0real ==> res is Err",
          "k_1@ < 0real ==> res is Err",
          "k_2@ <= 1real ==> res is Err",
          "k_2@ >= 1real + 0.5real * (1real + rsqrt(5real)) ==> res is Err",
          "F(initial.0@) * F(initial.1@) > 0real ==> res is Err",
          "F(initial.0@) * F(initial.1@) < 0real && res is Ok ==> exists|l: real, r: real| res->Ok_0@ == (l + r) / 2real "
          "&& rabs(r - l) <= 2real * tol@ && #[trigger] nonpos_nonneg(l, r)",
          f"res is Ok ==> {LO} <= res->Ok_0@ <= {HI}")
    EJ = "(n_max@ + n_0@ - (j as real))"
    f.loop(1, invariant=[
        "two@ == 2real", "f == f_0", "tol@ > 0real", "n_0@ >= 0real", "k_1@ >= 0real", "0 <= j", "n_max@ + n_0@ < 2147483646real",
        f"{LO} <= rmin(left@, right@) && rmax(left@, right@) <= {HI}",
        "F(left@) <= 0real <= F(right@)",
        "left@ == right@ || (f_left@ == F(left@) && f_right@ == F(right@) && F(left@) < F(right@))",
        f"forall|a: real, b: real| {LO} <= a <= {HI} && {LO} <= b <= {HI} && #[trigger] fz(a) && #[trigger] fz(b) ==> a == b",
        f"forall|t: R| {LO} <= t@ <= {HI} ==> f_0.requires((t,))", "forall|t: R, y: R| f_0.ensures((t,), y) ==> y@ == F(t@)",
        # the minmax invariant of ITP: the bracket is at most 2 tol 2^(n_max + n_0 - j) wide -- hence the projection radius is >= 0,
        # every evaluation point stays inside the bracket, and the loop stops after at most n_max + n_0 iterations
        f"rabs(right@ - left@) <= 2real * (tol@ * rpowf(2real, {EJ}))",
    ], decreases="2147483647 - j")
    f.hint("before: let two", r"""proof {
        let a = F(initial.0@); let b = F(initial.1@);
        assert(a * b < 0real ==> ((a < 0real && b > 0real) || (a > 0real && b < 0real))) by(nonlinear_arith);
        assert(a * b != 0real) by(nonlinear_arith) requires a != 0real, b != 0real;
        assert(a * b == b * a) by(nonlinear_arith);
    }""")
    f.hint("before: let mut j", r"""proof {
        // the start: W0 <= 2 tol 2^n_half <= 2 tol 2^(n_half + 2 n_0)
        let w0 = rabs(right@ - left@); let tt = 2real * tol@; let y = w0 / tt;
        assert(two@ * tol@ == tt) by(nonlinear_arith) requires two@ == 2real, tt == 2real * tol@;
        assert(left@ != right@);
        assert(y > 0real && y * tt == w0) by(nonlinear_arith) requires w0 > 0real, tt > 0real, y == w0 / tt;
        axiom_log2_ceil(y);
        let e0 = n_max@ + n_0@;
        assert(n_half@ == rceil(rlog2(y)));
        axiom_pow2_mono(n_half@, e0);
        let p1 = rpowf(2real, n_half@); let p2 = rpowf(2real, e0);
        assert(w0 <= tt * p2) by(nonlinear_arith) requires y * tt == w0, y <= p1, p1 <= p2, tt > 0real;
        assert(tt * p2 == 2real * (tol@ * p2)) by(nonlinear_arith) requires tt == 2real * tol@;
    }""")
    f.hint("loop 1 begin", r"""let ghost l0 = left@; let ghost r0 = right@; let ghost w = rabs(right@ - left@); let ghost ej = n_max@ + n_0@ - (j as real); let ghost pj = rpowf(2real, ej);
        proof {
            axiom_pow2_step(ej);
            assert(two@ * tol@ == 2real * tol@) by(nonlinear_arith) requires two@ == 2real;
            // more than 2 tol wide ==> 2^ej > 1 ==> ej > 0: the counter is still below its bound
            assert(pj > 1real) by(nonlinear_arith) requires w > 2real * tol@, w <= 2real * (tol@ * pj), tol@ > 0real;
            if ej <= 0real { axiom_pow2_mono(ej, 0real); axiom_pow2_zero(); assert(false); }
        }""")
    f.hint("after: let x_f =", r"""proof {
        assert(f_right@ - f_left@ > 0real);
        assert(x_f@ * (f_right@ - f_left@) == f_right@ * l0 - f_left@ * r0) by(nonlinear_arith)
            requires x_f@ == (f_right@ * l0 - f_left@ * r0) / (f_right@ - f_left@), f_right@ - f_left@ > 0real;
        lemma_falsi_between(l0, r0, f_left@, f_right@, x_f@);
    }""")
    f.hint("before: let x_itp =", r"""let ghost d = rabs(x_half@ - x_f@);
        proof {
            assert(r@ == tol@ * pj - w / 2real);
            assert(r@ >= 0real);
            assert(delta@ >= 0real) by(nonlinear_arith) requires delta@ == k_1@ * rpowf(w, k_2@), k_1@ >= 0real, rpowf(w, k_2@) > 0real;
            if d > 0real { assert(sigma@ * d == x_half@ - x_f@) by(nonlinear_arith) requires sigma@ == (x_half@ - x_f@) / d, d > 0real; }
            if delta@ <= d { lemma_truncation_between(x_half@, x_f@, d, sigma@, delta@, x_t@); }
        }""")
    f.hint("before: let f_itp =", r"""proof {
            // the evaluation point lies between x_f and x_half, at most r from x_half
            if !(rabs(x_t@ - x_half@) <= r@) {
                assert(d > 0real && delta@ <= d);
                lemma_projection_between(x_half@, x_f@, d, sigma@, delta@, x_t@, r@, x_itp@, rabs(x_t@ - x_half@));
            }
            assert(rmin(l0, r0) <= x_itp@ <= rmax(l0, r0));
            assert(rabs(x_itp@ - x_half@) <= r@);
        }""")
    f.hint("before: j += 1", r"""proof {
            // new width <= w/2 + r = tol 2^ej = 2 (tol 2^(ej - 1))
            assert(rabs(right@ - left@) <= tol@ * pj);
            assert(tol@ * pj == 2real * (tol@ * rpowf(2real, ej - 1real))) by(nonlinear_arith) requires pj == 2real * rpowf(2real, ej - 1real);
            assert((j + 1) as real == (j as real) + 1real);
            if left@ != right@ && !(F(left@) < F(right@)) { assert(fz(left@) && fz(right@)); }
        }""")
    f.hint("after loop 1", r"""proof {
        assert(nonpos_nonneg(left@, right@));
        assert(two@ * tol@ == 2real * tol@) by(nonlinear_arith) requires two@ == 2real;
    }""")
    return f


def brent(u):
    f = u.fn("src/roots/mod.rs", "brent")
    f.attrs.append("#[verifier::exec_allows_no_decreases_clause]")
    LO, HI = "rmin(initial.0@, initial.1@)", "rmax(initial.0@, initial.1@)"
    f.req(f"forall|t: R| {LO} <= t@ <= {HI} ==> f_0.requires((t,))",
          "forall|t: R, y: R| f_0.ensures((t,), y) ==> y@ == F(t@)",
          # both end points being exact roots makes the first secant point 0/0
          "!(F(initial.0@) == 0real && F(initial.1@) == 0real)")
    f.ens("tol@ < 0real ==> res is Err",
          "F(initial.0@) * F(initial.1@) > 0real ==> res is Err",
          f"res is Ok ==> {LO} <= res->Ok_0@ <= {HI}",
          f"res is Ok ==> rabs(F(res->Ok_0@)) < tol@ || sign_bracket({LO}, {HI}, res->Ok_0@, tol@) || exact_zero_in({LO}, {HI})")
    f.loop(1, invariant=[
        f"{LO} <= left@ <= {HI}", f"{LO} <= right@ <= {HI}", f"{LO} <= s@ <= {HI}",
        "f_left@ == F(left@)", "f_right@ == F(right@)", "f_s@ == F(s@)",
        f"F(left@) * F(right@) <= 0real || exact_zero_in({LO}, {HI})",
        "two@ == 2real", "three@ == 3real", "four@ == 4real",
        "f == f_0",
    ])
    f.hint("before: let mut c = left", r"""proof {
        assert(f_left@ * f_right@ <= 0real);
        assert(F(initial.0@) * F(initial.1@) <= 0real) by(nonlinear_arith)
            requires f_left@ * f_right@ <= 0real, (f_left@ == F(initial.0@) && f_right@ == F(initial.1@)) || (f_left@ == F(initial.1@) && f_right@ == F(initial.0@));
        lemma_secant_between(left@, right@, f_left@, f_right@);
    }""")
    f.hint("loop 1 begin", "let ghost l0 = left@; let ghost r0 = right@;")
    f.hint("before: #2 if f_left.abs() < f_right.abs()", r"""proof {
        let fl = F(l0); let fr = F(r0); let fs = F(s@);
        if fl * fr <= 0real {
            if fl * fs < 0real { }
            else if fl * fs > 0real { lemma_mul_comm(fl, fs); lemma_sign_keep(fl, fs, fr); }
            else {
                assert(fs == 0real || fl == 0real) by(nonlinear_arith) requires fl * fs == 0real;
                assert(fz(s@) || fz(l0));
            }
        }
    }""")
    f.hint("after loop 1", r"""proof {
        if F(left@) * F(right@) <= 0real && rabs(left@ - right@) < tol@ {
            if left@ <= right@ { assert(sc(left@, right@)); }
            else { assert(F(right@) * F(left@) <= 0real) by(nonlinear_arith) requires F(left@) * F(right@) <= 0real; assert(sc(right@, left@)); }
        }
    }""")
    return f


DECIDED = [
    "bisection/brent: the callback's precondition is the closed initial bracket, so every evaluation point is proved to lie inside it",
    "bisection/brent: an Ok result lies in the bracket and has a sign-change bracket of width <= 2*tol*max(1,|x|) (bisection) / tol (brent) around it, or |F(x)| < tol (brent), or the callback was evaluated exactly on a root",
    "bisection: at most n_max loop iterations (decreases n_max + 1 - n), one evaluation per iteration, two before the loop",
    "Err for: same-sign end values (all three), left >= right and tol <= 0 (bisection), tol < 0 (brent, itp), k_1 < 0, k_2 outside (1, 1+phi) (itp)",
    "itp: an Ok result is the midpoint of a pair (l, r) with F(l) <= 0 <= F(r) and |r - l| <= 2 tol",
    "itp (functions with at most one exact zero in the bracket, end values not exact zeros, tol != 0, n_0 >= 0, iteration bound within the i32 counter): the minmax invariant of ITP -- the bracket is at most "
    "2 tol 2^(n_max + n_0 - j) wide at the head of iteration j -- is a loop invariant; hence the projection radius is >= 0, the regula-falsi point, the truncated point and the projected point all lie inside the current bracket "
    "(three NRA lemmas), EVERY evaluation point lies inside the initial interval (it is the callback's precondition), an Ok result lies inside it, and the loop terminates: at most n_half + 2 n_0 iterations "
    "(decreases clause; the attribute exec_allows_no_decreases_clause is gone), i.e. at most n_half + 2 n_0 + 2 evaluations",
]
NOT_DECIDED = [
    "termination of brent (no iteration counter in the code) -- its loop is marked exec_allows_no_decreases_clause",
    "itp outside the hypotheses listed under DECIDED (several exact zeros in the bracket, tol == 0, negative n_0: none of them is rejected by the routine)",
    "behaviour that depends on the sign bit of an exact zero (+0.0/-0.0): is_sign_positive/negative are unconstrained at 0, the contract then only claims `the callback was evaluated on an exact root in the bracket`",
]
ASSUMPTIONS = [
    "callbacks are pure functions of their argument (uninterpreted F)",
    "bisection: n_max < usize::MAX (the counter n += 1 would otherwise overflow after 2^64 iterations)",
    "brent: not both end points are exact roots (0/0 in the first secant step)",
    "itp: trusted facts about 2^x, log2 and ceil on the reals (prelude/real.rs: 2^x = 2 * 2^(x-1) > 0, monotone, 2^0 = 1, y <= 2^ceil(log2 y)); three NRA lemmas discharged by z3 (cvc5, z3 5.1 in the thorough tier)",
]
