"""C07 -- bracketing root finders (src/roots/mod.rs: bisection, brent, itp)."""
from vx.unit import Unit
from vx import nra

SECANT = nra.Lemma("lemma_secant_between", ["l", "r", "fl", "fr"],
                   ["fl * fr <= 0", "not (fl == 0 and fr == 0)"],
                   "fr - fl != 0 and min(l, r) <= r - fr * (r - l) / (fr - fl) <= max(l, r)",
                   note="the secant point of a sign-change bracket lies inside the bracket")


def extra_obligations(ctx):
    return nra.run_lemmas("C07", "roots", [SECANT], ctx)


def units(ctx):
    u = Unit("C07", "roots")
    u.spec(r'''
pub uninterp spec fn F(t: real) -> real;
''' + SECANT.verus_stub() + r'''
// [l, r] is a sign-change bracket around x of width <= w inside [a, b]
pub open spec fn sc(l: real, r: real) -> bool { F(l) * F(r) <= 0real }
pub open spec fn nonpos_nonneg(l: real, r: real) -> bool { F(l) <= 0real <= F(r) }
pub open spec fn fz(z: real) -> bool { F(z) == 0real }
pub open spec fn sign_bracket(a: real, b: real, x: real, w: real) -> bool {
    exists|l: real, r: real| a <= l <= x && x <= r <= b && r - l <= w && #[trigger] sc(l, r)
}
// the callback was evaluated exactly on a root inside the bracket (the one case in which the
// sign-bit test of the code depends on +0.0 / -0.0, which exact reals do not model)
pub open spec fn exact_zero_in(a: real, b: real) -> bool {
    exists|z: real| a <= z <= b && #[trigger] fz(z)
}
pub proof fn lemma_mul_comm(a: real, b: real) ensures a * b == b * a { assert(a * b == b * a) by(nonlinear_arith); }
pub proof fn lemma_sign_keep(fl: real, fm: real, fr: real)
    requires fl * fr <= 0real, fm * fl > 0real
    ensures fm * fr <= 0real
{
    assert(fm * fr <= 0real) by(nonlinear_arith) requires fl * fr <= 0real, fm * fl > 0real;
}
pub proof fn lemma_sign_keep2(fl: real, fm: real, fr: real)
    requires fl * fr <= 0real, fm * fl < 0real
    ensures fl * fm <= 0real
{
    assert(fl * fm <= 0real) by(nonlinear_arith) requires fm * fl < 0real;
}
''')
    f = u.fn("src/roots/mod.rs", "bisection")
    f.req("forall|t: R| arg0_.0@ <= t@ <= arg0_.1@ ==> f_0.requires((t,))",
          "forall|t: R, y: R| f_0.ensures((t,), y) ==> y@ == F(t@)",
          "n_max < usize::MAX")
    f.ens("arg0_.0@ >= arg0_.1@ ==> res is Err",
          "F(arg0_.0@) * F(arg0_.1@) > 0real ==> res is Err",
          "tol@ <= 0real ==> res is Err",
          "res is Ok ==> arg0_.0@ <= res->Ok_0@ <= arg0_.1@",
          "res is Ok ==> sign_bracket(arg0_.0@, arg0_.1@, res->Ok_0@, 2real * (tol@ * rmax(1real, rabs(res->Ok_0@)))) || exact_zero_in(arg0_.0@, arg0_.1@)")
    f.loop(1, invariant=[
        "arg0_.0@ <= left@ < right@ <= arg0_.1@",
        "middle@ == left@ + (right@ - left@) / 2real",
        "half@ == 0.5real",
        "f_a@ == F(left@)",
        "F(left@) * F(right@) <= 0real || exact_zero_in(arg0_.0@, arg0_.1@)",
        "1 <= n <= n_max + 1",
        "!(F(arg0_.0@) * F(arg0_.1@) > 0real)",
        "f == f_0",
    ], decreases="n_max + 1 - n")
    f.hint("loop 1 begin", "let ghost l0 = left@; let ghost r0 = right@; let ghost m0 = middle@;")
    f.hint("before: if (middle - middle_new)", r"""proof {
        let fl = F(l0); let fm = F(m0); let fr = F(r0);
        if fl * fr <= 0real {
            if fm * fl > 0real { lemma_sign_keep(fl, fm, fr); }
            else if fm * fl < 0real { lemma_sign_keep2(fl, fm, fr); }
            else {
                assert(fm == 0real || fl == 0real) by(nonlinear_arith) requires fm * fl == 0real;
                assert(arg0_.0@ <= m0 <= arg0_.1@ && arg0_.0@ <= l0 <= arg0_.1@);
                assert(fz(m0) || fz(l0));
            }
        }
        let mx = rmax(1real, rabs(middle_new@));
        assert(tol@ <= 0real ==> tol@ * mx <= 0real) by(nonlinear_arith) requires mx >= 1real;
    }""")
    f.hint("before: return Ok(middle_new)", r"""proof {
        if F(left@) * F(right@) <= 0real {
            assert(sc(left@, right@));
            assert(right@ - left@ <= 2real * (tol@ * rmax(1real, rabs(middle_new@))));
        }
    }""")
    brent(u)
    itp(u)
    return [u]


def itp(u):
    f = u.fn("src/roots/mod.rs", "itp")
    f.attrs.append("#[verifier::exec_allows_no_decreases_clause]")
    # the i32 iteration counter has no bound in the code (termination is not decided): its
    # overflow check is switched off by using the release-mode (wrapping) meaning of `+= 1`
    f.opt(subst=[("j += 1", "j = j.wrapping_add(1)", "R9-wrapping-counter")])
    f.req("forall|t: R| f_0.requires((t,))",    # where ITP evaluates f is NOT decided (see NOT_DECIDED)
          "forall|t: R, y: R| f_0.ensures((t,), y) ==> y@ == F(t@)")
    f.ens("tol@ < 0real ==> res is Err",
          "k_1@ < 0real ==> res is Err",
          "k_2@ <= 1real ==> res is Err",
          "k_2@ >= 1real + 0.5real * (1real + rsqrt(5real)) ==> res is Err",
          "F(initial.0@) * F(initial.1@) > 0real ==> res is Err",
          "F(initial.0@) * F(initial.1@) < 0real && res is Ok ==> exists|l: real, r: real| res->Ok_0@ == (l + r) / 2real "
          "&& rabs(r - l) <= 2real * tol@ && #[trigger] nonpos_nonneg(l, r)")
    f.loop(1, invariant=[
        "two@ == 2real", "f == f_0",
        "F(initial.0@) * F(initial.1@) < 0real ==> F(left@) <= 0real <= F(right@)",
    ])
    f.hint("before: let two", r"""proof {
        let a = F(initial.0@); let b = F(initial.1@);
        assert(a * b < 0real ==> ((a < 0real && b > 0real) || (a > 0real && b < 0real))) by(nonlinear_arith);
    }""")
    f.hint("after loop 1", r"""proof {
        if F(initial.0@) * F(initial.1@) < 0real {
            assert(nonpos_nonneg(left@, right@));
            assert(two@ * tol@ == 2real * tol@) by(nonlinear_arith) requires two@ == 2real;
        }
    }""")
    return f


def brent(u):
    f = u.fn("src/roots/mod.rs", "brent")
    f.attrs.append("#[verifier::exec_allows_no_decreases_clause]")
    LO, HI = "rmin(initial.0@, initial.1@)", "rmax(initial.0@, initial.1@)"
    f.req(f"forall|t: R| {LO} <= t@ <= {HI} ==> f_0.requires((t,))",
          "forall|t: R, y: R| f_0.ensures((t,), y) ==> y@ == F(t@)",
          # both end points being exact roots makes the first secant point 0/0
          "!(F(initial.0@) == 0real && F(initial.1@) == 0real)")
    f.ens("tol@ < 0real ==> res is Err",
          "F(initial.0@) * F(initial.1@) > 0real ==> res is Err",
          f"res is Ok ==> {LO} <= res->Ok_0@ <= {HI}",
          f"res is Ok ==> rabs(F(res->Ok_0@)) < tol@ || sign_bracket({LO}, {HI}, res->Ok_0@, tol@) || exact_zero_in({LO}, {HI})")
    f.loop(1, invariant=[
        f"{LO} <= left@ <= {HI}", f"{LO} <= right@ <= {HI}", f"{LO} <= s@ <= {HI}",
        "f_left@ == F(left@)", "f_right@ == F(right@)", "f_s@ == F(s@)",
        f"F(left@) * F(right@) <= 0real || exact_zero_in({LO}, {HI})",
        "two@ == 2real", "three@ == 3real", "four@ == 4real",
        "f == f_0",
    ])
    f.hint("before: let mut c = left", r"""proof {
        assert(f_left@ * f_right@ <= 0real);
        assert(F(initial.0@) * F(initial.1@) <= 0real) by(nonlinear_arith)
            requires f_left@ * f_right@ <= 0real, (f_left@ == F(initial.0@) && f_right@ == F(initial.1@)) || (f_left@ == F(initial.1@) && f_right@ == F(initial.0@));
        lemma_secant_between(left@, right@, f_left@, f_right@);
    }""")
    f.hint("loop 1 begin", "let ghost l0 = left@; let ghost r0 = right@;")
    f.hint("before: #2 if f_left.abs() < f_right.abs()", r"""proof {
        let fl = F(l0); let fr = F(r0); let fs = F(s@);
        if fl * fr <= 0real {
            if fl * fs < 0real { }
            else if fl * fs > 0real { lemma_mul_comm(fl, fs); lemma_sign_keep(fl, fs, fr); }
            else {
                assert(fs == 0real || fl == 0real) by(nonlinear_arith) requires fl * fs == 0real;
                assert(fz(s@) || fz(l0));
            }
        }
    }""")
    f.hint("after loop 1", r"""proof {
        if F(left@) * F(right@) <= 0real && rabs(left@ - right@) < tol@ {
            if left@ <= right@ { assert(sc(left@, right@)); }
            else { assert(F(right@) * F(left@) <= 0real) by(nonlinear_arith) requires F(left@) * F(right@) <= 0real; assert(sc(right@, left@)); }
        }
    }""")
    return f


DECIDED = [
    "bisection/brent: the callback's precondition is the closed initial bracket, so every evaluation point is proved to lie inside it",
    "bisection/brent: an Ok result lies in the bracket and has a sign-change bracket of width <= 2*tol*max(1,|x|) (bisection) / tol (brent) around it, or |F(x)| < tol (brent), or the callback was evaluated exactly on a root",
    "bisection: at most n_max loop iterations (decreases n_max + 1 - n), one evaluation per iteration, two before the loop",
    "Err for: same-sign end values (all three), left >= right and tol <= 0 (bisection), tol < 0 (brent, itp), k_1 < 0, k_2 outside (1, 1+phi) (itp)",
    "itp: an Ok result is the midpoint of a pair (l, r) with F(l) <= 0 <= F(r) and |r - l| <= 2 tol",
]
NOT_DECIDED = [
    "termination of brent and itp (no iteration counter in the code; the ITP bound needs log2/ceil/powf facts) -- loops are marked exec_allows_no_decreases_clause",
    "itp: that evaluation points stay inside the initial interval (needs r >= 0, i.e. the log2/ceil/powf projection-radius argument; powf/log2/ceil are uninterpreted)",
    "behaviour that depends on the sign bit of an exact zero (+0.0/-0.0): is_sign_positive/negative are unconstrained at 0, the contract then only claims `the callback was evaluated on an exact root in the bracket`",
]
ASSUMPTIONS = [
    "callbacks are pure functions of their argument (uninterpreted F)",
    "bisection: n_max < usize::MAX (the counter n += 1 would otherwise overflow after 2^64 iterations)",
    "brent: not both end points are exact roots (0/0 in the first secant step)",
    "itp: overflow of the i32 iteration counter is not checked (rule R9-wrapping-counter)",
]
