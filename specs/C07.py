"""C07 -- bracketing root finders (src/roots/mod.rs: bisection, brent, itp)."""
from vx.unit import Unit

def units(ctx):
    u = Unit("C07", "roots")
    u.spec(r'''
pub uninterp spec fn F(t: real) -> real;
// [l, r] is a sign-change bracket around x of width <= w inside [a, b]
pub open spec fn sc(l: real, r: real) -> bool { F(l) * F(r) <= 0real }
pub open spec fn fz(z: real) -> bool { F(z) == 0real }
pub open spec fn sign_bracket(a: real, b: real, x: real, w: real) -> bool {
    exists|l: real, r: real| a <= l <= x && x <= r <= b && r - l <= w && #[trigger] sc(l, r)
}
// the callback was evaluated exactly on a root inside the bracket (the one case in which the
// sign-bit test of the code depends on +0.0 / -0.0, which exact reals do not model)
pub open spec fn exact_zero_in(a: real, b: real) -> bool {
    exists|z: real| a <= z <= b && #[trigger] fz(z)
}
pub proof fn lemma_sign_keep(fl: real, fm: real, fr: real)
    requires fl * fr <= 0real, fm * fl > 0real
    ensures fm * fr <= 0real
{
    assert(fm * fr <= 0real) by(nonlinear_arith) requires fl * fr <= 0real, fm * fl > 0real;
}
pub proof fn lemma_sign_keep2(fl: real, fm: real, fr: real)
    requires fl * fr <= 0real, fm * fl < 0real
    ensures fl * fm <= 0real
{
    assert(fl * fm <= 0real) by(nonlinear_arith) requires fm * fl < 0real;
}
''')
    f = u.fn("src/roots/mod.rs", "bisection")
    f.req("forall|t: R| arg0_.0@ <= t@ <= arg0_.1@ ==> f_0.requires((t,))",
          "forall|t: R, y: R| f_0.ensures((t,), y) ==> y@ == F(t@)",
          "n_max < usize::MAX")
    f.ens("arg0_.0@ >= arg0_.1@ ==> res is Err",
          "F(arg0_.0@) * F(arg0_.1@) > 0real ==> res is Err",
          "tol@ <= 0real ==> res is Err",
          "res is Ok ==> arg0_.0@ <= res->Ok_0@ <= arg0_.1@",
          "res is Ok ==> sign_bracket(arg0_.0@, arg0_.1@, res->Ok_0@, 2real * (tol@ * rmax(1real, rabs(res->Ok_0@)))) || exact_zero_in(arg0_.0@, arg0_.1@)")
    f.loop(1, invariant=[
        "arg0_.0@ <= left@ < right@ <= arg0_.1@",
        "middle@ == left@ + (right@ - left@) / 2real",
        "half@ == 0.5real",
        "f_a@ == F(left@)",
        "F(left@) * F(right@) <= 0real || exact_zero_in(arg0_.0@, arg0_.1@)",
        "1 <= n <= n_max + 1",
        "!(F(arg0_.0@) * F(arg0_.1@) > 0real)",
        "f == f_0",
    ], decreases="n_max + 1 - n")
    f.hint("loop 1 begin", "let ghost l0 = left@; let ghost r0 = right@; let ghost m0 = middle@;")
    f.hint("before: if (middle - middle_new)", r"""proof {
        let fl = F(l0); let fm = F(m0); let fr = F(r0);
        if fl * fr <= 0real {
            if fm * fl > 0real { lemma_sign_keep(fl, fm, fr); }
            else if fm * fl < 0real { lemma_sign_keep2(fl, fm, fr); }
            else {
                assert(fm == 0real || fl == 0real) by(nonlinear_arith) requires fm * fl == 0real;
                assert(arg0_.0@ <= m0 <= arg0_.1@ && arg0_.0@ <= l0 <= arg0_.1@);
                assert(fz(m0) || fz(l0));
            }
        }
        let mx = rmax(1real, rabs(middle_new@));
        assert(tol@ <= 0real ==> tol@ * mx <= 0real) by(nonlinear_arith) requires mx >= 1real;
    }""")
    f.hint("before: return Ok(middle_new)", r"""proof {
        if F(left@) * F(right@) <= 0real {
            assert(sc(left@, right@));
            assert(right@ - left@ <= 2real * (tol@ * rmax(1real, rabs(middle_new@))));
        }
    }""")
    return [u]
