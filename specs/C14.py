"""C14 -- Polynomial::roots (src/polynomial/mod.rs), verified at the COMPLEX instantiation N = Complex<f64> (shim type C)."""
from vx.unit import Unit
from vx.extract import Config
from vx import nra
from vx.run import load_spec

C12 = load_spec("C12")      # divide() at the complex instantiation: the deflation contract that roots() relies on is proved there

PFILE = "src/polynomial/mod.rs"

# the quadratic formula, component-wise over the reals (r * 2a == -b + sg * s,  s * s == b^2 - 4ac,  a != 0  ==>  a r^2 + b r + c == 0)
def _quad(sign):
    RL0, RL1 = "(r0 * (2 * a0) - r1 * (2 * a1))", "(r0 * (2 * a1) + r1 * (2 * a0))"
    hyps = [f"{RL0} == 0 - b0 {sign} s0", f"{RL1} == 0 - b1 {sign} s1",
            "s0 * s0 - s1 * s1 == (b0 * b0 - b1 * b1) - 4 * (a0 * c0 - a1 * c1)", "s0 * s1 + s1 * s0 == (b0 * b1 + b1 * b0) - 4 * (a0 * c1 + a1 * c0)",
            "a0 != 0 or a1 != 0"]
    rr0, rr1 = "(r0 * r0 - r1 * r1)", "(r0 * r1 + r1 * r0)"
    concl = (f"(a0 * {rr0} - a1 * {rr1}) + (b0 * r0 - b1 * r1) + c0 == 0 and (a0 * {rr1} + a1 * {rr0}) + (b0 * r1 + b1 * r0) + c1 == 0")
    return hyps, concl

L_QP = nra.Lemma("lemma_quad_plus", ["a0", "a1", "b0", "b1", "c0", "c1", "s0", "s1", "r0", "r1"], _quad("+")[0], _quad("+")[1],
                 note="quadratic formula, + branch: r (2a) = -b + s and s^2 = b^2 - 4ac imply a r^2 + b r + c = 0 (complex numbers as pairs of reals)")
L_QM = nra.Lemma("lemma_quad_minus", ["a0", "a1", "b0", "b1", "c0", "c1", "s0", "s1", "r0", "r1"], _quad("-")[0], _quad("-")[1],
                 note="quadratic formula, - branch")
NRA_LEMMAS = [L_QP, L_QM]


def extra_obligations(ctx):
    return nra.run_lemmas("C14", "roots", NRA_LEMMAS, ctx)


def cfg():
    c = Config(type_subst=[("Polynomial<Complex<<N as ComplexField>::RealField>>", "Polynomial"), ("Polynomial<Complex<N::RealField>>", "Polynomial"),
                           ("Complex<<N as ComplexField>::RealField>", "C"), ("Complex::<<N as ComplexField>::RealField>", "C"),
                           ("Complex<N::RealField>", "C"), ("Complex::<N::RealField>", "C"),
                           ("<N as ComplexField>::RealField", "R"), ("N::RealField", "R"),
                           ("Polynomial<N>", "Polynomial"), ("Polynomial::<N>", "Polynomial"),
                           ("N", "C"), ("f64", "R")])
    c.extra = [("VecDeque::from(", "vx_deque_from_vec(", "R13-deque-from-vec")]
    c.expand_polynomial_macro = True
    return c


SPEC = r'''
use std::collections::VecDeque;
// VecDeque::from(Vec) (std): same elements, same order
#[verifier::external_body]
pub fn vx_deque_from_vec(v: Vec<C>) -> (d: VecDeque<C>) ensures d@ == v@ { VecDeque::from(v) }
pub open spec fn cs(p: Polynomial) -> Seq<(real, real)> { Seq::new(p.coefficients@.len(), |i: int| p.coefficients@[i]@) }
impl Polynomial {
    pub open spec fn wf(&self) -> bool { self.coefficients@.len() >= 1 }
    pub open spec fn lead(&self) -> (real, real) { self.coefficients@[self.coefficients@.len() - 1]@ }
    // the leading coefficient survives Polynomial::purge_leading (it is not within the polynomial's own zero tolerance)
    pub open spec fn lead_kept(&self) -> bool { !(rabs(self.lead().0) <= self.tolerance@ && rabs(self.lead().1) <= self.tolerance@) }
}
// value by Horner from index j
pub open spec fn chs(s: Seq<(real, real)>, j: int, x: (real, real)) -> (real, real) decreases s.len() - j {
    if j < 0 || j >= s.len() { czero() } else { cadd(s[j], cmul(x, chs(s, j + 1, x))) }
}
pub open spec fn cval(p: Polynomial, x: (real, real)) -> (real, real) { chs(cs(p), 0, x) }
// r is an Ok result of newton_polynomial(_, p, tol, _): a Newton update whose size is within tol (contract proved at N = real in C08)
pub uninterp spec fn newton_result(p: Seq<(real, real)>, r: (real, real), tol: real) -> bool;

pub proof fn lemma_cmul_neg(r: (real, real), c: (real, real)) ensures cmul(r, cneg(c)) == cneg(cmul(r, c))
{
    assert(r.0 * (-c.0) == -(r.0 * c.0)) by(nonlinear_arith);
    assert(r.1 * (-c.1) == -(r.1 * c.1)) by(nonlinear_arith);
    assert(r.0 * (-c.1) == -(r.0 * c.1)) by(nonlinear_arith);
    assert(r.1 * (-c.0) == -(r.1 * c.0)) by(nonlinear_arith);
}
pub open spec fn two() -> (real, real) { (2real, 0real) }
pub open spec fn four() -> (real, real) { (4real, 0real) }
// r is (-b + s) / (2a) (plus) or (-b - s) / (2a) (minus) for the s with s * s == b^2 - 4ac
pub open spec fn quad_root(a: (real, real), b: (real, real), c: (real, real), r: (real, real), plus: bool) -> bool {
    let s = csqrt(csub(cmul(b, b), cmul(cmul(four(), a), c)));
    r == cdiv(if plus { cadd(cneg(b), s) } else { csub(cneg(b), s) }, cmul(a, two()))
}
// C14, degree 2: the two numbers that roots() returns are exact roots of a x^2 + b x + c
pub proof fn lemma_quadratic_root(a: (real, real), b: (real, real), c: (real, real), r: (real, real), plus: bool)
    requires quad_root(a, b, c, r, plus), a != czero()
    ensures cadd(cadd(cmul(a, cmul(r, r)), cmul(b, r)), c) == czero()
{
    let d = csub(cmul(b, b), cmul(cmul(four(), a), c)); let s = csqrt(d);
    let num = if plus { cadd(cneg(b), s) } else { csub(cneg(b), s) };
    axiom_csqrt(d);
    // multiplication by the literals 2 and 4 is linear arithmetic: no nonlinear solver is involved
    assert(cmul(a, two()) == (2real * a.0, 2real * a.1));
    assert(cmul(a, two()) != czero());
    axiom_cdiv(num, cmul(a, two()));
    assert(cmul(r, cmul(a, two())) == num);
    assert(cmul(four(), a) == (4real * a.0, 4real * a.1));
    assert(cmul(cmul(four(), a), c) == (4real * a.0 * c.0 - 4real * a.1 * c.1, 4real * a.0 * c.1 + 4real * a.1 * c.0));
    // re-association of single products (each a one-line fact for the nonlinear solver)
    assert((4real * a.0) * c.0 == 4real * (a.0 * c.0)) by(nonlinear_arith);
    assert((4real * a.1) * c.1 == 4real * (a.1 * c.1)) by(nonlinear_arith);
    assert((4real * a.0) * c.1 == 4real * (a.0 * c.1)) by(nonlinear_arith);
    assert((4real * a.1) * c.0 == 4real * (a.1 * c.0)) by(nonlinear_arith);
    assert(d == ((b.0 * b.0 - b.1 * b.1) - 4real * (a.0 * c.0 - a.1 * c.1), (b.0 * b.1 + b.1 * b.0) - 4real * (a.0 * c.1 + a.1 * c.0)));
    assert(cmul(s, s) == (s.0 * s.0 - s.1 * s.1, s.0 * s.1 + s.1 * s.0));
    if plus { lemma_quad_plus(a.0, a.1, b.0, b.1, c.0, c.1, s.0, s.1, r.0, r.1); } else { lemma_quad_minus(a.0, a.1, b.0, b.1, c.0, c.1, s.0, s.1, r.0, r.1); }
}
// ---- callees: CONTRACTS ONLY here (their bodies are verified at the real instantiation in C13 / C12 / C08) ----
impl Polynomial {
    #[verifier::external_body]
    pub fn from_slice(data: &[C]) -> (r: Polynomial) ensures r.coefficients@.len() == (if data@.len() == 0 { 1 } else { data@.len() }),
        forall|i: int| 0 <= i < data@.len() ==> r.coefficients@[i]@ == data@[data@.len() - 1 - i]@ { unimplemented!() }
    #[verifier::external_body]
    pub fn derivative(&self) -> (r: Polynomial) requires self.wf() ensures r.wf() { unimplemented!() }
    #[verifier::external_body]
    pub fn evaluate(&self, x: C) -> (r: C) requires self.wf() ensures r@ == cval(*self, x@) { unimplemented!() }
    #[verifier::external_body]
    pub fn evaluate_derivative(&self, x: C) -> (r: (C, C)) requires self.wf() { unimplemented!() }
    // restated here; PROVED in unit divide_complex: deflating by a monic linear factor lowers the length by exactly one and keeps the leading
    // coefficient and the tolerance, provided the dividend's leading coefficient is not purged
    #[verifier::external_body]
    pub fn divide(&self, divisor: &Polynomial) -> (r: Result<(Polynomial, Polynomial), String>)
        requires self.wf(), divisor.wf()
        ensures r is Ok && divisor.coefficients@.len() == 2 && divisor.lead() == (1real, 0real) && self.lead_kept() && self.coefficients@.len() >= 2 ==>
            r->Ok_0.0.coefficients@.len() == self.coefficients@.len() - 1 && r->Ok_0.0.lead() == self.lead() && r->Ok_0.0.tolerance == self.tolerance
    { unimplemented!() }
}
#[verifier::external_body]
pub fn newton_polynomial(initial: C, poly: &Polynomial, tol: R, n_max: usize) -> (r: Result<C, String>)
    requires poly.wf()
    ensures r is Ok ==> newton_result(cs(*poly), r->Ok_0@, tol@)
{ unimplemented!() }
'''



def roots_ens(cs):
    """the contract of roots(), over the coefficient view `cs` (cs: complex polynomial; csr: real polynomial read as complex pairs)"""
    X = cs + "(*self)"
    return [
          # exactly degree-many numbers
          "res is Ok && self.coefficients@.len() >= 2 ==> res->Ok_0@.len() == self.coefficients@.len() - 1",
          # a leading coefficient within the tolerance is refused
          "self.coefficients@.len() > 1 && rabs(self.lead().0) < tol@ && rabs(self.lead().1) < tol@ ==> res is Err",
          # degree 1: Ok, and the returned number is an exact root:  c0 + r c1 == 0
          f"self.coefficients@.len() == 2 && !(rabs(self.lead().0) < tol@ && rabs(self.lead().1) < tol@) ==> res is Ok && cadd({X}[0], cmul(res->Ok_0@[0]@, {X}[1])) == czero()",
          # degree 2: Ok, and both returned numbers are (-b +- s) / (2a) with s * s == b^2 - 4ac, hence exact roots (lemma_quadratic_root)
          f"self.coefficients@.len() == 3 && !(rabs(self.lead().0) < tol@ && rabs(self.lead().1) < tol@) ==> res is Ok "
          f"&& quad_root({X}[2], {X}[1], {X}[0], res->Ok_0@[0]@, true) && quad_root({X}[2], {X}[1], {X}[0], res->Ok_0@[1]@, false)",
          # degree >= 3: every returned number is an Ok result of Newton polishing on the ORIGINAL polynomial (not the deflated one)
          f"self.coefficients@.len() >= 4 && res is Ok ==> forall|i: int| 0 <= i < res->Ok_0@.len() ==> newton_result({X}, #[trigger] res->Ok_0@[i]@, tol@)",
          # the Laguerre iteration is capped
          "n_max == 0 && self.coefficients@.len() >= 4 ==> res is Err"]


def units(ctx):
    u = Unit("C14", "roots", preludes=("real", "stdx", "cx", "cxdiv"), cfg=cfg())
    u.crate_attrs = []
    u.item(PFILE, "struct", "Polynomial")
    u.spec("".join(l.verus_stub() for l in NRA_LEMMAS))
    u.spec(SPEC)
    im = u.impl(PFILE, "Polynomial<N>", header="impl Polynomial", keep_assoc=False)
    f = im.fn("make_complex")
    f.req("self.wf()")
    f.ens("cs(res) == cs(*self) && res.tolerance == self.tolerance && res.coefficients@.len() == self.coefficients@.len()")
    f.loop(1, iter="it", invariant=["coefficients@.len() == it.index@", "forall|k: int| 0 <= k < it.index@ ==> coefficients@[k]@ == self.coefficients@[k]@",
                                    "forall|k: int| 0 <= k < it.history@.len() ==> *it.history@[k] == self.coefficients@[k]"])
    f.hint("before: Polynomial {", "proof { assert(Seq::new(coefficients@.len(), |i: int| coefficients@[i]@) =~= cs(*self)); }")
    g = im.fn("roots")
    g.attrs = []
    g.opt(subst=[("let mut corrected_roots = VecDeque::with_capacity(", "let mut corrected_roots: VecDeque<C> = VecDeque::with_capacity(", "R10-type-annotation")])
    g.req("self.wf()", "tol@ > 0real", "self.lead_kept()")
    g.decreases = "self.coefficients@.len()"
    g.ens(*roots_ens("cs"))
    g.loop(1, invariant=["k <= n_max", "complex.wf() && derivative.wf()", "tol@ > 0real", "self.coefficients@.len() >= 4", "cs(complex) == cs(*self) && complex.tolerance == self.tolerance",
                          "complex.coefficients@.len() == self.coefficients@.len() && complex.lead_kept()"],
           decreases="n_max - k")
    g.hint("after: let division =", "proof { axiom_cdiv(cneg(self.coefficients@[0]@), self.coefficients@[1]@); axiom_cdiv(self.coefficients@[0]@, cneg(self.coefficients@[1]@)); lemma_cmul_neg(division@, self.coefficients@[1]@); assert(cs(*self)[0] == self.coefficients@[0]@ && cs(*self)[1] == self.coefficients@[1]@); }")
    g.hint("after: let complex =", "proof { assert(complex.lead() == cs(complex)[cs(complex).len() - 1]); assert(self.lead() == cs(*self)[cs(*self).len() - 1]); assert(complex.lead_kept()); }")
    g.hint("before: let (deriv, second_deriv)", "proof { axiom_cabs(val@); }")
    g.hint("before: let a = if", "proof { axiom_cabs(denominator@); }")
    g.hint("after: let divisor =", "proof { assert(divisor.coefficients@.len() == 2 && divisor.lead() == (1real, 0real)); }")
    g.loop(2, iter="it", invariant=["complex.wf()", "self.coefficients@.len() >= 4", "roots@.len() == self.coefficients@.len() - 1", "cs(complex) == cs(*self)",
                                     "forall|i: int| 0 <= i < corrected_roots@.len() ==> newton_result(cs(*self), #[trigger] corrected_roots@[i]@, tol@)", "corrected_roots@.len() == it.index@", "forall|k: int| 0 <= k < it.history@.len() ==> *it.history@[k] == roots@[k]"])
    return [u, real_unit(), C12.complex_unit("C14"), zeros_unit()]


def cfg_real():
    c = Config(type_subst=[("Polynomial<Complex<<N as ComplexField>::RealField>>", "CPolynomial"), ("Polynomial<Complex<N::RealField>>", "CPolynomial"),
                           ("Complex<<N as ComplexField>::RealField>", "C"), ("Complex::<<N as ComplexField>::RealField>", "C"),
                           ("Complex<N::RealField>", "C"), ("Complex::<N::RealField>", "C"),
                           ("<N as ComplexField>::RealField", "R"), ("N::RealField", "R"),
                           ("Polynomial<N>", "Polynomial"), ("Polynomial::<N>", "Polynomial"),
                           ("N", "R"), ("f64", "R")])
    c.extra = [("VecDeque::from(", "vx_deque_from_vec(", "R13-deque-from-vec")]
    c.expand_polynomial_macro = True
    c.polynomial_macro_type = "CPolynomial"        # the only polynomial![..] in roots() builds the complex linear factor
    return c


# the real instantiation N = f64: the polynomial's own coefficients are reals, everything after make_complex() is the complex
# polynomial type, whose methods -- including roots() itself, proved in the unit above -- appear here as CONTRACTS ONLY
REAL_SPEC = r'''
pub struct CPolynomial { pub coefficients: Vec<C>, pub tolerance: R }
pub open spec fn csr(p: Polynomial) -> Seq<(real, real)> { Seq::new(p.coefficients@.len(), |i: int| (p.coefficients@[i]@, 0real)) }
// real coefficients read as complex pairs: the discriminant and the doubled leading coefficient of the quadratic formula
pub proof fn lemma_real_quadratic(a: real, b: real, c: real)
    ensures csub(cmul((b, 0real), (b, 0real)), cmul(cmul((4real, 0real), (a, 0real)), (c, 0real))) == (b * b - (4real * a) * c, 0real),
        cmul((a, 0real), (2real, 0real)) == (2real * a, 0real)
{
    assert(cmul((b, 0real), (b, 0real)) == (b * b, 0real));
    assert(cmul((4real, 0real), (a, 0real)) == (4real * a, 0real));
    assert(cmul((4real * a, 0real), (c, 0real)) == ((4real * a) * c, 0real));
}
// degree 1 with real coefficients: d c1 == -c0 makes (d, 0) an exact root
pub proof fn lemma_real_linear(c0: real, c1: real, d: real)
    requires d * c1 == -c0
    ensures cadd((c0, 0real), cmul((d, 0real), (c1, 0real))) == (0real, 0real)
{ assert(cmul((d, 0real), (c1, 0real)) == (d * c1, 0real)); }
impl Polynomial {
    pub open spec fn wf(&self) -> bool { self.coefficients@.len() >= 1 }
    pub open spec fn lead(&self) -> (real, real) { (self.coefficients@[self.coefficients@.len() - 1]@, 0real) }
    pub open spec fn lead_kept(&self) -> bool { !(rabs(self.lead().0) <= self.tolerance@ && rabs(self.lead().1) <= self.tolerance@) }
}
'''


def real_unit():
    u = Unit("C14", "roots_real", preludes=("real", "stdx", "cx", "cxdiv"), cfg=cfg_real())
    u.crate_attrs = []
    u.item(PFILE, "struct", "Polynomial")
    u.spec("".join(l.verus_stub() for l in NRA_LEMMAS))
    u.spec(REAL_SPEC)
    u.spec(SPEC.replace("Polynomial", "CPolynomial"))
    # the contract of roots() at the complex instantiation (proved in unit `roots`), restated
    u.spec("impl CPolynomial {\n    #[verifier::external_body]\n    pub fn roots(&self, tol: R, n_max: usize) -> (res: Result<VecDeque<C>, String>)\n"
           "        requires self.wf(), tol@ > 0real, self.lead_kept()\n        ensures\n"
           + "".join("            " + e + ",\n" for e in roots_ens("cs")) + "    { unimplemented!() }\n}\n")
    im = u.impl(PFILE, "Polynomial<N>", header="impl Polynomial", keep_assoc=False)
    f = im.fn("make_complex")
    f.opt(subst=[("Polynomial {", "CPolynomial {", "R10-struct-literal-type")])
    f.req("self.wf()")
    f.ens("cs(res) == csr(*self) && res.tolerance == self.tolerance && res.coefficients@.len() == self.coefficients@.len()")
    f.loop(1, iter="it", invariant=["coefficients@.len() == it.index@", "forall|k: int| 0 <= k < it.index@ ==> coefficients@[k]@ == (self.coefficients@[k]@, 0real)",
                                    "forall|k: int| 0 <= k < it.history@.len() ==> *it.history@[k] == self.coefficients@[k]"])
    f.hint("before: Polynomial {", "proof { assert(Seq::new(coefficients@.len(), |i: int| coefficients@[i]@) =~= csr(*self)); }")
    g = im.fn("roots")
    g.attrs = []
    g.opt(subst=[("let mut corrected_roots = VecDeque::with_capacity(", "let mut corrected_roots: VecDeque<C> = VecDeque::with_capacity(", "R10-type-annotation")])
    g.req("self.wf()", "tol@ > 0real", "self.lead_kept()")
    g.ens(*roots_ens("csr"))
    g.loop(1, invariant=["k <= n_max", "complex.wf() && derivative.wf()", "tol@ > 0real", "self.coefficients@.len() >= 4", "cs(complex) == csr(*self) && complex.tolerance == self.tolerance",
                          "complex.coefficients@.len() == self.coefficients@.len() && complex.lead_kept()"],
           decreases="n_max - k")
    g.hint("after: let division =", """proof {
            let c0 = self.coefficients@[0]@; let c1 = self.coefficients@[1]@;
            assert(csr(*self)[0] == (c0, 0real) && csr(*self)[1] == (c1, 0real));
            assert(c1 != 0real);
            assert(division@ * c1 == -c0) by(nonlinear_arith) requires division@ == (-c0) / c1 || division@ == c0 / (-c1), c1 != 0real;
            lemma_real_linear(c0, c1, division@);
        }""")
    g.hint("before: let positive =", """proof {
            let a = self.coefficients@[2]@; let b = self.coefficients@[1]@; let c = self.coefficients@[0]@;
            assert(csr(*self)[0] == (c, 0real) && csr(*self)[1] == (b, 0real) && csr(*self)[2] == (a, 0real));
            reveal_with_fuel(rpowi, 3);
            assert(rpowi(b, 2) == b * b);
            lemma_real_quadratic(a, b, c);
            assert(a != 0real);
        }""")
    g.hint("after: let complex =", "proof { assert(complex.lead() == cs(complex)[cs(complex).len() - 1]); assert(self.lead() == csr(*self)[csr(*self).len() - 1]); assert(complex.lead_kept()); }")
    g.hint("before: let (deriv, second_deriv)", "proof { axiom_cabs(val@); }")
    g.hint("before: let a = if", "proof { axiom_cabs(denominator@); }")
    g.hint("after: let divisor =", "proof { assert(divisor.coefficients@.len() == 2 && divisor.lead() == (1real, 0real)); }")
    g.loop(2, iter="it", invariant=["complex.wf()", "self.coefficients@.len() >= 4", "roots@.len() == self.coefficients@.len() - 1", "cs(complex) == csr(*self)",
                                     "forall|i: int| 0 <= i < corrected_roots@.len() ==> newton_result(csr(*self), #[trigger] corrected_roots@[i]@, tol@)", "corrected_roots@.len() == it.index@",
                                     "forall|k: int| 0 <= k < it.history@.len() ==> *it.history@[k] == roots@[k]"])
    return u


DECIDED = [
    "Polynomial::roots at the complex instantiation (N = Complex): an Ok result has exactly degree-many entries (degree >= 1); a leading coefficient within the tolerance gives Err; the recursion terminates (decreases: length)",
    "degree 1: Ok, and the returned number r satisfies c0 + r c1 == 0 exactly",
    "degree 2: Ok, and the two returned numbers are (-b + s)/(2a) and (-b - s)/(2a) with s*s == b^2 - 4ac; lemma_quadratic_root (Verus + z3/cvc5 NRA over pairs of reals): both satisfy a r^2 + b r + c == 0",
    "degree >= 3: every division in the Laguerre step has a non-zero divisor (|p(x)| >= tol > 0; the denominator is used only when its modulus is > 0) -- this is the obligation the x^n - c defect failed; "
    "an exhausted iteration cap gives Err; every returned number is an Ok result of newton_polynomial on the ORIGINAL (undeflated) polynomial",
    "make_complex: same coefficients, same tolerance",
    "legendre_zeros / laguerre_zeros (unit zeros, real instantiation; the constructors and roots() through their proved contracts only): n == 0 -> Ok(empty); n == 1 -> Ok([0]) / Ok([1]) (the exact zero of P_1 / L_1); "
    "n >= 2 with a non-negligible leading coefficient: an Ok result has exactly n entries (the constructor returns n + 1 coefficients and its own tolerance, roots() returns degree-many numbers, "
    "the real-part / snap-to-zero map keeps the count), and entry i is the real part of the i-th number that roots() returned for the constructor's polynomial, "
    "replaced by 0 exactly when its modulus is below the tolerance (constructors and roots() read as deterministic functions of their arguments); no unwrap, index or arithmetic overflow can fail",
    "hermite_zeros (unit zeros): n == 0 -> Ok(empty); n == 1 -> Ok([0]); an Ok result has exactly n entries -- one asymptotic starting guess, one Newton solve on the deflated polynomial, "
    "one deflation by the monic linear factor and one polishing solve on the ORIGINAL polynomial per zero; every divide() call meets the precondition proved for it in C12 "
    "(well-formed dividend with positive tolerance, divisor with leading coefficient 1), every newton_polynomial call its precondition",
    "Polynomial::roots at the REAL instantiation (N = f64, unit roots_real; the complex polynomial type appears there through contracts only, its roots() contract being the one "
    "proved in unit roots): same clauses -- count, refusal of a negligible leading coefficient, degree 1 exact, degree 2: the two numbers are (-b +- s)/(2a) with s the COMPLEX square root "
    "of the real discriminant read as (d, 0) (so a negative discriminant gives the conjugate pair, not NaN), degree >= 3 as above",
]
NOT_DECIDED = [
    "that the returned numbers of degree >= 3 are roots to within a tolerance-scaled residual, match the true roots one-to-one, come in conjugate pairs, and that the result is Ok for separated roots "
    "(convergence of Laguerre / Newton iterations: analytic, no contract over exact reals expresses it); newton_result is the C08 contract (a Newton update of size <= tol), not a residual bound",
    "legendre_zeros / laguerre_zeros / hermite_zeros: that the n numbers are zeros of the classical polynomial, distinct and inside the orthogonality interval "
    "(accuracy / convergence of roots() and of the Newton-deflation loop: not decided; bounded probe c14 checks it for n <= 12)",
    "floating-point effects (tolerance near rounding noise)",
]
ASSUMPTIONS = [
    "prelude/cx.rs: complex numbers are exact pairs of reals; division and sqrt are specified by what they invert (trusted axioms axiom_cdiv, axiom_csqrt, axiom_cabs); a division's divisor must be non-zero (obligation at each call site)",
    "callee contracts restated, not re-proved here: evaluate (Horner value), derivative, evaluate_derivative, from_slice (verified at N = real in C13), newton_polynomial (C08)",
    "divide() by a monic linear factor returns a quotient one shorter with the same leading coefficient and tolerance when the dividend's leading coefficient is not purged "
    "(precondition lead_kept: the property's 'non-negligible leading coefficient'): restated in units roots / roots_real, PROVED in unit divide_complex (the C12 unit, re-run here)",
    "unit zeros: legendre(n, tol) / laguerre(n, tol) restated as 'Ok, n + 1 coefficients, tolerance tol, coefficient n is fam_lead(n)' (consequences of the contracts proved in C18, which gained the tolerance clause for this); "
    "roots() at the real instantiation restated with its count clause (proved in unit roots_real); the precondition |fam_lead(n)| > poly_tol is the property's non-negligible leading coefficient; "
    "hermite(n, tol) restated as 'Ok, n + 1 coefficients, tolerance tol' (C18; the tolerance clause needs the helper clause 'a product carries the tolerance of one of its operands', verified for multiply() in the C18 unit); "
    "divide() at the real instantiation restated with the clauses proved in C12 unit divide (Euclidean step Ok, quotient well-formed, not longer than the dividend, dividend's tolerance); newton_polynomial restated with its precondition only (C08); "
    "rule R38: the two f32 constants of hermite_zeros' asymptotic starting guesses (3.3721 / 6^(1/3), 1/3) are opaque values (their values do not enter the contract); Polynomial::clone = same coefficients and tolerance",
    "rule R37: the public field `c.re` of num_complex read through the shim's accessor; vstd's specifications of VecDeque::iter, Iterator::map and collect",
    "VecDeque::from(Vec) shim (same elements); `polynomial![a, b]` expanded as its macro definition (R18)",
    "NRA side lemmas lemma_quad_plus / lemma_quad_minus discharged by z3 and cvc5, used as external_body proof fns",
]


# ---- the zero finders of the orthogonal polynomials (src/special/polynomial/mod.rs), real instantiation ----------------------------
SFILE = "src/special/polynomial/mod.rs"

ZEROS_SPEC = r'''
use std::collections::VecDeque;
impl Polynomial {
    pub open spec fn wf(&self) -> bool { self.coefficients@.len() >= 1 }
    pub open spec fn lead(&self) -> (real, real) { (self.coefficients@[self.coefficients@.len() - 1]@, 0real) }
    pub open spec fn lead_kept(&self) -> bool { !(rabs(self.lead().0) <= self.tolerance@ && rabs(self.lead().1) <= self.tolerance@) }
}
// the leading coefficient c(n, n) of family `fam` (0 Legendre, 2 Laguerre): the value C18 proves coefficient n of the constructor's result to have
// (leg_c(n, n) of the three-term recurrence; (-1)^n / n! for Laguerre).  Abstract here: only "the constructor returns it" and "it is not negligible" are used.
pub uninterp spec fn fam_lead(fam: int, n: nat) -> real;
// the constructors and roots() are deterministic functions of their arguments (no interior state): their Ok values as spec functions
pub uninterp spec fn fam_poly(fam: int, n: nat, tol: real) -> Polynomial;
pub uninterp spec fn roots_val(p: Polynomial, tol: real, n_max: int) -> Seq<(real, real)>;
// constructors: CONTRACTS ONLY (consequences of the contracts proved in C18, unit special)
#[verifier::external_body]
pub fn legendre(n: u32, tol: R) -> (res: Result<Polynomial, String>)
    requires tol@ > 0real, n <= 0x3fff_ffff
    ensures res is Ok, res->Ok_0.coefficients@.len() == n + 1, res->Ok_0.tolerance == tol, res->Ok_0.coefficients@[n as int]@ == fam_lead(0, n as nat),
        res->Ok_0 == fam_poly(0, n as nat, tol@)
{ unimplemented!() }
#[verifier::external_body]
pub fn laguerre(n: u32, tol: R) -> (res: Result<Polynomial, String>)
    requires tol@ > 0real, n < 0x3fff_ffff
    ensures res is Ok, res->Ok_0.coefficients@.len() == n + 1, res->Ok_0.tolerance == tol, res->Ok_0.coefficients@[n as int]@ == fam_lead(2, n as nat),
        res->Ok_0 == fam_poly(2, n as nat, tol@)
{ unimplemented!() }
impl Polynomial {
    // roots() at the real instantiation: CONTRACT ONLY (clauses proved in unit roots_real)
    #[verifier::external_body]
    pub fn roots(&self, tol: R, n_max: usize) -> (res: Result<VecDeque<C>, String>)
        requires self.wf(), tol@ > 0real, self.lead_kept()
        ensures res is Ok && self.coefficients@.len() >= 2 ==> res->Ok_0@.len() == self.coefficients@.len() - 1,
            res is Ok ==> res->Ok_0@.len() == roots_val(*self, tol@, n_max as int).len() && forall|i: int| 0 <= i < res->Ok_0@.len() ==> (#[trigger] res->Ok_0@[i])@ == roots_val(*self, tol@, n_max as int)[i]
    { unimplemented!() }
}
#[verifier::external_body]
pub fn hermite(n: u32, tol: R) -> (res: Result<Polynomial, String>)
    requires tol@ > 0real, n <= 0x3fff_ffff
    ensures res is Ok, res->Ok_0.coefficients@.len() == n + 1, res->Ok_0.tolerance == tol
{ unimplemented!() }
impl Clone for Polynomial {
    #[verifier::external_body]
    fn clone(&self) -> (r: Polynomial) ensures r.coefficients@ == self.coefficients@, r.tolerance == self.tolerance { unimplemented!() }
}
impl Polynomial {
    // restated from C13 (from_slice: coefficients in reverse order of the slice) and C12 (unit divide: a Euclidean step by a divisor of degree >= 1 is Ok,
    // quotient well-formed, no longer than the dividend, with the dividend's tolerance)
    #[verifier::external_body]
    pub fn from_slice(data: &[R]) -> (r: Polynomial) ensures r.coefficients@.len() == (if data@.len() == 0 { 1 } else { data@.len() }),
        forall|i: int| 0 <= i < data@.len() ==> r.coefficients@[i]@ == data@[data@.len() - 1 - i]@ { unimplemented!() }
    #[verifier::external_body]
    pub fn divide(&self, divisor: &Polynomial) -> (res: Result<(Polynomial, Polynomial), String>)
        requires self.wf(), divisor.wf(), self.tolerance@ > 0real,
            divisor.coefficients@.len() >= 2 ==> divisor.coefficients@[divisor.coefficients@.len() - 1]@ != 0real,
            self.coefficients@.len() + divisor.coefficients@.len() < usize::MAX / 2
        ensures divisor.coefficients@.len() >= 2 ==> res is Ok && res->Ok_0.0.wf() && res->Ok_0.0.tolerance == self.tolerance
            && res->Ok_0.0.coefficients@.len() <= self.coefficients@.len()
    { unimplemented!() }
}
// newton_polynomial at the real instantiation: CONTRACT ONLY (proved in C08, unit scalar); only its precondition matters here
#[verifier::external_body]
pub fn newton_polynomial(initial: R, poly: &Polynomial, tol: R, n_max: usize) -> (res: Result<R, String>)
    requires poly.wf()
{ unimplemented!() }
// the two constants of the asymptotic starting guesses (3.3721 / 6^(1/3) and 1/3, computed in f32): their VALUES are not modelled
#[verifier::external_body]
pub fn vx_guess_constant(which: u8) -> (r: R) { unimplemented!() }
// what the zero finders make of one complex root: its real part, snapped to 0 when within the tolerance
pub open spec fn snapped(c: (real, real), tol: real) -> real { if rabs(c.0) < tol { 0real } else { c.0 } }
'''


def zeros_cfg():
    c = cfg_real()
    c.polynomial_macro_type = "Polynomial"       # hermite_zeros builds the REAL linear factor x - zero
    return c


def zeros_unit():
    u = Unit("C14", "zeros", preludes=("real", "stdx", "cx", "cxdiv"), cfg=zeros_cfg())
    u.crate_attrs = []
    u.item(PFILE, "struct", "Polynomial")
    u.spec(ZEROS_SPEC)
    for name, fam, one in (("legendre_zeros", 0, "0real"), ("laguerre_zeros", 2, "1real")):
        f = u.fn(SFILE, name)
        lim = "n <= 0x3fff_ffff" if fam == 0 else "n < 0x3fff_ffff"
        f.req("tol@ > 0real", "poly_tol@ > 0real", lim,
              # the property's "non-negligible leading coefficient", for the polynomial the constructor returns
              f"n >= 2 ==> rabs(fam_lead({fam}, n as nat)) > poly_tol@")
        f.ens("n == 0 ==> res is Ok && res->Ok_0@.len() == 0",
              f"n == 1 ==> res is Ok && res->Ok_0@.len() == 1 && res->Ok_0@[0]@ == {one}",
              # exactly n numbers
              "res is Ok ==> res->Ok_0@.len() == n",
              # entry i is the real part of the i-th number roots() returned for the constructor's polynomial, snapped to 0 when within the tolerance
              f"n >= 2 && res is Ok ==> forall|i: int| 0 <= i < n ==> (#[trigger] res->Ok_0@[i])@ == snapped(roots_val(fam_poly({fam}, n as nat, poly_tol@), tol@, n_max as int)[i], tol@)")
        f.closure(1, params="c: &C", ret="vx_y: R", ensures=["vx_y@ == snapped((*c)@, tol@)"])
        # R37: num_complex's public field `re` read through the shim's accessor (the shim keeps its components ghost)
        f.opt(subst=[("c.re", "(*c).real()", "R37-complex-field-re")])
    h = u.fn(SFILE, "hermite_zeros")
    h.req("tol@ > 0real", "poly_tol@ > 0real", "n <= 0x3fff_fffe")
    h.ens("n == 0 ==> res is Ok && res->Ok_0@.len() == 0",
          "n == 1 ==> res is Ok && res->Ok_0@.len() == 1 && res->Ok_0@[0]@ == 0real",
          # exactly n numbers: one starting guess, one deflation and one polishing step per zero
          "res is Ok ==> res->Ok_0@.len() == n")
    h.opt(subst=[("N::from_f32(3.3721 / 6.0.cbrt()).unwrap()", "vx_guess_constant(0u8)", "R38-guess-constant"),
                 ("N::from_f32(1.0 / 3.0).unwrap().real()", "vx_guess_constant(1u8)", "R38-guess-constant"),
                 ("let mut zeros = Vec::with_capacity(", "let mut zeros: Vec<R> = Vec::with_capacity(", "R10-type-annotation"),
                 ("let mut zs = Vec::with_capacity(", "let mut zs: Vec<R> = Vec::with_capacity(", "R10-type-annotation")])
    h.loop(1, iter="it", invariant=["zeros@.len() == it.index@", "n >= 2"])
    h.loop(2, iter="it2", invariant=["zs@.len() == it2.index@", "zeros@.len() == n", "poly.wf()", "deflator.wf() && deflator.tolerance@ > 0real",
                                      "deflator.coefficients@.len() <= n + 1", "n <= 0x3fff_fffe"])
    return u
