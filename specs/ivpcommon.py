"""Shared extraction config for the IVP units (src/ivp.rs, src/ivp/*.rs, src/lib.rs)."""
from vx.extract import Config

DERIV = "FnMut(R, &[R], &mut T) -> Result<V, UserError>"


def cfg(solver=None, extra=()):
    sub = [
        ("Derivative<N, D, T> + 'a", DERIV), ("Derivative<N, D, T>", DERIV),
        ("BVector<N, D>", "V"), ("BVector<Self::Field, D>", "V"), ("BVector<T::Field, D>", "V"),
        ("Self::Error", "IVPError"), ("Self::UserData", "T"), ("Self::Derivative", "F"),
        ("<Self::RealField as Zero>::zero()", "R::zero()"),
        ("IVPStatus<Self::Error>", "IVPStatus<IVPError>"),
        ("T: Error", "T"),
        # lifetimes are erased; the marker keeps every type parameter used (D only occurs inside BVector<N, D>)
        ("PhantomData<&'a T>", "PhantomData<T>"), ("PhantomData<&'a ()>", "PhantomData<D>"),
    ] + list(extra)
    c = Config(extra_subst=sub, drop_generics=("N", "'a"),
               drop_where=["N", "<N as ComplexField>::RealField", "N::RealField", "DefaultAllocator"])
    c.extra = [("_dim: PhantomData,", "", "R2-phantom")]
    return c


CALLBACK_SPEC = """
// the user's derivative function, modelled as a pure function of (t, y): either a vector or an error
pub uninterp spec fn df_ok(t: real, y: Seq<real>) -> bool;
pub uninterp spec fn df_val(t: real, y: Seq<real>) -> Seq<real>;
pub uninterp spec fn df_err(t: real, y: Seq<real>) -> UserError;
"""
