"""Shared extraction config for the IVP units (src/ivp.rs, src/ivp/*.rs, src/lib.rs)."""
from vx.extract import Config

DERIV = "FnMut(R, &[R], &mut T) -> Result<V, UserError>"


def cfg(solver=None, extra=()):
    sub = [
        ("Derivative<N, D, T> + 'a", DERIV), ("Derivative<N, D, T>", DERIV),
        ("BVector<N, D>", "V"), ("BVector<Self::Field, D>", "V"), ("BVector<T::Field, D>", "V"),
        ("Self::Error", "IVPError"), ("Self::UserData", "T"), ("Self::Derivative", "F"),
        ("<Self::RealField as Zero>::zero()", "R::zero()"),
        ("IVPStatus<Self::Error>", "IVPStatus<IVPError>"),
        ("T: Error", "T"),
        # lifetimes are erased; the marker keeps every type parameter used (D only occurs inside BVector<N, D>)
        ("PhantomData<&'a T>", "PhantomData<T>"), ("PhantomData<&'a ()>", "PhantomData<D>"),
    ] + list(extra)
    c = Config(extra_subst=sub, drop_generics=("N", "'a"),
               drop_where=["N", "<N as ComplexField>::RealField", "N::RealField", "DefaultAllocator"])
    c.extra = [("_dim: PhantomData,", "", "R2-phantom")]
    return c


CALLBACK_SPEC = """
// the user's derivative function, modelled as a pure function of (t, y): either a vector or an error
pub uninterp spec fn df_ok(t: real, y: Seq<real>) -> bool;
pub uninterp spec fn df_val(t: real, y: Seq<real>) -> Seq<real>;
pub uninterp spec fn df_err(t: real, y: Seq<real>) -> UserError;
"""


# ---- the history invariant shared by the two multistep solvers (Adams, BDF) ------------------------------------
HIST_SPEC = r'''
pub open spec fn pvv(d: VecDeque<(R, V)>) -> Seq<(real, Seq<real>)> { Seq::new(d@.len(), |i: int| (d@[i].0@, d@[i].1@)) }
pub open spec fn pdv(d: VecDeque<V>) -> Seq<Seq<real>> { Seq::new(d@.len(), |i: int| d@[i]@) }
pub open spec fn spaced(pv: Seq<(real, Seq<real>)>, i: int, h: real) -> bool { pv[i + 1].0 == pv[i].0 + h }
// d is the user's derivative function evaluated AT TIME t (at the accepted or at the predicted state)
pub open spec fn deriv_at(d: Seq<real>, t: real) -> bool { exists|p: Seq<real>| d == #[trigger] df_val(t, p) }
// history entry i: the derivative belongs to the point's time; lengths agree with the state's
pub open spec fn entry_ok(pv: Seq<(real, Seq<real>)>, pd: Seq<Seq<real>>, i: int, dim: nat) -> bool { deriv_at(pd[i], pv[i].0) && pd[i].len() == dim && pv[i].1.len() == dim }
// the history invariant of the multistep solvers (o = O, ym = yield_memory, sl = length of save_state, imp = implicit_derivs)
#[verifier::opaque]
pub open spec fn hist(o: int, dt: real, dtm: real, ym: int, time: real, end: real, pv: Seq<(real, Seq<real>)>, pd: Seq<Seq<real>>, sl: nat, state: Seq<real>, imp: Seq<real>) -> bool {
    let n = pv.len() as int;
    &&& dt > 0real && dt <= dtm && 0 <= ym <= o + 1
    &&& ((ym == 0 || ym == o) && time >= end) || {
        &&& pd.len() == n && (n == 0 || n == o - 1) && (ym != 0 && ym != o ==> n == o - 1)
        &&& (ym == o ==> sl == state.len())
        &&& forall|i: int| 0 <= i < n - 1 ==> #[trigger] spaced(pv, i, dt)
        &&& forall|i: int| 0 <= i < n ==> #[trigger] entry_ok(pv, pd, i, state.len())
        &&& n > 0 ==> if ym == 0 || ym == o { pv[n - 1] == (time, state) }
                      else { pv[n - 1].0 + dt == time && deriv_at(imp, time) && imp.len() == state.len() }
    }
}
// the end time has been reached: nothing is required of the history any more
pub proof fn lemma_hist_done(o: int, dt: real, dtm: real, ym: int, time: real, end: real, pv: Seq<(real, Seq<real>)>, pd: Seq<Seq<real>>, sl: nat, state: Seq<real>, imp: Seq<real>)
    requires dt > 0real, dt <= dtm, ym == 0 || ym == o, o >= 3, time >= end
    ensures hist(o, dt, dtm, ym, time, end, pv, pd, sl, state, imp)
{ reveal(hist); }
pub proof fn lemma_hist_empty(o: int, dt: real, dtm: real, ym: int, time: real, end: real, pv: Seq<(real, Seq<real>)>, pd: Seq<Seq<real>>, sl: nat, state: Seq<real>, imp: Seq<real>)
    requires dt > 0real, dt <= dtm, ym == 0 || (ym == o && sl == state.len()), o >= 3, pv.len() == 0, pd.len() == 0
    ensures hist(o, dt, dtm, ym, time, end, pv, pd, sl, state, imp)
{ reveal(hist); }
// what a history that is in use provides
pub proof fn lemma_hist_use(o: int, dt: real, dtm: real, ym: int, time: real, end: real, pv: Seq<(real, Seq<real>)>, pd: Seq<Seq<real>>, sl: nat, state: Seq<real>, imp: Seq<real>)
    requires hist(o, dt, dtm, ym, time, end, pv, pd, sl, state, imp), !((ym == 0 || ym == o) && time >= end)
    ensures dt > 0real, dt <= dtm, 0 <= ym <= o + 1, pd.len() == pv.len(), pv.len() == 0 || pv.len() == o - 1, ym != 0 && ym != o ==> pv.len() == o - 1,
        ym == o ==> sl == state.len(),
        forall|i: int| 0 <= i < pv.len() - 1 ==> #[trigger] spaced(pv, i, dt),
        forall|i: int| 0 <= i < pv.len() ==> #[trigger] entry_ok(pv, pd, i, state.len()),
        pv.len() > 0 && (ym == 0 || ym == o) ==> pv[pv.len() - 1] == (time, state),
        pv.len() > 0 && !(ym == 0 || ym == o) ==> pv[pv.len() - 1].0 + dt == time && deriv_at(imp, time) && imp.len() == state.len(),
{ reveal(hist); }
pub proof fn lemma_hist_basic(o: int, dt: real, dtm: real, ym: int, time: real, end: real, pv: Seq<(real, Seq<real>)>, pd: Seq<Seq<real>>, sl: nat, state: Seq<real>, imp: Seq<real>)
    requires hist(o, dt, dtm, ym, time, end, pv, pd, sl, state, imp)
    ensures dt > 0real, dt <= dtm, 0 <= ym <= o + 1
{ reveal(hist); }
// building a history that is in use
pub proof fn lemma_hist_intro(o: int, dt: real, dtm: real, ym: int, time: real, end: real, pv: Seq<(real, Seq<real>)>, pd: Seq<Seq<real>>, sl: nat, state: Seq<real>, imp: Seq<real>)
    requires dt > 0real, dt <= dtm, 0 <= ym <= o + 1, pd.len() == pv.len(), pv.len() == o - 1, o >= 3,
        ym == o ==> sl == state.len(),
        forall|i: int| 0 <= i < pv.len() - 1 ==> #[trigger] spaced(pv, i, dt),
        forall|i: int| 0 <= i < pv.len() ==> #[trigger] entry_ok(pv, pd, i, state.len()),
        (ym == 0 || ym == o) ==> pv[pv.len() - 1] == (time, state),
        !(ym == 0 || ym == o) ==> pv[pv.len() - 1].0 + dt == time && deriv_at(imp, time) && imp.len() == state.len(),
    ensures hist(o, dt, dtm, ym, time, end, pv, pd, sl, state, imp)
{ reveal(hist); }
// yielding a start-up point only moves the counter
pub proof fn lemma_hist_yield(o: int, dt: real, dtm: real, ym: int, ym2: int, time: real, end: real, pv: Seq<(real, Seq<real>)>, pd: Seq<Seq<real>>, sl: nat, state: Seq<real>, imp: Seq<real>)
    requires hist(o, dt, dtm, ym, time, end, pv, pd, sl, state, imp), 0 < ym < o, ym2 == (if ym - 1 == 0 { o + 1 } else { ym - 1 }), o >= 3
    ensures hist(o, dt, dtm, ym2, time, end, pv, pd, sl, state, imp), pv.len() == o - 1
{ reveal(hist); }
// handing over the first multistep point: it and its derivative enter the history together, the oldest entries leave
pub proof fn lemma_hist_handover(o: int, dt: real, dtm: real, time: real, end: real, pv: Seq<(real, Seq<real>)>, pd: Seq<Seq<real>>, sl: nat, state: Seq<real>, imp: Seq<real>)
    requires hist(o, dt, dtm, o + 1, time, end, pv, pd, sl, state, imp), o >= 3
    ensures hist(o, dt, dtm, 0, time, end, pv.push((time, state)).drop_first(), pd.push(imp).drop_first(), sl, state, imp)
{
    reveal(hist);
    let pv2 = pv.push((time, state)).drop_first(); let pd2 = pd.push(imp).drop_first(); let n = pv.len() as int;
    assert forall|i: int| 0 <= i < n - 1 implies #[trigger] spaced(pv2, i, dt) by {
        if i + 1 < n - 1 { assert(spaced(pv, i + 1, dt)); }
    }
    assert forall|i: int| 0 <= i < n implies #[trigger] entry_ok(pv2, pd2, i, state.len()) by {
        if i < n - 1 { assert(entry_ok(pv, pd, i + 1, state.len())); }
    }
}
// an accepted multistep point (time2, state2) with derivative imp2 = f(time2, .) enters the history, the oldest entry leaves
pub proof fn lemma_hist_shift(o: int, dt: real, dtm: real, time: real, end: real, pv: Seq<(real, Seq<real>)>, pd: Seq<Seq<real>>, sl: nat, state: Seq<real>, imp: Seq<real>,
                              time2: real, state2: Seq<real>, imp2: Seq<real>)
    requires hist(o, dt, dtm, 0, time, end, pv, pd, sl, state, imp), time < end, pv.len() > 0, o >= 3,
        time2 == time + dt, state2.len() == state.len(), imp2.len() == state.len(), deriv_at(imp2, time2)
    ensures hist(o, dt, dtm, 0, time2, end, pv.push((time2, state2)).drop_first(), pd.push(imp2).drop_first(), sl, state2, imp2)
{
    reveal(hist);
    let pv2 = pv.push((time2, state2)).drop_first(); let pd2 = pd.push(imp2).drop_first(); let n = pv.len() as int;
    assert forall|i: int| 0 <= i < n - 1 implies #[trigger] spaced(pv2, i, dt) by {
        if i + 1 < n - 1 { assert(spaced(pv, i + 1, dt)); }
    }
    assert forall|i: int| 0 <= i < n implies #[trigger] entry_ok(pv2, pd2, i, state2.len()) by {
        if i < n - 1 { assert(entry_ok(pv, pd, i + 1, state.len())); }
    }
}
// an accepted multistep point right after start-up is kept aside (yield_memory O -> O - 1) until the start-up points are yielded
pub proof fn lemma_hist_aside(o: int, dt: real, dtm: real, time: real, end: real, pv: Seq<(real, Seq<real>)>, pd: Seq<Seq<real>>, sl: nat, state: Seq<real>, imp: Seq<real>,
                              time2: real, state2: Seq<real>, imp2: Seq<real>)
    requires hist(o, dt, dtm, o, time, end, pv, pd, sl, state, imp), time < end, pv.len() > 0, o >= 3,
        time2 == time + dt, state2.len() == state.len(), imp2.len() == state.len(), deriv_at(imp2, time2)
    ensures hist(o, dt, dtm, o - 1, time2, end, pv, pd, sl, state2, imp2)
{ reveal(hist); assert forall|i: int| 0 <= i < pv.len() implies #[trigger] entry_ok(pv, pd, i, state2.len()) by { assert(entry_ok(pv, pd, i, state.len())); } }
'''
