"""Shared extraction config for the IVP units (src/ivp.rs, src/ivp/*.rs, src/lib.rs)."""
from vx.extract import Config

DERIV = "FnMut(R, &[R], &mut T) -> Result<V, UserError>"


def cfg(solver=None, extra=()):
    sub = [
        ("Derivative<N, D, T> + 'a", DERIV), ("Derivative<N, D, T>", DERIV),
        ("BVector<N, D>", "V"), ("BVector<Self::Field, D>", "V"), ("BVector<T::Field, D>", "V"),
        ("Self::Error", "IVPError"), ("Self::UserData", "T"), ("Self::Derivative", "F"),
        ("<Self::RealField as Zero>::zero()", "R::zero()"),
        ("IVPStatus<Self::Error>", "IVPStatus<IVPError>"),
        ("T: Error", "T"),
        # lifetimes are erased; the marker keeps every type parameter used (D only occurs inside BVector<N, D>)
        ("PhantomData<&'a T>", "PhantomData<T>"), ("PhantomData<&'a ()>", "PhantomData<D>"),
    ] + list(extra)
    c = Config(extra_subst=sub, drop_generics=("N", "'a"),
               drop_where=["N", "<N as ComplexField>::RealField", "N::RealField", "DefaultAllocator"])
    c.extra = [("_dim: PhantomData,", "", "R2-phantom")]
    return c


CALLBACK_SPEC = """
// the user's derivative function, modelled as a pure function of (t, y): either a vector or an error
pub uninterp spec fn df_ok(t: real, y: Seq<real>) -> bool;
pub uninterp spec fn df_val(t: real, y: Seq<real>) -> Seq<real>;
pub uninterp spec fn df_err(t: real, y: Seq<real>) -> UserError;
"""


# ---- the history invariant shared by the two multistep solvers (Adams, BDF) ------------------------------------
HIST_SPEC = r'''
pub open spec fn pvv(d: VecDeque<(R, V)>) -> Seq<(real, Seq<real>)> { Seq::new(d@.len(), |i: int| (d@[i].0@, d@[i].1@)) }
pub open spec fn pdv(d: VecDeque<V>) -> Seq<Seq<real>> { Seq::new(d@.len(), |i: int| d@[i]@) }
pub open spec fn spaced(pv: Seq<(real, Seq<real>)>, i: int, h: real) -> bool { pv[i + 1].0 == pv[i].0 + h }
// d is the user's derivative function evaluated AT TIME t (at the accepted or at the predicted state)
pub open spec fn deriv_at(d: Seq<real>, t: real) -> bool { exists|p: Seq<real>| d == #[trigger] df_val(t, p) }
// history entry i: the derivative belongs to the point's time; lengths agree with the state's
// (wd: the solver keeps a derivative history -- Adams; BDF keeps values only)
pub open spec fn entry_ok(pv: Seq<(real, Seq<real>)>, pd: Seq<Seq<real>>, i: int, dim: nat, wd: bool) -> bool { (wd ==> deriv_at(pd[i], pv[i].0) && pd[i].len() == dim) && pv[i].1.len() == dim }
// the history invariant of the multistep solvers (o = O, ym = yield_memory, sl = length of save_state, imp = implicit_derivs)
#[verifier::opaque]
pub open spec fn hist(o: int, wd: bool, dt: real, dtm: real, ym: int, time: real, end: real, pv: Seq<(real, Seq<real>)>, pd: Seq<Seq<real>>, sl: nat, state: Seq<real>, imp: Seq<real>) -> bool {
    let n = pv.len() as int;
    &&& dt > 0real && dt <= dtm && 0 <= ym <= o + 1
    // once the end is reached nothing is required any more -- except that no start-up points are still waiting to be yielded
    &&& (time >= end && (ym == 0 || (ym == o && n != o - 1))) || {
        &&& pd.len() == n && (n == 0 || n == o - 1) && (ym != 0 && ym != o ==> n == o - 1)
        &&& (ym == o ==> sl == state.len())
        // start-up points that wait for their validating multistep step: that step fits before the end
        &&& (ym == o && n > 0 ==> time + dt < end)
        &&& forall|i: int| 0 <= i < n - 1 ==> #[trigger] spaced(pv, i, dt)
        &&& forall|i: int| 0 <= i < n ==> #[trigger] entry_ok(pv, pd, i, state.len(), wd)
        &&& n > 0 ==> if ym == 0 || ym == o { pv[n - 1] == (time, state) }
                      else { pv[n - 1].0 + dt == time && (wd ==> deriv_at(imp, time) && imp.len() == state.len()) }
    }
}
// the end time has been reached: nothing is required of the history any more
pub proof fn lemma_hist_done(o: int, wd: bool, dt: real, dtm: real, ym: int, time: real, end: real, pv: Seq<(real, Seq<real>)>, pd: Seq<Seq<real>>, sl: nat, state: Seq<real>, imp: Seq<real>)
    requires dt > 0real, dt <= dtm, ym == 0 || (ym == o && pv.len() != o - 1), o >= 3, time >= end
    ensures hist(o, wd, dt, dtm, ym, time, end, pv, pd, sl, state, imp)
{ reveal(hist); }
pub proof fn lemma_hist_empty(o: int, wd: bool, dt: real, dtm: real, ym: int, time: real, end: real, pv: Seq<(real, Seq<real>)>, pd: Seq<Seq<real>>, sl: nat, state: Seq<real>, imp: Seq<real>)
    requires dt > 0real, dt <= dtm, ym == 0 || (ym == o && sl == state.len()), o >= 3, pv.len() == 0, pd.len() == 0
    ensures hist(o, wd, dt, dtm, ym, time, end, pv, pd, sl, state, imp)
{ reveal(hist); }
// what a history that is in use provides
pub proof fn lemma_hist_use(o: int, wd: bool, dt: real, dtm: real, ym: int, time: real, end: real, pv: Seq<(real, Seq<real>)>, pd: Seq<Seq<real>>, sl: nat, state: Seq<real>, imp: Seq<real>)
    requires hist(o, wd, dt, dtm, ym, time, end, pv, pd, sl, state, imp), !(time >= end && (ym == 0 || ym == o))
    ensures dt > 0real, dt <= dtm, 0 <= ym <= o + 1, pd.len() == pv.len(), pv.len() == 0 || pv.len() == o - 1, ym != 0 && ym != o ==> pv.len() == o - 1,
        ym == o ==> sl == state.len(), ym == o && pv.len() > 0 ==> time + dt < end,
        forall|i: int| 0 <= i < pv.len() - 1 ==> #[trigger] spaced(pv, i, dt),
        forall|i: int| 0 <= i < pv.len() ==> #[trigger] entry_ok(pv, pd, i, state.len(), wd),
        pv.len() > 0 && (ym == 0 || ym == o) ==> pv[pv.len() - 1] == (time, state),
        pv.len() > 0 && !(ym == 0 || ym == o) ==> pv[pv.len() - 1].0 + dt == time && (wd ==> deriv_at(imp, time) && imp.len() == state.len()),
{ reveal(hist); }
pub proof fn lemma_hist_basic(o: int, wd: bool, dt: real, dtm: real, ym: int, time: real, end: real, pv: Seq<(real, Seq<real>)>, pd: Seq<Seq<real>>, sl: nat, state: Seq<real>, imp: Seq<real>)
    requires hist(o, wd, dt, dtm, ym, time, end, pv, pd, sl, state, imp), o >= 3
    ensures dt > 0real, dt <= dtm, 0 <= ym <= o + 1,
        // C01: start-up points that still wait to be yielded are never abandoned: their validating step fits before the end
        ym == o && pv.len() == o - 1 ==> time + dt < end
{ reveal(hist); }
// building a history that is in use
pub proof fn lemma_hist_intro(o: int, wd: bool, dt: real, dtm: real, ym: int, time: real, end: real, pv: Seq<(real, Seq<real>)>, pd: Seq<Seq<real>>, sl: nat, state: Seq<real>, imp: Seq<real>)
    requires dt > 0real, dt <= dtm, 0 <= ym <= o + 1, pd.len() == pv.len(), pv.len() == o - 1, o >= 3,
        ym == o ==> sl == state.len() && time + dt < end,
        forall|i: int| 0 <= i < pv.len() - 1 ==> #[trigger] spaced(pv, i, dt),
        forall|i: int| 0 <= i < pv.len() ==> #[trigger] entry_ok(pv, pd, i, state.len(), wd),
        (ym == 0 || ym == o) ==> pv[pv.len() - 1] == (time, state),
        !(ym == 0 || ym == o) ==> pv[pv.len() - 1].0 + dt == time && (wd ==> deriv_at(imp, time) && imp.len() == state.len()),
    ensures hist(o, wd, dt, dtm, ym, time, end, pv, pd, sl, state, imp)
{ reveal(hist); }
// yielding a start-up point only moves the counter
pub proof fn lemma_hist_yield(o: int, wd: bool, dt: real, dtm: real, ym: int, ym2: int, time: real, end: real, pv: Seq<(real, Seq<real>)>, pd: Seq<Seq<real>>, sl: nat, state: Seq<real>, imp: Seq<real>)
    requires hist(o, wd, dt, dtm, ym, time, end, pv, pd, sl, state, imp), 0 < ym < o, ym2 == (if ym - 1 == 0 { o + 1 } else { ym - 1 }), o >= 3
    ensures hist(o, wd, dt, dtm, ym2, time, end, pv, pd, sl, state, imp), pv.len() == o - 1
{ reveal(hist); }
// handing over the first multistep point: it and its derivative enter the history together, the oldest entries leave
pub proof fn lemma_hist_handover(o: int, wd: bool, dt: real, dtm: real, time: real, end: real, pv: Seq<(real, Seq<real>)>, pd: Seq<Seq<real>>, sl: nat, state: Seq<real>, imp: Seq<real>)
    requires hist(o, wd, dt, dtm, o + 1, time, end, pv, pd, sl, state, imp), o >= 3
    ensures hist(o, wd, dt, dtm, 0, time, end, pv.push((time, state)).drop_first(), pd.push(imp).drop_first(), sl, state, imp)
{
    reveal(hist);
    let pv2 = pv.push((time, state)).drop_first(); let pd2 = pd.push(imp).drop_first(); let n = pv.len() as int;
    assert forall|i: int| 0 <= i < n - 1 implies #[trigger] spaced(pv2, i, dt) by {
        if i + 1 < n - 1 { assert(spaced(pv, i + 1, dt)); }
    }
    assert forall|i: int| 0 <= i < n implies #[trigger] entry_ok(pv2, pd2, i, state.len(), wd) by {
        if i < n - 1 { assert(entry_ok(pv, pd, i + 1, state.len(), wd)); }
    }
}
// an accepted multistep point (time2, state2) with derivative imp2 = f(time2, .) enters the history, the oldest entry leaves
pub proof fn lemma_hist_shift(o: int, wd: bool, dt: real, dtm: real, time: real, end: real, pv: Seq<(real, Seq<real>)>, pd: Seq<Seq<real>>, sl: nat, state: Seq<real>, imp: Seq<real>,
                              time2: real, state2: Seq<real>, imp2: Seq<real>)
    requires hist(o, wd, dt, dtm, 0, time, end, pv, pd, sl, state, imp), time < end, pv.len() > 0, o >= 3,
        time2 == time + dt, state2.len() == state.len(), wd ==> imp2.len() == state.len() && deriv_at(imp2, time2)
    ensures hist(o, wd, dt, dtm, 0, time2, end, pv.push((time2, state2)).drop_first(), pd.push(imp2).drop_first(), sl, state2, imp2)
{
    reveal(hist);
    let pv2 = pv.push((time2, state2)).drop_first(); let pd2 = pd.push(imp2).drop_first(); let n = pv.len() as int;
    assert forall|i: int| 0 <= i < n - 1 implies #[trigger] spaced(pv2, i, dt) by {
        if i + 1 < n - 1 { assert(spaced(pv, i + 1, dt)); }
    }
    assert forall|i: int| 0 <= i < n implies #[trigger] entry_ok(pv2, pd2, i, state2.len(), wd) by {
        if i < n - 1 { assert(entry_ok(pv, pd, i + 1, state.len(), wd)); }
    }
}
// an accepted multistep point right after start-up is kept aside (yield_memory O -> O - 1) until the start-up points are yielded
pub proof fn lemma_hist_aside(o: int, wd: bool, dt: real, dtm: real, time: real, end: real, pv: Seq<(real, Seq<real>)>, pd: Seq<Seq<real>>, sl: nat, state: Seq<real>, imp: Seq<real>,
                              time2: real, state2: Seq<real>, imp2: Seq<real>)
    requires hist(o, wd, dt, dtm, o, time, end, pv, pd, sl, state, imp), time < end, pv.len() > 0, o >= 3,
        time2 == time + dt, state2.len() == state.len(), wd ==> imp2.len() == state.len() && deriv_at(imp2, time2)
    ensures hist(o, wd, dt, dtm, o - 1, time2, end, pv, pd, sl, state2, imp2)
{ reveal(hist); assert forall|i: int| 0 <= i < pv.len() implies #[trigger] entry_ok(pv, pd, i, state2.len(), wd) by { assert(entry_ok(pv, pd, i, state.len(), wd)); } }
'''


# ---- C01: what one call of step() does to the solver's clock, and the whole-history lemma over that contract ------
TRACE_SPEC = r'''
// the clock contract of a single-step solver (Euler, Runge-Kutta): `t0 -> t1` is what the call did to the solver's time
pub open spec fn clock_rel(t0: real, end: real, t1: real, r: Result<(R, V), IVPStatus<IVPError>>) -> bool {
    &&& t0 <= end ==> t1 <= end
    &&& match r {
        Ok(p) => t0 < t1,
        Err(IVPStatus::Done) => t0 >= end && t1 == t0,
        Err(IVPStatus::Redo) => t1 == t0,
        Err(IVPStatus::Failure(_)) => true,
    }
}
// a history of step() calls: ts[i] -> ts[i + 1] with result rs[i]
pub open spec fn clock_history(ts: Seq<real>, rs: Seq<Result<(R, V), IVPStatus<IVPError>>>, end: real) -> bool {
    ts.len() == rs.len() + 1 && forall|i: int| #![trigger rs[i]] 0 <= i < rs.len() ==> clock_rel(ts[i], end, ts[i + 1], rs[i])
}
// between a point and a later one with no accepted step in between the clock stands still
pub proof fn lemma_clock_still(ts: Seq<real>, rs: Seq<Result<(R, V), IVPStatus<IVPError>>>, end: real, a: int, b: int)
    requires clock_history(ts, rs, end), 0 <= a <= b <= rs.len(),
        forall|i: int| a <= i < b ==> !(#[trigger] rs[i] is Ok) && !(rs[i] is Err && rs[i]->Err_0 is Failure)
    ensures ts[b] == ts[a]
    decreases b - a
{
    if a < b { assert(clock_rel(ts[b - 1], end, ts[b], rs[b - 1])); lemma_clock_still(ts, rs, end, a, b - 1); }
}
// C01: a solve that starts before the end, never fails and is answered Done has accepted at least one step, and after its LAST
// accepted step the clock reads exactly the end time (for Runge-Kutta the yielded time is that clock value)
pub proof fn lemma_reaches_end(ts: Seq<real>, rs: Seq<Result<(R, V), IVPStatus<IVPError>>>, end: real, k: int)
    requires clock_history(ts, rs, end), 0 <= k < rs.len(), rs[k] is Err && rs[k]->Err_0 is Done, ts[0] < end,
        forall|i: int| 0 <= i < k ==> !(#[trigger] rs[i] is Err && rs[i]->Err_0 is Failure)
    ensures exists|j: int| 0 <= j < k && #[trigger] rs[j] is Ok && ts[j + 1] == end && forall|i: int| j < i < k ==> !(#[trigger] rs[i] is Ok)
{
    assert(clock_rel(ts[k], end, ts[k + 1], rs[k]));
    lemma_last_ok(ts, rs, end, k, k);
}
pub proof fn lemma_times_bounded(ts: Seq<real>, rs: Seq<Result<(R, V), IVPStatus<IVPError>>>, end: real, n: int)
    requires clock_history(ts, rs, end), 0 <= n <= rs.len(), ts[0] <= end
    ensures ts[n] <= end
    decreases n
{ if n > 0 { lemma_times_bounded(ts, rs, end, n - 1); assert(clock_rel(ts[n - 1], end, ts[n], rs[n - 1])); } }
pub proof fn lemma_last_ok(ts: Seq<real>, rs: Seq<Result<(R, V), IVPStatus<IVPError>>>, end: real, k: int, m: int)
    requires clock_history(ts, rs, end), 0 <= m <= k < rs.len(), ts[k] >= end, ts[0] < end,
        forall|i: int| 0 <= i < k ==> !(#[trigger] rs[i] is Err && rs[i]->Err_0 is Failure),
        forall|i: int| m <= i < k ==> !(#[trigger] rs[i] is Ok)
    ensures exists|j: int| 0 <= j < k && #[trigger] rs[j] is Ok && ts[j + 1] == end && forall|i: int| j < i < k ==> !(#[trigger] rs[i] is Ok)
    decreases m
{
    if m == 0 { lemma_clock_still(ts, rs, end, 0, k); assert(false); }
    else if rs[m - 1] is Ok {
        lemma_clock_still(ts, rs, end, m, k);
        lemma_times_bounded(ts, rs, end, m);
        assert(ts[m] == end);
        assert(rs[m - 1] is Ok && ts[(m - 1) + 1] == end);
    } else { lemma_last_ok(ts, rs, end, k, m - 1); }
}
'''
