"""Shared extraction config for the IVP units (src/ivp.rs, src/ivp/*.rs, src/lib.rs)."""
from vx.extract import Config

DERIV = "FnMut(R, &[R], &mut T) -> Result<V, UserError>"


def cfg(solver=None, extra=()):
    sub = [
        ("Derivative<N, D, T> + 'a", DERIV), ("Derivative<N, D, T>", DERIV),
        ("BVector<N, D>", "V"), ("BVector<Self::Field, D>", "V"), ("BVector<T::Field, D>", "V"),
        ("Self::Error", "IVPError"), ("Self::UserData", "T"), ("Self::Derivative", "F"),
        ("<Self::RealField as Zero>::zero()", "R::zero()"),
        ("IVPStatus<Self::Error>", "IVPStatus<IVPError>"),
        ("T: Error", "T"),
        # lifetimes are erased; the marker keeps every type parameter used (D only occurs inside BVector<N, D>)
        ("PhantomData<&'a T>", "PhantomData<T>"), ("PhantomData<&'a ()>", "PhantomData<D>"),
    ] + list(extra)
    c = Config(extra_subst=sub, drop_generics=("N", "'a"),
               drop_where=["N", "<N as ComplexField>::RealField", "N::RealField", "DefaultAllocator"])
    c.extra = [("_dim: PhantomData,", "", "R2-phantom")]
    return c


CALLBACK_SPEC = """
// the user's derivative function, modelled as a pure function of (t, y): either a vector or an error
pub uninterp spec fn df_ok(t: real, y: Seq<real>) -> bool;
pub uninterp spec fn df_val(t: real, y: Seq<real>) -> Seq<real>;
pub uninterp spec fn df_err(t: real, y: Seq<real>) -> UserError;
"""


# ---- the history invariant shared by the two multistep solvers (Adams, BDF) ------------------------------------
HIST_SPEC = r'''
pub open spec fn pvv(d: VecDeque<(R, V)>) -> Seq<(real, Seq<real>)> { Seq::new(d@.len(), |i: int| (d@[i].0@, d@[i].1@)) }
pub open spec fn pdv(d: VecDeque<V>) -> Seq<Seq<real>> { Seq::new(d@.len(), |i: int| d@[i]@) }
pub open spec fn spaced(pv: Seq<(real, Seq<real>)>, i: int, h: real) -> bool { pv[i + 1].0 == pv[i].0 + h }
// d is the user's derivative function evaluated AT TIME t (at the accepted or at the predicted state)
pub open spec fn deriv_at(d: Seq<real>, t: real) -> bool { exists|p: Seq<real>| d == #[trigger] df_val(t, p) }
// history entry i: the derivative belongs to the point's time; lengths agree with the state's
// (wd: the solver keeps a derivative history -- Adams; BDF keeps values only)
pub open spec fn entry_ok(pv: Seq<(real, Seq<real>)>, pd: Seq<Seq<real>>, i: int, dim: nat, wd: bool) -> bool { (wd ==> deriv_at(pd[i], pv[i].0) && pd[i].len() == dim) && pv[i].1.len() == dim }
// the history invariant of the multistep solvers (o = O, ym = yield_memory, sl = length of save_state, imp = implicit_derivs)
#[verifier::opaque]
pub open spec fn hist(o: int, wd: bool, dt: real, dtm: real, ym: int, time: real, end: real, pv: Seq<(real, Seq<real>)>, pd: Seq<Seq<real>>, sl: nat, state: Seq<real>, imp: Seq<real>) -> bool {
    let n = pv.len() as int;
    &&& dt > 0real && dt <= dtm && 0 <= ym <= o + 1
    // once the end is reached nothing is required any more -- except that no start-up points are still waiting to be yielded
    &&& (time >= end && (ym == 0 || (ym == o && n != o - 1))) || {
        &&& pd.len() == n && (n == 0 || n == o - 1) && (ym != 0 && ym != o ==> n == o - 1)
        &&& (ym == o ==> sl == state.len())
        // start-up points that wait for their validating multistep step: that step fits before the end
        &&& (ym == o && n > 0 ==> time + dt < end)
        &&& forall|i: int| 0 <= i < n - 1 ==> #[trigger] spaced(pv, i, dt)
        &&& forall|i: int| 0 <= i < n ==> #[trigger] entry_ok(pv, pd, i, state.len(), wd)
        &&& n > 0 ==> if ym == 0 || ym == o { pv[n - 1] == (time, state) }
                      else { pv[n - 1].0 + dt == time && (wd ==> deriv_at(imp, time) && imp.len() == state.len()) }
    }
}
// the end time has been reached: nothing is required of the history any more
pub proof fn lemma_hist_done(o: int, wd: bool, dt: real, dtm: real, ym: int, time: real, end: real, pv: Seq<(real, Seq<real>)>, pd: Seq<Seq<real>>, sl: nat, state: Seq<real>, imp: Seq<real>)
    requires dt > 0real, dt <= dtm, ym == 0 || (ym == o && pv.len() != o - 1), o >= 3, time >= end
    ensures hist(o, wd, dt, dtm, ym, time, end, pv, pd, sl, state, imp)
{ reveal(hist); }
pub proof fn lemma_hist_empty(o: int, wd: bool, dt: real, dtm: real, ym: int, time: real, end: real, pv: Seq<(real, Seq<real>)>, pd: Seq<Seq<real>>, sl: nat, state: Seq<real>, imp: Seq<real>)
    requires dt > 0real, dt <= dtm, ym == 0 || (ym == o && sl == state.len()), o >= 3, pv.len() == 0, pd.len() == 0
    ensures hist(o, wd, dt, dtm, ym, time, end, pv, pd, sl, state, imp)
{ reveal(hist); }
// what a history that is in use provides
pub proof fn lemma_hist_use(o: int, wd: bool, dt: real, dtm: real, ym: int, time: real, end: real, pv: Seq<(real, Seq<real>)>, pd: Seq<Seq<real>>, sl: nat, state: Seq<real>, imp: Seq<real>)
    requires hist(o, wd, dt, dtm, ym, time, end, pv, pd, sl, state, imp), !(time >= end && (ym == 0 || ym == o))
    ensures dt > 0real, dt <= dtm, 0 <= ym <= o + 1, pd.len() == pv.len(), pv.len() == 0 || pv.len() == o - 1, ym != 0 && ym != o ==> pv.len() == o - 1,
        ym == o ==> sl == state.len(), ym == o && pv.len() > 0 ==> time + dt < end,
        forall|i: int| 0 <= i < pv.len() - 1 ==> #[trigger] spaced(pv, i, dt),
        forall|i: int| 0 <= i < pv.len() ==> #[trigger] entry_ok(pv, pd, i, state.len(), wd),
        pv.len() > 0 && (ym == 0 || ym == o) ==> pv[pv.len() - 1] == (time, state),
        pv.len() > 0 && !(ym == 0 || ym == o) ==> pv[pv.len() - 1].0 + dt == time && (wd ==> deriv_at(imp, time) && imp.len() == state.len()),
{ reveal(hist); }
pub proof fn lemma_hist_basic(o: int, wd: bool, dt: real, dtm: real, ym: int, time: real, end: real, pv: Seq<(real, Seq<real>)>, pd: Seq<Seq<real>>, sl: nat, state: Seq<real>, imp: Seq<real>)
    requires hist(o, wd, dt, dtm, ym, time, end, pv, pd, sl, state, imp), o >= 3
    ensures dt > 0real, dt <= dtm, 0 <= ym <= o + 1,
        // C01: start-up points that still wait to be yielded are never abandoned: their validating step fits before the end
        ym == o && pv.len() == o - 1 ==> time + dt < end
{ reveal(hist); }
// building a history that is in use
pub proof fn lemma_hist_intro(o: int, wd: bool, dt: real, dtm: real, ym: int, time: real, end: real, pv: Seq<(real, Seq<real>)>, pd: Seq<Seq<real>>, sl: nat, state: Seq<real>, imp: Seq<real>)
    requires dt > 0real, dt <= dtm, 0 <= ym <= o + 1, pd.len() == pv.len(), pv.len() == o - 1, o >= 3,
        ym == o ==> sl == state.len() && time + dt < end,
        forall|i: int| 0 <= i < pv.len() - 1 ==> #[trigger] spaced(pv, i, dt),
        forall|i: int| 0 <= i < pv.len() ==> #[trigger] entry_ok(pv, pd, i, state.len(), wd),
        (ym == 0 || ym == o) ==> pv[pv.len() - 1] == (time, state),
        !(ym == 0 || ym == o) ==> pv[pv.len() - 1].0 + dt == time && (wd ==> deriv_at(imp, time) && imp.len() == state.len()),
    ensures hist(o, wd, dt, dtm, ym, time, end, pv, pd, sl, state, imp)
{ reveal(hist); }
// yielding a start-up point only moves the counter
pub proof fn lemma_hist_yield(o: int, wd: bool, dt: real, dtm: real, ym: int, ym2: int, time: real, end: real, pv: Seq<(real, Seq<real>)>, pd: Seq<Seq<real>>, sl: nat, state: Seq<real>, imp: Seq<real>)
    requires hist(o, wd, dt, dtm, ym, time, end, pv, pd, sl, state, imp), 0 < ym < o, ym2 == (if ym - 1 == 0 { o + 1 } else { ym - 1 }), o >= 3
    ensures hist(o, wd, dt, dtm, ym2, time, end, pv, pd, sl, state, imp), pv.len() == o - 1
{ reveal(hist); }
// handing over the first multistep point: it and its derivative enter the history together, the oldest entries leave
pub proof fn lemma_hist_handover(o: int, wd: bool, dt: real, dtm: real, time: real, end: real, pv: Seq<(real, Seq<real>)>, pd: Seq<Seq<real>>, sl: nat, state: Seq<real>, imp: Seq<real>)
    requires hist(o, wd, dt, dtm, o + 1, time, end, pv, pd, sl, state, imp), o >= 3
    ensures hist(o, wd, dt, dtm, 0, time, end, pv.push((time, state)).drop_first(), pd.push(imp).drop_first(), sl, state, imp)
{
    reveal(hist);
    let pv2 = pv.push((time, state)).drop_first(); let pd2 = pd.push(imp).drop_first(); let n = pv.len() as int;
    assert forall|i: int| 0 <= i < n - 1 implies #[trigger] spaced(pv2, i, dt) by {
        if i + 1 < n - 1 { assert(spaced(pv, i + 1, dt)); }
    }
    assert forall|i: int| 0 <= i < n implies #[trigger] entry_ok(pv2, pd2, i, state.len(), wd) by {
        if i < n - 1 { assert(entry_ok(pv, pd, i + 1, state.len(), wd)); }
    }
}
// an accepted multistep point (time2, state2) with derivative imp2 = f(time2, .) enters the history, the oldest entry leaves
pub proof fn lemma_hist_shift(o: int, wd: bool, dt: real, dtm: real, time: real, end: real, pv: Seq<(real, Seq<real>)>, pd: Seq<Seq<real>>, sl: nat, state: Seq<real>, imp: Seq<real>,
                              time2: real, state2: Seq<real>, imp2: Seq<real>)
    requires hist(o, wd, dt, dtm, 0, time, end, pv, pd, sl, state, imp), time < end, pv.len() > 0, o >= 3,
        time2 == time + dt, state2.len() == state.len(), wd ==> imp2.len() == state.len() && deriv_at(imp2, time2)
    ensures hist(o, wd, dt, dtm, 0, time2, end, pv.push((time2, state2)).drop_first(), pd.push(imp2).drop_first(), sl, state2, imp2)
{
    reveal(hist);
    let pv2 = pv.push((time2, state2)).drop_first(); let pd2 = pd.push(imp2).drop_first(); let n = pv.len() as int;
    assert forall|i: int| 0 <= i < n - 1 implies #[trigger] spaced(pv2, i, dt) by {
        if i + 1 < n - 1 { assert(spaced(pv, i + 1, dt)); }
    }
    assert forall|i: int| 0 <= i < n implies #[trigger] entry_ok(pv2, pd2, i, state2.len(), wd) by {
        if i < n - 1 { assert(entry_ok(pv, pd, i + 1, state.len(), wd)); }
    }
}
// an accepted multistep point right after start-up is kept aside (yield_memory O -> O - 1) until the start-up points are yielded
pub proof fn lemma_hist_aside(o: int, wd: bool, dt: real, dtm: real, time: real, end: real, pv: Seq<(real, Seq<real>)>, pd: Seq<Seq<real>>, sl: nat, state: Seq<real>, imp: Seq<real>,
                              time2: real, state2: Seq<real>, imp2: Seq<real>)
    requires hist(o, wd, dt, dtm, o, time, end, pv, pd, sl, state, imp), time < end, pv.len() > 0, o >= 3,
        time2 == time + dt, state2.len() == state.len(), wd ==> imp2.len() == state.len() && deriv_at(imp2, time2)
    ensures hist(o, wd, dt, dtm, o - 1, time2, end, pv, pd, sl, state2, imp2)
{ reveal(hist); assert forall|i: int| 0 <= i < pv.len() implies #[trigger] entry_ok(pv, pd, i, state2.len(), wd) by { assert(entry_ok(pv, pd, i, state.len(), wd)); } }

// ---- C01 for the multistep solvers: the "yield clock" -- the time of the last point handed to the iterator, read off the
//      solver's fields (the solver's own `time` runs ahead of it while start-up points are held back) ----
#[verifier::opaque]
pub open spec fn yclock(o: int, dt: real, ym: int, time: real, pv: Seq<(real, Seq<real>)>) -> real {
    let n = pv.len() as int;
    if ym == o && n == o - 1 { pv[0].0 - dt }                                              // start-up taken, nothing of it yielded yet
    else if 0 < ym < o { let g = o - ym - 1; if g == 0 { pv[0].0 - dt } else { pv[g - 1].0 } }     // g start-up points yielded so far
    else if ym == o + 1 { pv[o - 2].0 }                                                      // all start-up points yielded
    else { time }
}
pub proof fn lemma_spaced_sum(pv: Seq<(real, Seq<real>)>, dt: real, i: int)
    requires forall|j: int| 0 <= j < pv.len() - 1 ==> #[trigger] spaced(pv, j, dt), 0 <= i < pv.len()
    ensures pv[i].0 == pv[0].0 + (i as real) * dt
    decreases i
{
    if i > 0 { lemma_spaced_sum(pv, dt, i - 1); assert(spaced(pv, i - 1, dt)); assert((i as real) * dt == ((i - 1) as real) * dt + dt) by(nonlinear_arith); }
    else { assert((i as real) * dt == 0real) by(nonlinear_arith) requires i == 0; }
}
// the value of the yield clock, regime by regime (yclock is opaque: the step functions only use these four facts)
pub proof fn lemma_yc_time(o: int, dt: real, ym: int, time: real, pv: Seq<(real, Seq<real>)>)
    requires !(ym == o && pv.len() == o - 1), !(0 < ym < o), ym != o + 1 ensures yclock(o, dt, ym, time, pv) == time { reveal(yclock); }
pub proof fn lemma_yc_pending(o: int, dt: real, ym: int, time: real, pv: Seq<(real, Seq<real>)>)
    requires ym == o, pv.len() == o - 1, o >= 3 ensures yclock(o, dt, ym, time, pv) == pv[0].0 - dt { reveal(yclock); }
pub proof fn lemma_yc_yield(o: int, dt: real, ym: int, time: real, pv: Seq<(real, Seq<real>)>)
    requires 0 < ym < o ensures yclock(o, dt, ym, time, pv) == (if o - ym - 1 == 0 { pv[0].0 - dt } else { pv[o - ym - 2].0 }) { reveal(yclock); }
pub proof fn lemma_yc_handover(o: int, dt: real, ym: int, time: real, pv: Seq<(real, Seq<real>)>)
    requires ym == o + 1, o >= 3 ensures yclock(o, dt, ym, time, pv) == pv[o - 2].0 { reveal(yclock); }
// the yield clock never runs ahead of the solver's time, and what it is in each regime
pub proof fn lemma_yclock(o: int, wd: bool, dt: real, dtm: real, ym: int, time: real, end: real, pv: Seq<(real, Seq<real>)>, pd: Seq<Seq<real>>, sl: nat, state: Seq<real>, imp: Seq<real>)
    requires hist(o, wd, dt, dtm, ym, time, end, pv, pd, sl, state, imp), o >= 3
    ensures yclock(o, dt, ym, time, pv) <= time,
        ym == o && pv.len() == o - 1 ==> time == pv[0].0 + ((o - 2) as real) * dt,
        ym == o + 1 ==> pv.len() == o - 1 && pv[o - 2].0 + dt == time,
        0 < ym < o ==> pv.len() == o - 1 && forall|j: int| 0 <= j < o - 2 ==> #[trigger] spaced(pv, j, dt),
{
    reveal(hist); reveal(yclock);
    let n = pv.len() as int;
    if !(time >= end && (ym == 0 || (ym == o && n != o - 1))) && n > 0 {
        lemma_spaced_sum(pv, dt, n - 1);
        assert(((n - 1) as real) * dt >= 0real) by(nonlinear_arith) requires n >= 1, dt > 0real;
        if 0 < ym < o {
            let g = o - ym - 1;
            if g >= 1 { lemma_spaced_sum(pv, dt, g - 1); assert(((g - 1) as real) * dt <= ((n - 1) as real) * dt) by(nonlinear_arith) requires g - 1 <= n - 1, dt > 0real; }
        }
    }
}
'''


# ---- C01: what one call of step() does to the solver's clock, and the whole-history lemma over that contract ------
TRACE_SPEC = r'''
// the clock contract of a single-step solver (Euler, Runge-Kutta): `t0 -> t1` is what the call did to the solver's time
pub open spec fn clock_rel(t0: real, end: real, t1: real, r: Result<(R, V), IVPStatus<IVPError>>) -> bool {
    &&& t0 <= end ==> t1 <= end
    &&& match r {
        Ok(p) => t0 < t1,
        Err(IVPStatus::Done) => t0 >= end && t1 == t0,
        Err(IVPStatus::Redo) => t1 == t0,
        Err(IVPStatus::Failure(_)) => true,
    }
}
// a history of step() calls: ts[i] -> ts[i + 1] with result rs[i]
pub open spec fn clock_history(ts: Seq<real>, rs: Seq<Result<(R, V), IVPStatus<IVPError>>>, end: real) -> bool {
    ts.len() == rs.len() + 1 && forall|i: int| #![trigger rs[i]] 0 <= i < rs.len() ==> clock_rel(ts[i], end, ts[i + 1], rs[i])
}
// between a point and a later one with no accepted step in between the clock stands still
pub proof fn lemma_clock_still(ts: Seq<real>, rs: Seq<Result<(R, V), IVPStatus<IVPError>>>, end: real, a: int, b: int)
    requires clock_history(ts, rs, end), 0 <= a <= b <= rs.len(),
        forall|i: int| a <= i < b ==> !(#[trigger] rs[i] is Ok) && !(rs[i] is Err && rs[i]->Err_0 is Failure)
    ensures ts[b] == ts[a]
    decreases b - a
{
    if a < b { assert(clock_rel(ts[b - 1], end, ts[b], rs[b - 1])); lemma_clock_still(ts, rs, end, a, b - 1); }
}
// C01: a solve that starts before the end, never fails and is answered Done has accepted at least one step, and after its LAST
// accepted step the clock reads exactly the end time (for Runge-Kutta the yielded time is that clock value)
pub proof fn lemma_reaches_end(ts: Seq<real>, rs: Seq<Result<(R, V), IVPStatus<IVPError>>>, end: real, k: int)
    requires clock_history(ts, rs, end), 0 <= k < rs.len(), rs[k] is Err && rs[k]->Err_0 is Done, ts[0] < end,
        forall|i: int| 0 <= i < k ==> !(#[trigger] rs[i] is Err && rs[i]->Err_0 is Failure)
    ensures exists|j: int| 0 <= j < k && #[trigger] rs[j] is Ok && ts[j + 1] == end && forall|i: int| j < i < k ==> !(#[trigger] rs[i] is Ok)
{
    assert(clock_rel(ts[k], end, ts[k + 1], rs[k]));
    lemma_last_ok(ts, rs, end, k, k);
}
pub proof fn lemma_times_bounded(ts: Seq<real>, rs: Seq<Result<(R, V), IVPStatus<IVPError>>>, end: real, n: int)
    requires clock_history(ts, rs, end), 0 <= n <= rs.len(), ts[0] <= end
    ensures ts[n] <= end
    decreases n
{ if n > 0 { lemma_times_bounded(ts, rs, end, n - 1); assert(clock_rel(ts[n - 1], end, ts[n], rs[n - 1])); } }
pub proof fn lemma_last_ok(ts: Seq<real>, rs: Seq<Result<(R, V), IVPStatus<IVPError>>>, end: real, k: int, m: int)
    requires clock_history(ts, rs, end), 0 <= m <= k < rs.len(), ts[k] >= end, ts[0] < end,
        forall|i: int| 0 <= i < k ==> !(#[trigger] rs[i] is Err && rs[i]->Err_0 is Failure),
        forall|i: int| m <= i < k ==> !(#[trigger] rs[i] is Ok)
    ensures exists|j: int| 0 <= j < k && #[trigger] rs[j] is Ok && ts[j + 1] == end && forall|i: int| j < i < k ==> !(#[trigger] rs[i] is Ok)
    decreases m
{
    if m == 0 { lemma_clock_still(ts, rs, end, 0, k); assert(false); }
    else if rs[m - 1] is Ok {
        lemma_clock_still(ts, rs, end, m, k);
        lemma_times_bounded(ts, rs, end, m);
        assert(ts[m] == end);
        assert(rs[m - 1] is Ok && ts[(m - 1) + 1] == end);
    } else { lemma_last_ok(ts, rs, end, k, m - 1); }
}
'''


# ---- C01 for the multistep solvers: a summary of what one call of step() does, and the clock lemma over it -------------------
MSTEP_SPEC = r'''
// what one call of a multistep step() did to (dt, yield_memory, time, history): (dt0, ym0, t0, pv0) -> (dt1, ym1, t1, pv1), result r
// (o = O for Adams, O + 1 for BDF; both rewind by (o - 1) dt after a rejected start-up)
pub open spec fn mtrans(o: int, dt0: real, ym0: int, t0: real, end: real, pv0: Seq<(real, Seq<real>)>,
                        dt1: real, ym1: int, t1: real, pv1: Seq<(real, Seq<real>)>, r: Result<(R, V), IVPStatus<IVPError>>) -> bool {
    &&& (0 < ym0 < o ==> r is Ok && pv1 == pv0 && ym1 == (if ym0 - 1 == 0 { o + 1 } else { ym0 - 1 }) && t1 == t0 && dt1 == dt0 && r->Ok_0.0@ == pv0[o - ym0 - 1].0)
    &&& (ym0 == o + 1 ==> r is Ok && ym1 == 0 && t1 == t0 && r->Ok_0.0@ == t0)
    &&& ((ym0 == 0 || ym0 == o) ==> match r {
            Err(IVPStatus::Done) => t0 >= end && t1 == t0 && ym1 == ym0 && pv1 == pv0 && dt1 == dt0,
            Err(IVPStatus::Failure(_)) => true,
            Ok(p) => t0 < end && (t0 + dt0 >= end ==> ym1 == ym0 && t1 == end && p.0@ == end && pv1.len() == pv0.len() + 1)
                          && (t0 + dt0 < end ==> (pv0.len() == 0 || ym0 == 0) && ym1 == 0 && t1 == t0 + dt0 && p.0@ == t1),
            Err(IVPStatus::Redo) => t0 + dt0 < end && (
                   (pv0.len() == 0 && ym1 == o && pv1.len() == o - 1 && dt1 == dt0 && pv1[0].0 == t0 + dt0)                 // start-up taken
                || (pv0.len() > 0 && ym0 == o && ym1 == o - 1 && pv1 == pv0 && dt1 == dt0)                                      // accepted, kept aside
                || (pv0.len() > 0 && pv1.len() == 0 && ym1 == ym0 && (ym0 == 0 ==> t1 == t0) && (ym0 == o ==> t1 == t0 - dt0 * ((o - 1) as real)))),  // rejected
        })
}
// C01: from the summary of a call and the history invariant before and after it, the yield clock obeys the clock contract of
// lemma_reaches_end; every yielded point IS the new clock value, strictly later than the previous one and within dt_max of it
pub proof fn lemma_mclock(o: int, wd: bool, dtm: real, end: real,
        dt0: real, ym0: int, t0: real, pv0: Seq<(real, Seq<real>)>, pd0: Seq<Seq<real>>, sl0: nat, st0: Seq<real>, imp0: Seq<real>,
        dt1: real, ym1: int, t1: real, pv1: Seq<(real, Seq<real>)>, pd1: Seq<Seq<real>>, sl1: nat, st1: Seq<real>, imp1: Seq<real>,
        r: Result<(R, V), IVPStatus<IVPError>>)
    requires o >= 3, t0 <= end,
        hist(o, wd, dt0, dtm, ym0, t0, end, pv0, pd0, sl0, st0, imp0),
        mtrans(o, dt0, ym0, t0, end, pv0, dt1, ym1, t1, pv1, r),
        !(r is Err && r->Err_0 is Failure) ==> hist(o, wd, dt1, dtm, ym1, t1, end, pv1, pd1, sl1, st1, imp1) && t1 <= end,
    ensures
        (r is Err && r->Err_0 is Failure) || clock_rel(yclock(o, dt0, ym0, t0, pv0), end, yclock(o, dt1, ym1, t1, pv1), r),
        r is Ok ==> r->Ok_0.0@ == yclock(o, dt1, ym1, t1, pv1) && r->Ok_0.0@ - yclock(o, dt0, ym0, t0, pv0) <= dtm,
{
    if r is Err && r->Err_0 is Failure { return; }
    lemma_hist_basic(o, wd, dt0, dtm, ym0, t0, end, pv0, pd0, sl0, st0, imp0);
    lemma_yclock(o, wd, dt0, dtm, ym0, t0, end, pv0, pd0, sl0, st0, imp0);
    lemma_yclock(o, wd, dt1, dtm, ym1, t1, end, pv1, pd1, sl1, st1, imp1);
    lemma_hist_basic(o, wd, dt1, dtm, ym1, t1, end, pv1, pd1, sl1, st1, imp1);
    if 0 < ym0 < o {
        // a start-up point is handed out: the clock moves from the previous one (or from the start-up's origin) to it
        let g = o - ym0 - 1;
        lemma_yc_yield(o, dt0, ym0, t0, pv0);
        if g >= 1 { assert(spaced(pv0, g - 1, dt0)); }
        if ym1 == o + 1 { lemma_yc_handover(o, dt1, ym1, t1, pv1); } else { lemma_yc_yield(o, dt1, ym1, t1, pv1); }
    } else if ym0 == o + 1 {
        // the multistep point kept aside is handed out
        lemma_yc_handover(o, dt0, ym0, t0, pv0);
        lemma_yc_time(o, dt1, ym1, t1, pv1);
    } else if r is Err && r->Err_0 is Done {
        if ym0 == o && pv0.len() == o - 1 { assert(false); }       // waiting start-up points: their validating step fits before the end
        lemma_yc_time(o, dt0, ym0, t0, pv0);
    } else {
        // a step was attempted: the end was not reached before it, the history invariant is in force
        lemma_hist_use(o, wd, dt0, dtm, ym0, t0, end, pv0, pd0, sl0, st0, imp0);
        let pending = ym0 == o && pv0.len() == o - 1;
        if pending { lemma_yc_pending(o, dt0, ym0, t0, pv0); } else { lemma_yc_time(o, dt0, ym0, t0, pv0); }
        match r {
            Ok(p) => {
                // a clipped final step or an accepted one: no start-up points were waiting, the clock is the solver's time
                assert(!pending);
                assert(!(ym1 == o && pv1.len() == o - 1));
                lemma_yc_time(o, dt1, ym1, t1, pv1);
            }
            Err(IVPStatus::Redo) => {
                if pv0.len() == 0 { lemma_yc_pending(o, dt1, ym1, t1, pv1); }                      // start-up taken: clock stays at its origin
                else if ym0 == o && ym1 == o - 1 { lemma_yc_yield(o, dt1, ym1, t1, pv1); }         // validated: clock still at the origin
                else {
                    // rejected: the solver's time is wound back to the start-up's origin, where the clock has been all along
                    lemma_yc_time(o, dt1, ym1, t1, pv1);
                    if ym0 == o { assert(dt0 * ((o - 1) as real) == ((o - 2) as real) * dt0 + dt0) by(nonlinear_arith); }
                }
            }
            _ => {}
        }
    }
}

// ---- whole histories of step() calls on a multistep solver ----
pub struct MS { pub dt: real, pub ym: int, pub t: real, pub pv: Seq<(real, Seq<real>)>, pub pd: Seq<Seq<real>>, pub sl: nat, pub st: Seq<real>, pub imp: Seq<real> }
pub open spec fn ms_inv(o: int, wd: bool, dtm: real, end: real, s: MS) -> bool { hist(o, wd, s.dt, dtm, s.ym, s.t, end, s.pv, s.pd, s.sl, s.st, s.imp) && s.t <= end }
pub open spec fn ms_clock(o: int, s: MS) -> real { yclock(o, s.dt, s.ym, s.t, s.pv) }
// ss[i] -> ss[i + 1] with result rs[i]: every call obeys the step() contract (transition summary; invariant kept unless it failed)
pub open spec fn ms_history(o: int, wd: bool, dtm: real, end: real, ss: Seq<MS>, rs: Seq<Result<(R, V), IVPStatus<IVPError>>>) -> bool {
    ss.len() == rs.len() + 1 && ms_inv(o, wd, dtm, end, ss[0]) && forall|i: int| #![trigger rs[i]] 0 <= i < rs.len() ==>
        mtrans(o, ss[i].dt, ss[i].ym, ss[i].t, end, ss[i].pv, ss[i + 1].dt, ss[i + 1].ym, ss[i + 1].t, ss[i + 1].pv, rs[i])
        && (!(rs[i] is Err && rs[i]->Err_0 is Failure) ==> ms_inv(o, wd, dtm, end, ss[i + 1]))
}
pub proof fn lemma_ms_inv(o: int, wd: bool, dtm: real, end: real, ss: Seq<MS>, rs: Seq<Result<(R, V), IVPStatus<IVPError>>>, n: int)
    requires ms_history(o, wd, dtm, end, ss, rs), 0 <= n <= rs.len(), forall|i: int| 0 <= i < n ==> !(#[trigger] rs[i] is Err && rs[i]->Err_0 is Failure)
    ensures ms_inv(o, wd, dtm, end, ss[n])
    decreases n
{ if n > 0 { lemma_ms_inv(o, wd, dtm, end, ss, rs, n - 1); assert(!(rs[n - 1] is Err && rs[n - 1]->Err_0 is Failure)); } }
// C01 for Adams and BDF: a solve that starts before the end, never fails and is answered Done at call k has yielded at least one
// point, the LAST point it yielded is exactly the end time, and every yielded point lies within dt_max after the previous one
pub proof fn lemma_mreaches_end(o: int, wd: bool, dtm: real, end: real, ss: Seq<MS>, rs: Seq<Result<(R, V), IVPStatus<IVPError>>>, k: int)
    requires o >= 3, ms_history(o, wd, dtm, end, ss, rs), 0 <= k < rs.len(), rs[k] is Err && rs[k]->Err_0 is Done, ms_clock(o, ss[0]) < end,
        forall|i: int| 0 <= i < k ==> !(#[trigger] rs[i] is Err && rs[i]->Err_0 is Failure)
    ensures
        exists|j: int| 0 <= j < k && #[trigger] rs[j] is Ok && rs[j]->Ok_0.0@ == end && forall|i: int| j < i < k ==> !(#[trigger] rs[i] is Ok),
        forall|i: int| 0 <= i < k && #[trigger] rs[i] is Ok ==> ms_clock(o, ss[i]) < rs[i]->Ok_0.0@ <= end && rs[i]->Ok_0.0@ - ms_clock(o, ss[i]) <= dtm && rs[i]->Ok_0.0@ == ms_clock(o, ss[i + 1]),
{
    let ts = Seq::new((k + 2) as nat, |i: int| ms_clock(o, ss[i]));
    let rp = rs.subrange(0, k + 1);
    assert forall|i: int| #![trigger rp[i]] 0 <= i < rp.len() implies clock_rel(ts[i], end, ts[i + 1], rp[i]) && (rp[i] is Ok ==> rp[i]->Ok_0.0@ == ts[i + 1] && ts[i + 1] <= end && rp[i]->Ok_0.0@ - ts[i] <= dtm) by {
        lemma_ms_inv(o, wd, dtm, end, ss, rs, i);
        assert(rp[i] == rs[i]);
        assert(!(rs[i] is Err && rs[i]->Err_0 is Failure));
        let a = ss[i]; let b = ss[i + 1];
        lemma_mclock(o, wd, dtm, end, a.dt, a.ym, a.t, a.pv, a.pd, a.sl, a.st, a.imp, b.dt, b.ym, b.t, b.pv, b.pd, b.sl, b.st, b.imp, rs[i]);
        lemma_yclock(o, wd, b.dt, dtm, b.ym, b.t, end, b.pv, b.pd, b.sl, b.st, b.imp);
    }
    assert(clock_history(ts, rp, end));
    lemma_reaches_end(ts, rp, end, k);
    let j = choose|j: int| 0 <= j < k && #[trigger] rp[j] is Ok && ts[j + 1] == end && forall|i: int| j < i < k ==> !(#[trigger] rp[i] is Ok);
    assert(rp[j] == rs[j]);
    assert forall|i: int| j < i < k implies !(#[trigger] rs[i] is Ok) by { assert(rp[i] == rs[i]); }
    assert(rs[j] is Ok && rs[j]->Ok_0.0@ == end);
    assert forall|i: int| 0 <= i < k && #[trigger] rs[i] is Ok implies ms_clock(o, ss[i]) < rs[i]->Ok_0.0@ <= end && rs[i]->Ok_0.0@ - ms_clock(o, ss[i]) <= dtm && rs[i]->Ok_0.0@ == ms_clock(o, ss[i + 1]) by {
        assert(rp[i] == rs[i]); assert(clock_rel(ts[i], end, ts[i + 1], rp[i]));
    }
}
'''
