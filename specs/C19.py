"""C19 -- finite-difference derivatives (src/differentiate/mod.rs).

Verus proves  code => stencil formula  (for every callback F, x, h != 0);
stand-alone NRA lemmas prove  stencil formula => property  (exactness, linearity, leading error term)."""
from vx.unit import Unit
from vx import nra

ST5 = nra.Def("stencil5", ["x", "h"], "(F(x - 2*h) + 8*(F(x + h) - F(x - h)) - F(x + 2*h)) / (12*h)")
ST3 = nra.Def("stencil3", ["x", "h"], "(F(x - h) - 2*F(x) + F(x + h)) / (h*h)")


def units(ctx):
    u = Unit("C19", "differentiate")
    u.spec("pub uninterp spec fn F(t: real) -> real;\n" + ST5.verus() + ST3.verus())
    cb = ["forall|t: R| f.requires((t,))",
          "forall|t: R, y: R| f.ensures((t,), y) ==> y@ == F(t@)"]
    f = u.fn("src/differentiate/mod.rs", "derivative")
    f.req(*cb, "h@ != 0real")
    f.ens("res@ == stencil5(x@, h@)")
    g = u.fn("src/differentiate/mod.rs", "second_derivative")
    g.req(*cb, "h@ != 0real")
    g.ens("res@ == stencil3(x@, h@)")
    g.hint("begin", "proof { assert(rpowi(h@, 2) == h@ * h@) by { reveal_with_fuel(rpowi, 3); } "
                    "assert(h@ * h@ != 0real) by(nonlinear_arith) requires h@ != 0real; }")
    return [u]


def lemmas():
    P5 = nra.Def("F", ["t"], "a0 + a1*t + a2*t**2 + a3*t**3 + a4*t**4 + a5*t**5")
    co = ["a0", "a1", "a2", "a3", "a4", "a5"]
    L = []
    L.append(nra.Lemma("d1_exact_quartic", co + ["x", "h"], ["h != 0", "a5 == 0"],
                       "stencil5(x, h) == a1 + 2*a2*x + 3*a3*x**2 + 4*a4*x**3", defs=[P5, ST5],
                       note="five-point stencil is exact on every polynomial of degree <= 4"))
    L.append(nra.Lemma("d1_leading_error_quintic", co + ["x", "h"], ["h != 0"],
                       "stencil5(x, h) - (a1 + 2*a2*x + 3*a3*x**2 + 4*a4*x**3 + 5*a5*x**4) == -4*a5*h**4", defs=[P5, ST5],
                       note="on degree 5 the error is exactly -h^4 f^(5)/30 = -4 a5 h^4"))
    L.append(nra.Lemma("d2_exact_cubic", co + ["x", "h"], ["h != 0", "a5 == 0", "a4 == 0"],
                       "stencil3(x, h) == 2*a2 + 6*a3*x", defs=[P5, ST3],
                       note="three-point stencil is exact on every polynomial of degree <= 3"))
    L.append(nra.Lemma("d2_leading_error_quartic", co + ["x", "h"], ["h != 0", "a5 == 0"],
                       "stencil3(x, h) - (2*a2 + 6*a3*x + 12*a4*x**2) == 2*a4*h**2", defs=[P5, ST3],
                       note="on degree 4 the error is exactly h^2 f^(4)/12 = 2 a4 h^2"))
    LIN = nra.Def("F", ["t"], "al*G(t) + be*H(t)")
    for nm, st, d in (("d1", ST5, "stencil5"), ("d2", ST3, "stencil3")):
        sg = nra.Def(d + "G", ["x", "h"], st.expr.replace("F(", "G("))
        sh = nra.Def(d + "H", ["x", "h"], st.expr.replace("F(", "H("))
        L.append(nra.Lemma(nm + "_linear", ["al", "be", "x", "h"], ["h != 0"],
                           f"{d}(x, h) == al*{d}G(x, h) + be*{d}H(x, h)", defs=[LIN, st, sg, sh],
                           uninterp=[("G", 1), ("H", 1)], note="the formula is linear in the function"))
    return L


def extra_obligations(ctx):
    return nra.run_lemmas("C19", "differentiate", lemmas(), ctx)


DECIDED = ["derivative(f,x,h) equals the five-point stencil (1,-8,0,8,-1)/12h of f for every f, x and h != 0",
           "second_derivative(f,x,h) equals the three-point stencil (1,-2,1)/h^2",
           "both exact on polynomials of degree <= 4 / <= 3 at every point and step", "both linear in the function",
           "leading error term on degree 5 / 4 equals the classical remainder coefficient"]
NOT_DECIDED = ["rounding term eps*|f|/h (arithmetic is exact reals)",
               "remainder bound h^4 max|f^(5)|/30 for general smooth f (Taylor's theorem, not a contract on this code)",
               "complex-valued instantiation"]
ASSUMPTIONS = ["the callback is a pure function of its argument (modelled by an uninterpreted spec function F)"]
