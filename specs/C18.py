"""C18 -- orthogonal polynomial constructors (src/special/polynomial/mod.rs)."""
from vx.unit import Unit
from vx.rules import COPIED
from specs_polycommon import *

SFILE = "src/special/polynomial/mod.rs"


def units(ctx):
    u = Unit("C18", "special", preludes=("real", "stdx"), cfg=cfg())
    all_ops(u, mul_tolerance=True)
    # every inherent Polynomial method the constructors could reach, under its C13 contract
    u.spec(HSD_SPEC)
    add_basic(u, names=("new", "from_slice", "set_tolerance_placeholder", "purge_leading", "order", "get_coefficient", "set_coefficient", "purge_coefficient"))
    im = u.impl(PFILE, "Polynomial<N>", header="impl Polynomial")
    f = im.fn("set_tolerance")
    f.ens("tolerance@ < 0real ==> res is Err", "res is Ok ==> final(self).tolerance == tolerance && final(self).coefficients == old(self).coefficients",
          "tolerance@ > 0real ==> res is Ok")
    u.spec(FAMILY_SPEC)
    recurrence_ctor(u, "hermite", "her_c", p0="h_0", p1="h_1", lin="x_2", scaled="N::from_u32(2 * i).unwrap()")
    recurrence_ctor(u, "chebyshev_second", "chu_c", p0="t_0", p1="t_1", lin="double")
    recurrence_ctor(u, "chebyshev", "cht_c", p0="t_0", p1="t_1", lin="double")
    legendre(u)
    laguerre(u)
    u.spec(LEAD)
    return [u]


def laguerre(u):
    import copy
    u.spec(r"""
// prod_range(lo, hi) = lo (lo+1) ... hi   (1 when hi < lo)
pub open spec fn prod_range(lo: int, hi: int) -> real
    decreases hi - lo + 1
{ if hi < lo { 1real } else { prod_range(lo, hi - 1) * (hi as real) } }
pub proof fn lemma_prod_range_pos(lo: int, hi: int)
    requires lo >= 1
    ensures prod_range(lo, hi) > 0real
    decreases hi - lo + 1
{
    if hi >= lo {
        lemma_prod_range_pos(lo, hi - 1);
        let p = prod_range(lo, hi - 1); let h = hi as real;
        assert(p * h > 0real) by(nonlinear_arith) requires p > 0real, h >= 1real;
    }
}
pub open spec fn lag_sign(k: int) -> real { if k % 2 == 0 { 1real } else { -1real } }
// L_n = sum_k (-1)^k C(n,k)/k! x^k :   c_k * k! * k! == (-1)^k * n (n-1) ... (n-k+1)
pub open spec fn is_laguerre(p: Polynomial, n: nat) -> bool {
    p.coefficients@.len() == n + 1 && forall|k: int| #![trigger p.coefficients@[k]] 0 <= k <= n ==>
        p.coefficients@[k]@ * prod_range(2, k) * prod_range(2, k) == lag_sign(k) * prod_range(n - k + 1, n as int)
}
""")
    # the FromIterator impl of Polynomial, instantiated at I = Vec<R> (what `.collect()` into a Polynomial calls);
    # `Vec::from_iter(vec)` is that vector (trusted std fact, rule R20)
    c2 = copy.copy(u.cfg)
    c2.drop_generics = set(u.cfg.drop_generics) | {"I"}
    c2.type_subst = [(["I"], "Vec<R>")] + u.cfg.type_subst
    im = u.impl(PFILE, "FromIterator<N> for Polynomial<N>", header="impl Polynomial", keep_assoc=False, cfg=c2)
    f = im.fn("from_iter")
    f.rename = "vx_from_vec"
    f.opt(subst=[("Vec::from_iter(iter)", "iter", "R20-vec-from-iter-of-vec")])
    f.ens("res.coefficients@ == iter@", "res.tolerance@ == 1real / 10000000000real")
    f = u.fn(SFILE, "factorial")
    f.req("k < u32::MAX")
    f.ens("res@ == prod_range(2, k as int)")
    f.loop(1, iter="it", invariant=["acc@ == prod_range(2, 2 + it.index@ - 1)"])
    f = u.fn(SFILE, "choose")
    f.rename = "choose_"
    f.req("k <= n", "n < u32::MAX")
    f.ens("res@ * prod_range(2, k as int) == prod_range(n - k + 1, n as int)")
    f.loop(1, iter="it", invariant=["acc@ == prod_range(n - k + 1, n - k + 1 + it.index@ - 1)"])
    f.loop(2, iter="it2", invariant=["acc@ * prod_range(2, 2 + it2.index@ - 1) == prod_range(n - k + 1, n as int)"])
    f.hint("loop 2 begin", "let ghost a0 = acc@; let ghost j = 2 + it2.index@;")
    f.hint("loop 2 end", """proof {
        let p = prod_range(2, j - 1); let jr = j as real;
        assert(prod_range(2, j) == p * jr);
        assert((a0 / jr) * (p * jr) == a0 * p) by(nonlinear_arith) requires jr >= 2real;
    }""")
    f = u.fn(SFILE, "laguerre")
    # R19: vx_c1 = choose(n,k), vx_c2 = factorial(k), vx_c3 = vx_c1 / vx_c2, vx_c4 = the sign
    f.anf("coefficients.push(", "c", bind_operands=True)
    f.req("tol@ > 0real", "n < 0x3fff_ffff")
    f.ens("res is Ok", "is_laguerre(res->Ok_0, n as nat)", "res->Ok_0.tolerance == tol")
    f.opt(subst=[("let mut coefficients =", "let mut coefficients: Vec<R> =", "R10-type-annotation"),
                 ("coefficients.iter().copied().collect()",
                  "Polynomial::vx_from_vec(coefficients.iter().map(|c_: &R| -> (y_: R) ensures y_ == *c_ { *c_ }).collect())", "R5-copied+R20-collect-into-polynomial")])
    f.loop(1, iter="it", invariant=[
        "coefficients@.len() == it.index@",
        "forall|j: int| #![trigger coefficients@[j]] 0 <= j < it.index@ ==> "
        "coefficients@[j]@ * prod_range(2, j) * prod_range(2, j) == lag_sign(j) * prod_range(n - j + 1, n as int)"])
    f.hint("loop 1 end", """proof {
        let kk = k as int; let c = coefficients@[kk]@; let f = prod_range(2, kk); let pr = prod_range(n - kk + 1, n as int);
        lemma_prod_range_pos(2, kk);
        let ch = vx_c1@; let sg = vx_c4@;
        assert(vx_c2@ == f && ch * f == pr && sg == lag_sign(kk));
        assert(c == (ch / f) * sg);
        assert(((ch / f) * sg) * f * f == sg * pr) by(nonlinear_arith) requires ch * f == pr, f > 0real;
    }""")
    return f


def legendre(u):
    f = u.fn(SFILE, "legendre")
    C = "|a: nat, b: int| leg_c(a, b)"
    f.req("tol@ > 0real", "n <= 0x3fff_ffff")
    f.ens("res is Ok", f"is_family(res->Ok_0, n as nat, {C})", "res->Ok_0.tolerance == tol")
    f.loop(1, iter="it", invariant=["n >= 2", "p_1.tolerance == tol", f"is_family(p_1, (it.index@ + 1) as nat, {C})", f"is_family(p_0, it.index@ as nat, {C})"])
    # R19 let-introduction: vx_l1 = the factor (2i+1)x ; vx_b1 = p_0 * i
    f.anf("let mut p_next =", "l", bind_operands=True)
    f.anf("p_next -=", "b", bind_root=True)
    f.hint("loop 1 begin", "let ghost a0 = p_0; let ghost a1 = p_1; let ghost m = (it.index@ + 1) as nat;")
    f.hint("after: let mut p_next =", """let ghost q1 = p_next;
    proof {
        let s = (2 * m + 1) as real;
        assert(vx_l1.coefficients@.len() == 2 && vx_l1.coefficients@[0]@ == 0real && vx_l1.coefficients@[1]@ == s);
        assert(prod_exact(q1.coefficients@, vx_l1.coefficients@, a1.coefficients@));
        assert forall|k: int| coef(q1.coefficients@, k) == coef(a1.coefficients@, k - 1) * s by {
            if a1.coefficients@.len() == 2 {
                assert(coef(q1.coefficients@, k) == coef(vx_l1.coefficients@, k - 1) * a1.coefficients@[1]@ + coef(vx_l1.coefficients@, k) * a1.coefficients@[0]@);
                assert(a1.coefficients@[1]@ == coef(a1.coefficients@, 1) && a1.coefficients@[0]@ == coef(a1.coefficients@, 0));
                assert(leg_c(1, 0) == 0real && leg_c(1, 1) == 1real);
                assert(0real * s == 0real && s * 1real == 1real * s && s * 0real == 0real && 0real * 0real == 0real && 0real * 1real == 0real) by(nonlinear_arith);
            } else {
                assert(coef(q1.coefficients@, k) == coef(a1.coefficients@, k - 1) * vx_l1.coefficients@[1]@ + coef(a1.coefficients@, k) * vx_l1.coefficients@[0]@);
                assert(coef(a1.coefficients@, k) * 0real == 0real) by(nonlinear_arith);
            }
        }
    }""")
    f.hint("after: p_next.set_tolerance(tol)?", "proof { assert(p_next.coefficients == q1.coefficients); }")
    f.hint("after: p_next -=", """let ghost q2 = p_next;
    proof {
        assert forall|k: int| coef(q2.coefficients@, k) == coef(a1.coefficients@, k - 1) * (2 * m + 1) as real - coef(a0.coefficients@, k) * (m as real) by {
            assert(coef(vx_b1.coefficients@, k) == coef(a0.coefficients@, k) * (m as real)) by { if !(0 <= k < a0.coefficients@.len()) { assert(0real * (m as real) == 0real) by(nonlinear_arith); } }
            assert(coef(q2.coefficients@, k) == coef(q1.coefficients@, k) + (-1real) * coef(vx_b1.coefficients@, k));
        }
        assert(q2.coefficients@.len() == m + 2);
    }""")
    f.hint("after: p_next /=", """proof {
        assert forall|k: int| coef(p_next.coefficients@, k) == leg_c(m + 1, k) by {
            let d = (m + 1) as real;
            if 0 <= k < q2.coefficients@.len() { assert(p_next.coefficients@[k]@ == q2.coefficients@[k]@ / d); } else { assert(0real / d == 0real) by(nonlinear_arith) requires d != 0real; }
            assert(coef(p_next.coefficients@, k) == coef(q2.coefficients@, k) / d);
            assert(coef(a1.coefficients@, k - 1) == leg_c(m, k - 1));
            assert(coef(a0.coefficients@, k) == leg_c((m - 1) as nat, k));
        }
    }""")
    return f


LEAD = r'''
// ---- degree exactly n: the leading coefficient c(n, n) is positive and everything above it vanishes

pub proof fn lemma_her_c_zero_above(n: nat, k: int)
    requires k > n
    ensures her_c(n, k) == 0real
    decreases n
{
    if n >= 2 {
        lemma_her_c_zero_above((n - 1) as nat, k - 1);
        lemma_her_c_zero_above((n - 2) as nat, k);
        assert(0real * (2 * (n - 1)) as real == 0real) by(nonlinear_arith);
    }
}

pub proof fn lemma_chu_c_zero_above(n: nat, k: int)
    requires k > n
    ensures chu_c(n, k) == 0real
    decreases n
{
    if n >= 2 {
        lemma_chu_c_zero_above((n - 1) as nat, k - 1);
        lemma_chu_c_zero_above((n - 2) as nat, k);
        
    }
}

pub proof fn lemma_cht_c_zero_above(n: nat, k: int)
    requires k > n
    ensures cht_c(n, k) == 0real
    decreases n
{
    if n >= 2 {
        lemma_cht_c_zero_above((n - 1) as nat, k - 1);
        lemma_cht_c_zero_above((n - 2) as nat, k);
        
    }
}

pub proof fn lemma_leg_c_zero_above(n: nat, k: int)
    requires k > n
    ensures leg_c(n, k) == 0real
    decreases n
{
    if n >= 2 {
        lemma_leg_c_zero_above((n - 1) as nat, k - 1);
        lemma_leg_c_zero_above((n - 2) as nat, k);
        assert(0real * (2 * (n - 1) + 1) as real == 0real && 0real * (n - 1) as real == 0real && (0real - 0real) / (n as real) == 0real) by(nonlinear_arith) requires n >= 2;
    }
}

pub proof fn lemma_her_c_lead(n: nat) ensures her_c(n, n as int) > 0real decreases n
{ if n >= 2 { lemma_her_c_lead((n - 1) as nat); lemma_her_c_zero_above((n - 2) as nat, n as int); assert(0real * (2 * (n - 1)) as real == 0real) by(nonlinear_arith); } }
pub proof fn lemma_chu_c_lead(n: nat) ensures chu_c(n, n as int) > 0real decreases n
{ if n >= 2 { lemma_chu_c_lead((n - 1) as nat); lemma_chu_c_zero_above((n - 2) as nat, n as int); } }
pub proof fn lemma_cht_c_lead(n: nat) ensures cht_c(n, n as int) > 0real decreases n
{ if n >= 2 { lemma_cht_c_lead((n - 1) as nat); lemma_cht_c_zero_above((n - 2) as nat, n as int); } }
pub proof fn lemma_leg_c_lead(n: nat) ensures leg_c(n, n as int) > 0real decreases n
{
    if n >= 2 {
        lemma_leg_c_lead((n - 1) as nat); lemma_leg_c_zero_above((n - 2) as nat, n as int);
        let a = leg_c((n - 1) as nat, n - 1); let s = (2 * (n - 1) + 1) as real; let d = n as real;
        assert(0real * (n - 1) as real == 0real) by(nonlinear_arith);
        assert((a * s - 0real) / d > 0real) by(nonlinear_arith) requires a > 0real, s >= 1real, d >= 1real;
    }
}
'''

FAMILY_SPEC = r"""
pub open spec fn kd(a: int, b: int) -> real { if a == b { 1real } else { 0real } }
// physicists' Hermite:  H_0 = 1, H_1 = 2x, H_{n+1} = 2x H_n - 2n H_{n-1}        (A&S 22.7.13)
pub open spec fn her_c(n: nat, k: int) -> real
    decreases n
{ if n == 0 { kd(k, 0) } else if n == 1 { 2real * kd(k, 1) } else { 2real * her_c((n - 1) as nat, k - 1) - her_c((n - 2) as nat, k) * (2 * (n - 1)) as real } }
// Chebyshev second kind: U_0 = 1, U_1 = 2x, U_{n+1} = 2x U_n - U_{n-1}          (A&S 22.7.5)
pub open spec fn chu_c(n: nat, k: int) -> real
    decreases n
{ if n == 0 { kd(k, 0) } else if n == 1 { 2real * kd(k, 1) } else { 2real * chu_c((n - 1) as nat, k - 1) - chu_c((n - 2) as nat, k) } }
// Chebyshev first kind:  T_0 = 1, T_1 = x,  T_{n+1} = 2x T_n - T_{n-1}          (A&S 22.7.4)
pub open spec fn cht_c(n: nat, k: int) -> real
    decreases n
{ if n == 0 { kd(k, 0) } else if n == 1 { kd(k, 1) } else { 2real * cht_c((n - 1) as nat, k - 1) - cht_c((n - 2) as nat, k) } }
// Legendre: P_0 = 1, P_1 = x, (n+1) P_{n+1} = (2n+1) x P_n - n P_{n-1}           (A&S 22.7.10)
pub open spec fn leg_c(n: nat, k: int) -> real
    decreases n
{ if n == 0 { kd(k, 0) } else if n == 1 { kd(k, 1) }
  else { (leg_c((n - 1) as nat, k - 1) * (2 * (n - 1) + 1) as real - leg_c((n - 2) as nat, k) * (n - 1) as real) / (n as real) } }
// p has exactly the coefficients c(n, .) and n+1 stored coefficients
pub open spec fn is_family(p: Polynomial, n: nat, c: spec_fn(nat, int) -> real) -> bool {
    p.coefficients@.len() == n + 1 && forall|k: int| #![trigger coef(p.coefficients@, k)] coef(p.coefficients@, k) == c(n, k)
}
"""


def recurrence_ctor(u, name, cfn, p0, p1, lin, scaled=None):
    """P_{i+1} = lin * P_i - [P_{i-1} | P_{i-1} * s]   with lin = 2x"""
    f = u.fn(SFILE, name)
    C = f"|a: nat, b: int| {cfn}(a, b)"
    f.req("tol@ > 0real", "n <= 0x3fff_ffff")
    f.ens("res is Ok", f"is_family(res->Ok_0, n as nat, {C})", "res->Ok_0.tolerance == tol")
    f.loop(1, iter="it", invariant=[
        "n >= 2", f"{p1}.tolerance == tol", f"{p0}.tolerance == tol", f"{lin}.tolerance == tol",
        f"is_family({p1}, (it.index@ + 1) as nat, {C})", f"is_family({p0}, it.index@ as nat, {C})",
        f"{lin}.coefficients@.len() == 2 && {lin}.coefficients@[0]@ == 0real && {lin}.coefficients@[1]@ == 2real",
    ])
    # R19 let-introduction: name the intermediate polynomials of the one-line update: vx_n1 = lin * p1 [, vx_n2 = p0 * s]
    f.anf("let next =", "n")
    f.hint("loop 1 begin", f"let ghost a0 = {p0}; let ghost a1 = {p1}; let ghost m = (it.index@ + 1) as nat;")
    # the hints are spliced by text anchors on the ORIGINAL tokens: the update statement
    sub_term = (f"coef(a0.coefficients@, k) * (2 * m) as real" if scaled else "coef(a0.coefficients@, k)")
    f.hint("after: let next =", f"""proof {{
        assert(prod_exact(vx_n1.coefficients@, {lin}.coefficients@, a1.coefficients@));
        assert forall|k: int| coef(vx_n1.coefficients@, k) == 2real * coef(a1.coefficients@, k - 1) by {{
            if a1.coefficients@.len() == 2 {{
                let l0 = coef({lin}.coefficients@, k - 1); let l1 = coef({lin}.coefficients@, k); let b1 = a1.coefficients@[1]@; let b0 = a1.coefficients@[0]@;
                assert(coef(vx_n1.coefficients@, k) == l0 * b1 + l1 * b0);
                assert(b1 == coef(a1.coefficients@, 1) && b0 == coef(a1.coefficients@, 0));
                assert({cfn}(1, 0) == 0real);
                assert(l1 * b0 == 0real) by(nonlinear_arith) requires b0 == 0real;
                if k == 2 {{ assert(l0 * b1 == 2real * b1) by(nonlinear_arith) requires l0 == 2real; }}
                else {{ assert(l0 * b1 == 0real) by(nonlinear_arith) requires l0 == 0real; }}
            }} else {{
                assert(coef(vx_n1.coefficients@, k) == coef(a1.coefficients@, k - 1) * {lin}.coefficients@[1]@ + coef(a1.coefficients@, k) * {lin}.coefficients@[0]@);
            }}
        }}
        assert forall|k: int| coef(next.coefficients@, k) == {cfn}(m + 1, k) by {{
            {"assert(coef(vx_n2.coefficients@, k) == " + sub_term + ") by { if !(0 <= k < a0.coefficients@.len()) { assert(0real * (2 * m) as real == 0real) by(nonlinear_arith); } }" if scaled else ""}
            assert(coef(next.coefficients@, k) == coef(vx_n1.coefficients@, k) + (-1real) * {"coef(vx_n2.coefficients@, k)" if scaled else "coef(a0.coefficients@, k)"});
            assert(coef(a1.coefficients@, k - 1) == {cfn}(m, k - 1));
            assert(coef(a0.coefficients@, k) == {cfn}((m - 1) as nat, k));
        }}
    }}""")
    return f


DECIDED = [
    "legendre(n), hermite(n), chebyshev(n), chebyshev_second(n) return a polynomial with exactly n+1 stored coefficients equal, coefficient by coefficient, to the classical three-term recurrences (A&S 22.7) for every n <= 2^30 and every positive tolerance",
    "the leading coefficient c(n,n) of each recurrence family is positive and all higher ones vanish (Verus lemmas): degree exactly n",
    "laguerre(n): coefficient k satisfies c_k k! k! = (-1)^k n(n-1)...(n-k+1), i.e. c_k = (-1)^k C(n,k)/k!; choose and factorial are verified against product specifications",
    "every constructor returns a polynomial whose zero tolerance is the requested tol (what the *_zeros functions rely on, C14 unit zeros); for hermite / chebyshev*, whose result is a product, through the helper clause "
    "'multiply() returns the tolerance of one of its operands' (all code paths incl. the FFT tail, whose idft stub takes the tolerance as an argument)",
    "every polynomial product used by the constructors goes through the exact linear-factor path of multiply(), re-verified in this unit",
]
NOT_DECIDED = ["rounding (exact reals); the complex instantiation; the *_zeros functions (see C14)",
               "that the recurrences equal the closed-form rational coefficient tables (a classical identity, not a contract on this code)"]
ASSUMPTIONS = ["n <= 2^30 (2*i+1 is computed in u32)", "tol > 0 (set_tolerance rejects negative values)",
               "rule R20: Vec::from_iter(vec) is that vector (how `.collect()` builds a Polynomial)", "rule R21: `a..=b` is verified as `a..b+1` with the overflow check on b+1"]
