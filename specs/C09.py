"""C09 -- quadrature (src/integrate/mod.rs, src/integrate/gaussian.rs)."""
from vx.unit import Unit
from vx import nra

IFILE, GFILE = "src/integrate/mod.rs", "src/integrate/gaussian.rs"

SIMPSON_SPEC = r'''
pub uninterp spec fn F(t: real) -> real;
// Simpson's rule on [a, a+2h] from three samples, and its two-panel refinement
pub open spec fn simpson(a: real, h: real) -> real { h * (F(a) + 4real * F(a + h) + F(a + 2real * h)) * (1real / 3real) }
pub open spec fn refined(a: real, h: real) -> real {
    h * (F(a) + 4real * F(a + 0.5real * h) + F(a + h)) * (1real / 6real) + h * (F(a + h) + 4real * F(a + 1.5real * h) + F(a + 2real * h)) * (1real / 6real)
}
// an accepted panel: (left end a, half width h, local tolerance t)
pub struct Panel { pub a: real, pub h: real, pub t: real }
pub open spec fn panel_sum(ps: Seq<Panel>) -> real decreases ps.len()
{ if ps.len() == 0 { 0real } else { panel_sum(ps.drop_last()) + refined(ps.last().a, ps.last().h) } }
pub open spec fn tol_sum(ps: Seq<Panel>) -> real decreases ps.len()
{ if ps.len() == 0 { 0real } else { tol_sum(ps.drop_last()) + ps.last().t } }
// the accepted panels tile [lo, hi) from left to right and each passed its local test
pub open spec fn tiles(ps: Seq<Panel>, lo: real, hi: real) -> bool {
    (ps.len() == 0 ==> lo == hi)
    && (ps.len() > 0 ==> ps[0].a == lo && ps.last().a + 2real * ps.last().h == hi)
    && (forall|j: int| 0 <= j < ps.len() ==> #[trigger] ps[j].h > 0real && rabs(refined(ps[j].a, ps[j].h) - simpson(ps[j].a, ps[j].h)) < ps[j].t)
    && (forall|j: int| 0 <= j < ps.len() - 1 ==> #[trigger] ps[j].a + 2real * ps[j].h == ps[j + 1].a)
}
// stack entry k: the stored samples, Simpson value and geometry of its panel
pub open spec fn entry_ok(left_i: Seq<R>, step_i: Seq<R>, f_ai: Seq<R>, f_ci: Seq<R>, f_bi: Seq<R>, sum_i: Seq<R>, tol_i: Seq<R>, k: int) -> bool {
    step_i[k]@ > 0real
    && f_ai[k]@ == F(left_i[k]@) && f_ci[k]@ == F(left_i[k]@ + step_i[k]@) && f_bi[k]@ == F(left_i[k]@ + 2real * step_i[k]@)
    && sum_i[k]@ == simpson(left_i[k]@, step_i[k]@)
}
'''


def simpson(u):
    f = u.fn(IFILE, "integrate_simpson")
    f.attrs.append("#[verifier::exec_allows_no_decreases_clause]")
    f.req("forall|t: R| left@ <= t@ <= right@ ==> f_0.requires((t,))",
          "forall|t: R, y: R| f_0.ensures((t,), y) ==> y@ == F(t@)",
          "n_max < usize::MAX / 4")
    f.ens("left@ >= right@ ==> res is Err", "tol@ < 0real ==> res is Err",
          # an Ok result is the sum of two-panel Simpson values over panels that tile [left, right] and each passed its local test
          "res is Ok ==> exists|ps: Seq<Panel>| #![trigger tiles(ps, left@, right@)] tiles(ps, left@, right@) && res->Ok_0@ == panel_sum(ps)")
    STK = "left_i@, step_i@, f_ai@, f_ci@, f_bi@, sum_i@, tol_i@"
    f.loop(1, invariant=[
        "f == f_0", "left@ < right@",
        "sixth@ == 1real / 6real && third@ == 1real / 3real && half_real@ == 0.5real && one_and_a_half_real@ == 1.5real && four@ == 4real",
        "i <= left_i@.len()",
        "left_i@.len() == step_i@.len() && left_i@.len() == f_ai@.len() && left_i@.len() == f_ci@.len() && left_i@.len() == f_bi@.len() "
        "&& left_i@.len() == sum_i@.len() && left_i@.len() == tol_i@.len() && left_i@.len() == l_i@.len()",
        f"forall|k: int| 0 <= k < i ==> #[trigger] entry_ok({STK}, k)",
        # geometry: the live entries are adjacent panels inside [left, right], topmost = leftmost, the bottom one ends at `right`
        "forall|k: int| 0 <= k < i ==> left@ <= #[trigger] left_i@[k]@ && left_i@[k]@ + 2real * step_i@[k]@ <= right@",
        "i > 0 ==> left_i@[0]@ + 2real * step_i@[0]@ == right@",
        "forall|k: int| 1 <= k < i ==> #[trigger] left_i@[k]@ + 2real * step_i@[k]@ == left_i@[k - 1]@",
        # recursion levels: bounded by n_max, at most two live entries per level  (=> the stack index cannot overflow)
        "forall|k: int| 0 <= k < i ==> (#[trigger] l_i@[k] <= n_max || l_i@[k] == 1) && k + 1 <= 2 * l_i@[k]",
        # accepted panels tile [left, frontier) and add up to area
        "tiles(acc, left@, if i > 0 { left_i@[i - 1]@ } else { right@ })", "area@ == panel_sum(acc)",
    ])
    f.hint("before loop 1", """let ghost mut acc: Seq<Panel> = Seq::empty();
    proof {
        let h = step_i@[0]@;
        assert(h == (right@ - left@) * 0.5real);
        assert(left@ + 2real * h == right@);
        assert(panel_sum(acc) == 0real);
    }""")
    f.hint("loop 1 begin", f"""let ghost i0 = i as int;
    let ghost L0 = left_i@; let ghost S0 = step_i@; let ghost A0 = f_ai@; let ghost C0 = f_ci@; let ghost B0 = f_bi@; let ghost U0 = sum_i@; let ghost T0 = tol_i@; let ghost V0 = l_i@;
    proof {{ assert(entry_ok({STK}, i0 - 1)); }}""")
    # accept
    f.hint("after: area +=", """proof {
        let p = Panel { a: v_1@, h: v_5@, t: v_6@ };
        let acc2 = acc.push(p);
        assert(acc2.drop_last() =~= acc);
        assert(refined(p.a, p.h) == s1@ + s2@);
        assert(simpson(p.a, p.h) == v_7@);
        assert forall|j: int| 0 <= j < acc2.len() implies #[trigger] acc2[j].h > 0real && rabs(refined(acc2[j].a, acc2[j].h) - simpson(acc2[j].a, acc2[j].h)) < acc2[j].t by {
            if j < acc.len() { assert(acc2[j] == acc[j]); }
        }
        assert forall|j: int| 0 <= j < acc2.len() - 1 implies #[trigger] acc2[j].a + 2real * acc2[j].h == acc2[j + 1].a by {
            if j < acc.len() - 1 { assert(acc2[j] == acc[j] && acc2[j + 1] == acc[j + 1]); } else { assert(acc2[j] == acc[j]); }
        }
        acc = acc2;
    }""")
    # split: both halves are valid stack entries
    f.hint("loop 1 end", f"""proof {{
        if i as int == i0 + 1 {{
            let h = v_5@; let a = v_1@; let hh = 0.5real * h;
            assert(half_real@ * h == hh);
            assert(a + h + 2real * hh == a + 2real * h);
            assert(a + 2real * hh == a + h);
            assert(a + hh == a + 0.5real * h);
            assert(a + h + hh == a + 1.5real * h);
            let X2 = F(a + h) + 4real * F(a + 1.5real * h) + F(a + 2real * h);
            let X1 = F(a) + 4real * F(a + 0.5real * h) + F(a + h);
            assert(hh * X2 * (1real / 3real) == h * X2 * (1real / 6real)) by(nonlinear_arith) requires hh == 0.5real * h;
            assert(hh * X1 * (1real / 3real) == h * X1 * (1real / 6real)) by(nonlinear_arith) requires hh == 0.5real * h;
            assert(entry_ok({STK}, i0 - 1));
            assert(entry_ok({STK}, i0));
        }}
        // entries below the popped one are untouched
        assert forall|k: int| 0 <= k < i0 - 1 implies left_i@[k] == L0[k] && step_i@[k] == S0[k] && f_ai@[k] == A0[k] && f_ci@[k] == C0[k]
            && f_bi@[k] == B0[k] && sum_i@[k] == U0[k] && tol_i@[k] == T0[k] && l_i@[k] == V0[k] by {{ }}
        assert forall|k: int| 0 <= k < i implies #[trigger] entry_ok({STK}, k) by {{
            if k < i0 - 1 {{ assert(entry_ok(L0, S0, A0, C0, B0, U0, T0, k)); }}
        }}
    }}""")
    return f


GAUSS_SPEC = r"""
pub uninterp spec fn F(t: real) -> real;
// one table entry as the symmetric integrators consume it: centre node once, other nodes mirrored
pub open spec fn term_sym(p: (R, R)) -> real { if p.0@ == 0real { p.1@ * F(0real) } else { p.1@ * (F(p.0@) + F(-p.0@)) } }
pub open spec fn term_one(p: (R, R)) -> real { p.1@ * F(p.0@) }
pub open spec fn row_sum(row: Seq<(R, R)>, n: int, sym: bool) -> real
    decreases n
{ if n <= 0 { 0real } else { row_sum(row, n - 1, sym) + if sym { term_sym(row[n - 1]) } else { term_one(row[n - 1]) } } }
// the k-th rule of a table applied to F  (rule(-1) = 0: the initial `prev_area`)
pub open spec fn rule(t: Seq<Vec<(R, R)>>, k: int, sym: bool) -> real { if 0 <= k < t.len() { row_sum(t[k]@, t[k]@.len() as int, sym) } else { 0real } }
// the stopping rule: rule k is returned iff it and its predecessor both moved by less than tol
pub open spec fn accepted(t: Seq<Vec<(R, R)>>, k: int, sym: bool, tol: real, v: real) -> bool {
    1 <= k < t.len() && v == rule(t, k, sym) && rabs(rule(t, k, sym) - rule(t, k - 1, sym)) < tol && rabs(rule(t, k - 1, sym) - rule(t, k - 2, sym)) < tol
}
"""

TABLE_ID = {"WEIGHTS_LEGENDRE": 1, "WEIGHTS_CHEBYSHEV": 2, "WEIGHTS_CHEBYSHEV_SECOND": 3, "WEIGHTS_HERMITE": 4, "WEIGHTS_LAGUERRE": 5}


def table_core(u, name, table, sym, tol_check=True, var="weight"):
    f = u.fn(GFILE, name)
    tid = TABLE_ID[table]
    T = f"table_spec({tid})"
    S = "true" if sym else "false"
    f.mapfold("mf")
    f.req("forall|t: R| f_0.requires((t,))", "forall|t: R, y: R| f_0.ensures((t,), y) ==> y@ == F(t@)")
    ens = [f"res is Ok ==> exists|k: int| #![trigger rule({T}, k, {S})] accepted({T}, k, {S}, tol@, res->Ok_0@)"]
    if tol_check:
        ens.insert(0, "tol@ < 0real ==> res is Err")
    f.ens(*ens)
    f.loop(1, iter="it", invariant=[
        "f == f_0",
        f"prev_area@ == rule({T}, it.index@ - 1, {S})",
        f"it.index@ == 0 ==> prev_err@ == 1real + tol@",
        f"it.index@ > 0 ==> prev_err@ == rabs(rule({T}, it.index@ - 1, {S}) - rule({T}, it.index@ - 2, {S}))",
        f"forall|k: int| 0 <= k < it.history@.len() ==> *it.history@[k] == {T}[k]",
    ])
    term = "term_sym(*p)" if sym else "term_one(*p)"
    f.loop(2, iter="it2", invariant=[
        f"vx_mfacc@ == row_sum({var}@, it2.index@, {S})",
        f"forall|k: int| 0 <= k < it2.history@.len() ==> *it2.history@[k] == {var}@[k]",
        "forall|p: &(R, R)| #[trigger] vx_mfg.requires((p,))",
        f"forall|p: &(R, R), y: R| #[trigger] vx_mfg.ensures((p,), y) ==> y@ == {term}",
        "forall|a: R, b: R| #[trigger] vx_mfh.requires((a, b))",
        "forall|a: R, b: R, y: R| #[trigger] vx_mfh.ensures((a, b), y) ==> y@ == a@ + b@",
    ])
    f.closure(1, tuple_param="&(R, R)", ret="vx_y: R", ensures=["vx_y@ == " + ("term_sym(*vx_p1)" if sym else "term_one(*vx_p1)")])
    f.closure(2, params="sum: R, x: R", ret="vx_s: R", ensures=["vx_s@ == sum@ + x@"])
    # the witness of the existential postcondition, spelled out (the obligation was seed-dependent without it)
    f.hint("before: return Ok(area)", f"""proof {{
            let kk = it.index@;
            assert(area@ == rule({T}, kk, {S}));
            assert(prev_area@ == rule({T}, kk - 1, {S}));
            assert(accepted({T}, kk, {S}, tol@, area@));
        }}""")
    return f


def units(ctx):
    u = Unit("C09", "simpson", preludes=("real",))
    u.rlimit = 150
    u.timeout = 600
    u.spec(SIMPSON_SPEC)
    simpson(u)
    from vx.extract import Config
    c = Config(extra_subst=[("FnMut", "Fn")])      # R7: callbacks are Fn (pure) where closures capture them
    c.extra = [(name, f"vx_table({tid}u8)", "R2-table-access") for name, tid in TABLE_ID.items()]
    g = Unit("C09", "gauss", preludes=("real", "stdx"), cfg=c)
    g.spec(GAUSS_SPEC)
    table_core(g, "integrate_hermite", "WEIGHTS_HERMITE", True)
    table_core(g, "integrate_chebyshev", "WEIGHTS_CHEBYSHEV", True)
    table_core(g, "integrate_chebyshev_second", "WEIGHTS_CHEBYSHEV_SECOND", True)
    table_core(g, "integrate_laguerre", "WEIGHTS_LAGUERRE", False)
    table_core(g, "integrate_gaussian_core", "WEIGHTS_LEGENDRE", True, tol_check=False, var="weights")
    return [u, g, entry_unit(), romberg_unit(), tanhsinh_unit()]


def tanhsinh_unit():
    """integrate_core: the value returned is a level of the tanh-sinh (double exponential) refinement, and its error estimate passed"""
    from vx.extract import Config
    c = Config(extra_subst=[("FnMut", "Fn")])
    # the table is an array of row slices; `for &weight in &WEIGHTS_DE` binds each row by reference: with the table shim
    # (a Vec of rows) that is `for weight in vx_table(6).iter()`
    c.extra = [("&weight", "weight", "R2-table-access"), ("&WEIGHTS_DE", "vx_table(6u8).iter()", "R2-table-access")]
    e = Unit("C09", "tanhsinh", preludes=("real", "stdx"), cfg=c)
    e.spec(r"""
pub uninterp spec fn F(t: real) -> real;
// one table entry (weight, node): the node and its mirror image
pub open spec fn term_de(p: (R, R)) -> real { p.0@ * (F(p.1@) + F(-p.1@)) }
pub open spec fn row_de(row: Seq<(R, R)>, n: int) -> real decreases n { if n <= 0 { 0real } else { row_de(row, n - 1) + term_de(row[n - 1]) } }
// level k of the refinement:  I_(-1) = pi F(0),  I_k = I_(k-1) / 2 + (sum over row k)
pub open spec fn level(t: Seq<Vec<(R, R)>>, k: int) -> real decreases k + 1 {
    if k < 0 { rpi() * F(0real) } else { 0.5real * level(t, k - 1) + row_de(t[k]@, t[k]@.len() as int) }
}
// the change between consecutive levels
pub open spec fn delta(t: Seq<Vec<(R, R)>>, k: int) -> real { rabs(0.5real * level(t, k - 1) - row_de(t[k]@, t[k]@.len() as int)) }
pub open spec fn accepted_de(t: Seq<Vec<(R, R)>>, k: int, tol: real, v: real) -> bool {
    // k >= 2: the two coarsest levels are never accepted (the change between them is not yet an error estimate)
    2 <= k < t.len() && v == level(t, k) && (delta(t, k) == 0real || delta(t, k) * delta(t, k) < tol || delta(t, k) < tol)
}
""")
    T = "table_spec(6)"
    f = e.fn(IFILE, "integrate_core")
    f.attrs = []
    f.opt(continue_to_else=True)
    f.mapfold("mf")
    f.req("forall|t: R| f_0.requires((t,))", "forall|t: R, y: R| f_0.ensures((t,), y) ==> y@ == F(t@)", f"{T}.len() < 1000 && forall|k: int| 0 <= k < {T}.len() ==> (#[trigger] {T}[k])@.len() < 100000",
          # the two coarsest levels of the table cost at most 13 evaluations (3 + 3 mirrored pairs and the centre): what the routine's own level test counts on
          f"{T}.len() >= 2 && {T}[0]@.len() + {T}[1]@.len() <= 6")
    f.ens(f"res is Ok ==> exists|k: int| #![trigger level({T}, k)] accepted_de({T}, k, tol@, res->Ok_0@)")
    f.loop(1, iter="it", invariant=[
        "f == f_0", "forall|t: R| f_0.requires((t,))", "forall|t: R, y: R| f_0.ensures((t,), y) ==> y@ == F(t@)",
        "half@ == 0.5real", f"{T}.len() < 1000 && forall|k: int| 0 <= k < {T}.len() ==> (#[trigger] {T}[k])@.len() < 100000",
        f"integral@ == level({T}, it.index@ - 1)", "num_function_evaluations <= 1 + 200000 * it.index@",
        f"it.index@ > 0 ==> current_delta@ == delta({T}, it.index@ - 1)",
        "num_function_evaluations <= 13 ==> error_estimate@ == 1real + tol@",
        f"{T}.len() >= 2 && {T}[0]@.len() + {T}[1]@.len() <= 6",
        f"it.index@ == 0 ==> num_function_evaluations == 1", f"it.index@ == 1 ==> num_function_evaluations == 1 + 2 * {T}[0]@.len()",
        f"it.index@ == 2 ==> num_function_evaluations == 1 + 2 * {T}[0]@.len() + 2 * {T}[1]@.len()",
        "error_estimate@ == 1real + tol@ || (it.index@ > 2 && (error_estimate@ == current_delta@ || error_estimate@ == current_delta@ * current_delta@ || (error_estimate@ == 0real && current_delta@ == 0real)))",
        f"forall|k: int| 0 <= k < it.history@.len() ==> *it.history@[k] == {T}[k]",
    ], invariant_except_break=[])
    f.loop(2, iter="it2", invariant=[
        "vx_mfacc@ == row_de(weight@, it2.index@)",
        "forall|k: int| 0 <= k < it2.history@.len() ==> *it2.history@[k] == weight@[k]",
        "forall|p: &(R, R)| #[trigger] vx_mfg.requires((p,))",
        "forall|p: &(R, R), y: R| #[trigger] vx_mfg.ensures((p,), y) ==> y@ == term_de(*p)",
        "forall|a: R, b: R| #[trigger] vx_mfh.requires((a, b))",
        "forall|a: R, b: R, y: R| #[trigger] vx_mfh.ensures((a, b), y) ==> y@ == a@ + b@",
    ])
    f.closure(1, tuple_param="&(R, R)", ret="vx_y: R", ensures=["vx_y@ == term_de(*vx_p1)"])
    f.closure(2, params="sum: R, x: R", ret="vx_s: R", ensures=["vx_s@ == sum@ + x@"])
    return e


def romberg_unit():
    """integrate_fixed: the value returned is entry (n, n) of the Romberg table built from composite trapezoid/midpoint sums"""
    from vx.extract import Config
    c = Config(extra_subst=[("FnMut", "Fn")])
    e = Unit("C09", "romberg", preludes=("real",), cfg=c)
    e.rlimit = 100
    e.timeout = 300
    e.spec(r"""
pub uninterp spec fn F(t: real) -> real;
// slice copy `dst[..i].clone_from_slice(&src[..i])` (std): the first i elements of dst become those of src (rule R13)
#[verifier::external_body]
pub fn vx_copy_prefix(dst: &mut Vec<R>, src: &Vec<R>, i: usize)
    requires i <= old(dst)@.len(), i <= src@.len()
    ensures final(dst)@.len() == old(dst)@.len(), forall|k: int| 0 <= k < final(dst)@.len() ==> #[trigger] final(dst)@[k] == (if k < i { src@[k] } else { old(dst)@[k] })
{ unimplemented!() }
pub proof fn lemma_pow4(k: int) ensures rpowi(4real, k) >= 1real, k >= 1 ==> rpowi(4real, k) >= 4real decreases k
{ if k >= 1 { lemma_pow4(k - 1); let x = rpowi(4real, k - 1); assert(4real * x >= 4real) by(nonlinear_arith) requires x >= 1real; } }
// number of new midpoints of row i >= 2 (as the code computes it)
pub open spec fn mids(i: int) -> int { (1i32 << ((i - 2) as usize)) as int }
// h of row i:  (b - a) / 2^(i - 1), built by repeated halving
pub open spec fn hrow(a: real, b: real, i: int) -> real decreases i { if i <= 1 { b - a } else { hrow(a, b, i - 1) * 0.5real } }
// sum_{k = 1}^{m} F(a + (k - 1/2) h)
pub open spec fn msum(a: real, h: real, m: int) -> real decreases m { if m <= 0 { 0real } else { msum(a, h, m - 1) + F(a + (m as real - 0.5real) * h) } }
// the Romberg table: column 1 is the composite trapezoid rule refined by midpoints, column j is Richardson extrapolation with 4^(j-1)
pub open spec fn rom(a: real, b: real, i: int, j: int) -> real decreases i, j {
    if i <= 1 { (b - a) * 0.5real * (F(a) + F(b)) }
    else if j <= 1 { (msum(a, hrow(a, b, i - 1), mids(i)) * hrow(a, b, i - 1) + rom(a, b, i - 1, 1)) * 0.5real }
    else { rom(a, b, i, j - 1) + (rom(a, b, i, j - 1) - rom(a, b, i - 1, j - 1)) / (rpowi(4real, j - 1) - 1real) }
}
""")
    f = e.fn(IFILE, "integrate_fixed")
    f.attrs = []
    f.opt(subst=[("prev_rows[..i].clone_from_slice(&next[..i])", "vx_copy_prefix(&mut prev_rows, &next, i)", "R13-slice-copy")])
    f.req("forall|t: R| f_0.requires((t,))", "forall|t: R, y: R| f_0.ensures((t,), y) ==> y@ == F(t@)", "1 <= n <= 32")
    f.ens("left@ >= right@ ==> res is Err",
          # the result is entry (n, n) of the Romberg table of F on [left, right]
          "left@ < right@ ==> res is Ok && res->Ok_0@ == rom(left@, right@, n as int, n as int)")
    FS = ["f == f_0", "forall|t: R| f_0.requires((t,))", "forall|t: R, y: R| f_0.ensures((t,), y) ==> y@ == F(t@)",
          "half@ == 0.5real && half_real@ == 0.5real && four@ == 4real", "prev_rows@.len() == n && next@.len() == n && 1 <= n <= 32"]
    f.loop(1, invariant=FS + ["2 <= i <= n + 1", "h@ == hrow(left@, right@, i - 1)",
                              "forall|q: int| 0 <= q < i - 1 ==> #[trigger] prev_rows@[q]@ == rom(left@, right@, i - 1, q + 1)"])
    f.loop(2, invariant=FS + ["2 <= i <= n", "1 <= k <= mids(i as int) + 1", "acc@ == msum(left@, h@, k - 1)"])
    f.loop(3, invariant=FS + ["2 <= i <= n", "2 <= j <= i + 1", "h@ == hrow(left@, right@, i - 1)",
                              "forall|q: int| 0 <= q < i - 1 ==> #[trigger] prev_rows@[q]@ == rom(left@, right@, i - 1, q + 1)",
                              "forall|q: int| 0 <= q < j - 1 ==> #[trigger] next@[q]@ == rom(left@, right@, i as int, q + 1)"])
    f.hint("loop 1 begin", "proof { let sh = (i - 2) as usize; assert(sh <= 30); assert((1i32 << sh) >= 1 && (1i32 << sh) <= 0x4000_0000) by(bit_vector) requires sh <= 30; }")
    f.anf("next[j - 1] =", "q", bind_operands=True)
    f.hint("loop 3 begin", "let ghost nx0 = next@;")
    f.hint("loop 3 end", """proof {
            let a = left@; let b = right@; let ii = i as int; let jj = j as int;
            assert(rom(a, b, ii, jj) == rom(a, b, ii, jj - 1) + (rom(a, b, ii, jj - 1) - rom(a, b, ii - 1, jj - 1)) / (rpowi(4real, jj - 1) - 1real));
            assert(prev_rows@[jj - 2]@ == rom(a, b, ii - 1, jj - 1));
            assert(nx0[jj - 2]@ == rom(a, b, ii, jj - 1));
            assert((j as i32 - 1) as int == jj - 1);
            assert(next@ == nx0.update(jj - 1, next@[jj - 1]));
            lemma_pow4(jj - 1);
            assert(vx_q1@ == nx0[jj - 2]@ && vx_q3@ == prev_rows@[jj - 2]@);
            assert(vx_q5@ == rpowi(four@, jj - 1));
            assert(vx_q8@ == (nx0[jj - 2]@ - prev_rows@[jj - 2]@) / (rpowi(four@, jj - 1) - 1real));
            assert(next@[jj - 1]@ == vx_q1@ + vx_q8@);
            assert(next@[jj - 1]@ == nx0[jj - 2]@ + (nx0[jj - 2]@ - prev_rows@[jj - 2]@) / (rpowi(four@, jj - 1) - 1real));
            assert(next@[jj - 1]@ == nx0[jj - 2]@ + (nx0[jj - 2]@ - prev_rows@[jj - 2]@) / (rpowi(4real, jj - 1) - 1real));
            assert(next@[jj - 1]@ == rom(a, b, ii, jj));
        }""")
    f.hint("before: h *= half_real", "proof { assert(hrow(left@, right@, i as int) == hrow(left@, right@, i - 1) * 0.5real); }")
    return e


def entry_unit():
    """integrate() and integrate_gaussian(): validation and the affine change of variable handed to the core"""
    from vx.extract import Config
    c = Config(extra_subst=[("FnMut", "Fn")])
    e = Unit("C09", "entry", preludes=("real",), cfg=c)
    e.spec("""
pub uninterp spec fn F(t: real) -> real;
// the cores are verified in unit `gauss` (Gauss-Legendre) / not verified (tanh-sinh, see NOT_DECIDED); here only their signature matters
#[verifier::external_body]
fn integrate_gaussian_core<F: Fn(R) -> R>(f: F, tol: R) -> (r: Result<R, String>)
    requires forall|t: R| f.requires((t,)) { unimplemented!() }
#[verifier::external_body]
fn integrate_core<F: Fn(R) -> R>(f: F, tol: R) -> (r: Result<R, String>)
    requires forall|t: R| f.requires((t,)) { unimplemented!() }
""")
    f = e.fn(GFILE, "integrate_gaussian")
    f.req("forall|t: R| f_0.requires((t,))", "forall|t: R, y: R| f_0.ensures((t,), y) ==> y@ == F(t@)")
    f.ens("left@ >= right@ ==> res is Err", "tol@ < 0real ==> res is Err")
    # the callback handed to the core evaluates f at the affine image of [-1, 1]
    f.closure(1, ret="vx_y: R", ensures=["vx_y@ == F(0.5real * (right@ - left@) * x@ + 0.5real * (right@ + left@))"])
    f.hint("before: let fun =", "proof { assert(scale@ == 0.5real * (right@ - left@) && shift@ == 0.5real * (right@ + left@)); }")
    f = e.fn(IFILE, "integrate")
    f.req("forall|t: R| f_0.requires((t,))", "forall|t: R, y: R| f_0.ensures((t,), y) ==> y@ == F(t@)")
    f.ens("left@ >= right@ ==> res is Err", "tol@ < 0real ==> res is Err")
    f.closure(1, ret="vx_y: R", ensures=["vx_y@ == F((right@ - left@) * 0.5real * x@ + (right@ + left@) * 0.5real)"])
    f.hint("before: let fun =", "proof { assert(scale@ == (right@ - left@) * 0.5real && shift@ == (right@ + left@) * 0.5real); }")
    return e


DECIDED = [
    "integrate_core (tanh-sinh): an Ok result is level k of the double-exponential refinement over the table WEIGHTS_DE (I_(-1) = pi f(0), I_k = I_(k-1)/2 + sum_row w (f(x) + f(-x))) for some k, "
    "and the change delta_k between the last two levels passed the stopping rule (delta_k = 0, delta_k^2 < tol or delta_k < tol); otherwise Err; "
    "the accepted level is k >= 2: the two coarsest levels (13 evaluations) are never accepted, whatever their changes look like",
    "integrate_fixed (Romberg, 1 <= n <= 32): left >= right -> Err; otherwise Ok and the value is exactly entry (n, n) of the Romberg table of f on [left, right]: column 1 is the trapezoid rule refined by the midpoints "
    "a + (k - 1/2) h_i, k = 1..2^(i-2), column j is the Richardson extrapolation with 4^(j-1) - 1 (recursive spec `rom`)",
    "integrate_simpson: Err for left >= right and tol < 0; an Ok result is the sum of two-panel Simpson values over panels that tile [left, right] exactly, each of which passed its own local test |S2 - S1| < tol_i; every stack entry stores the samples and the Simpson value of its own panel (the pinned tree restored the wrong saved estimate: fixed); f is only evaluated inside [left, right]",
    "integrate_hermite / integrate_chebyshev / integrate_chebyshev_second / integrate_laguerre / integrate_gaussian_core: for every table and callback, an Ok result is rule k of the table (centre node once, other nodes mirrored; Laguerre unmirrored) with |Q_k - Q_{k-1}| < tol and |Q_{k-1} - Q_{k-2}| < tol; tol < 0 -> Err",
    "integrate_gaussian and integrate: left >= right -> Err (integrate_gaussian: repaired), tol < 0 -> Err; the callback handed to the core evaluates f at the affine image scale*x + shift of the reference interval",
]
NOT_DECIDED = [
    "accuracy against the true integral for non-polynomial integrands (the stopping heuristics are not error bounds); combined with C10 the accepted Gaussian rule is exact on polynomials of degree <= 2k+1",
    "integrate_core (tanh-sinh): that the accepted level is within tolerance of the integral (the convergence heuristic compares logarithms of consecutive changes; analytic)",
    "Romberg: that entry (n, n) of the table is exact for polynomials of degree <= 2n-1 (Euler-Maclaurin; exercised by the bounded witness probe only)",
    "termination of integrate_simpson (the level cap n_max bounds the depth; the loop itself is marked exec_allows_no_decreases_clause)",
    "the multiplication of the core's result by the scale in the entry points is verified only as executed code, not as a statement about the integral",
]
ASSUMPTIONS = [
    "callbacks are pure (FnMut is verified as Fn, rule R7) and modelled by an uninterpreted F",
    "the quadrature tables are opaque (vx_table); their contents are decided by C10",
    "integrate_core: the first two rows of WEIGHTS_DE have at most 6 entries together (they have 3 + 3), so that the routine's own `num_function_evaluations <= 13` means 'level <= 1' (stated as a precondition on the table shim)",
    "rule R5-map-fold: `.iter().map(G).fold(INIT, H)` is verified as the explicit loop it abbreviates",
    "integrate_simpson: n_max < usize::MAX / 4",
]
