"""C11 -- polynomial arithmetic (the 32 operator impls and multiply) in src/polynomial/mod.rs."""
from vx.unit import Unit
from vx.rules import COPIED
from specs_polycommon import *

def units(ctx):
    u = Unit("C11", "poly_ops", preludes=("real", "stdx"), cfg=cfg())
    all_ops(u)
    u.timeout = 1200
    # sibling unit: the hoisted body of `Neg for &Polynomial`, proved against the same contract text
    u2 = Unit("C11", "poly_neg_ref", preludes=("real", "stdx"), cfg=cfg())
    u2.item(PFILE, "struct", "Polynomial")
    u2.spec(POLY_SPEC)
    u2.spec(SPEC)
    im = u2.impl(PFILE, "ops::Neg for &Polynomial<N>")
    im.only_hoisted = True
    f = im.fn("neg")
    f.ens("is_negated(res, *self)")
    f.opt(subst=[("|c|", "|c: &R|", "R7-closure-param-type")], hoist=True)
    f.closure(1, ret="y: R", ensures=["y@ == -(*c)@"])
    return [u, u2, fft_helpers()]


def fft_helpers():
    """the integer / padding helper of the FFT path: pad_power_of_two (the transforms themselves stay trusted stubs)"""
    from vx.extract import Config
    hc = Config(extra_subst=[("Complex<N>", "C"), ("Polynomial<N>", "Polynomial"), ("Polynomial::<N>", "Polynomial")])
    h = Unit("C11", "fft_helpers", preludes=("real", "stdx"), cfg=hc)
    h.item(PFILE, "struct", "Polynomial")
    h.spec(POLY_SPEC)
    h.spec(r"""
pub open spec fn is_pow2(p: int) -> bool decreases p { if p <= 0 { false } else if p == 1 { true } else { p % 2 == 0 && is_pow2(p / 2) } }
""")
    im = h.impl(PFILE, "Polynomial<N>", header="impl Polynomial", keep_assoc=False)
    f = im.fn("pad_power_of_two")
    f.req("old(self).coefficients@.len() >= 1", "size <= 0x4000_0000usize", "old(self).coefficients@.len() <= 0x4000_0000usize")
    f.ens("final(self).tolerance == old(self).tolerance",
          # padding never changes the polynomial: every coefficient (0 beyond the stored ones) is kept
          "forall|k: int| coef(final(self).coefficients@, k) == coef(old(self).coefficients@, k)",
          # the new length is the old one or the smallest power of two >= size, whichever is larger
          "final(self).coefficients@.len() >= size && final(self).coefficients@.len() >= old(self).coefficients@.len()",
          "exists|p: int| #![trigger is_pow2(p)] is_pow2(p) && p >= size && (p == 1 || p / 2 < size) "
          "&& final(self).coefficients@.len() as int == (if old(self).coefficients@.len() >= p { old(self).coefficients@.len() as int } else { p })")
    f.loop(1, invariant=["power >= 1", "is_pow2(power as int)", "power <= 0x8000_0000usize", "size <= 0x4000_0000usize", "power == 1 || power / 2 < size"],
           decreases="0x1_0000_0000int - power")
    f.hint("before: power <<= 1", "proof { assert(power << 1usize == 2 * power) by(bit_vector) requires power < 0x4000_0000usize; }")
    f.loop(2, invariant=["self.coefficients@.len() >= old(self).coefficients@.len()", "self.tolerance == old(self).tolerance", "power <= 0x8000_0000usize",
                          "self.coefficients@.len() <= (if old(self).coefficients@.len() >= power { old(self).coefficients@.len() as int } else { power as int })",
                          "forall|k: int| coef(self.coefficients@, k) == coef(old(self).coefficients@, k)"],
           decreases="power - self.coefficients@.len()")
    h.spec(r"""
pub open spec fn pow2i(n: int) -> int decreases n { if n <= 0 { 1 } else { 2 * pow2i(n - 1) } }
// the j lowest bits of k, reversed, read as a j-bit number: bit (j-1-i) of brev(k, j) is bit i of k
pub open spec fn brev(k: int, j: int) -> int decreases j { if j <= 0 { 0 } else { 2 * brev(k, j - 1) + (k / pow2i(j - 1)) % 2 } }
pub proof fn lemma_brev_bound(k: int, j: int) requires k >= 0, j >= 0 ensures 0 <= brev(k, j) < pow2i(j) decreases j
{ if j > 0 { lemma_brev_bound(k, j - 1); } }
pub proof fn lemma_pow2i_mono(a: int, b: int) requires 0 <= a <= b ensures 1 <= pow2i(a) <= pow2i(b) decreases b
{ if b > a { lemma_pow2i_mono(a, b - 1); } else if a > 0 { lemma_pow2i_mono(a - 1, a - 1); } }
""")
    g = h.fn(PFILE, "bit_reverse")
    g.req("num_bits <= 30")
    # the result is the num_bits-bit reversal of k, hence an index below 2^num_bits (what bit_reverse_copy indexes with)
    g.ens("res == brev(k_0 as int, num_bits as int)", "res < pow2i(num_bits as int)")
    g.hint("before: let mut result", "let ghost k0 = k; proof { assert(pow2i(30) == 0x4000_0000) by(compute_only); }")
    g.loop(1, iter="it", invariant=["result == 2 * brev(k0 as int, it.index@)", "k == k0 as int / pow2i(it.index@)", "num_bits <= 30", "pow2i(30) == 0x4000_0000", "0 <= it.index@ <= num_bits"])
    g.hint("loop 1 begin", """proof {
            let i = it.index@;
            lemma_brev_bound(k0 as int, i); lemma_pow2i_mono(i, 29); lemma_pow2i_mono(29, 30);
            assert(pow2i(30) == 2 * pow2i(29));
            let r = result; let kk = k;
            assert(r & 1 == 0 ==> (r | (kk & 1)) == r + kk % 2) by(bit_vector);
            assert(r % 2 == 0 ==> r & 1 == 0) by(bit_vector);
            let t = (r | (kk & 1)) as usize;
            assert(t < 0x4000_0000usize ==> t << 1usize == 2 * t) by(bit_vector);
            assert(kk >> 1usize == kk / 2) by(bit_vector);
            assert(k0 as int / pow2i(i + 1) == (k0 as int / pow2i(i)) / 2) by(nonlinear_arith) requires pow2i(i + 1) == 2 * pow2i(i), pow2i(i) >= 1, k0 >= 0;
        }""")
    # bit_reverse_copy: every write lands inside the result (the index is below 2^num_bits <= len), the result has the input's length
    h.spec(r"""
pub struct C { pub re: R, pub im: R }
impl Clone for C { #[verifier::external_body] fn clone(&self) -> (r: C) ensures r == *self { unimplemented!() } }
impl Copy for C {}
// `vec![Complex::new(0, 0); len]` (std): len copies of the zero
#[verifier::external_body]
pub fn vx_zero_vec(len: usize) -> (v: Vec<C>) ensures v@.len() == len { unimplemented!() }
// `(len as f64).log2() as usize`: the floor of the binary logarithm (trusted: f64 represents every len <= 2^30 exactly and log2 is exact on powers of two)
#[verifier::external_body]
pub fn vx_log2_floor(len: usize) -> (r: usize) ensures len >= 1 ==> pow2i(r as int) <= len < 2 * pow2i(r as int), len == 0 ==> r == 0 { unimplemented!() }
""")
    b = h.fn(PFILE, "bit_reverse_copy")
    b.opt(subst=[("vec![Complex::new(N::zero(), N::zero()); len]", "vx_zero_vec(len)", "R39-vec-repeat"),
                 ("(len as f64).log2() as usize", "vx_log2_floor(len)", "R39-log2-floor")])
    b.req("vec@.len() <= 0x4000_0000usize")
    b.ens("res@.len() == vec@.len()")
    b.hint("before: for k in", """proof {
        if len >= 1 && num_bits > 30 { lemma_pow2i_mono(31, num_bits as int); assert(pow2i(31) == 0x8000_0000) by(compute_only); }
    }""")
    b.loop(1, invariant=["result@.len() == len", "len == vec@.len()", "num_bits <= 30", "len >= 1 ==> pow2i(num_bits as int) <= len"])
    g.hint("before: result >>= 1", "proof { let r = result; assert(r >> 1usize == r / 2) by(bit_vector); lemma_brev_bound(k0 as int, num_bits as int); }")
    return h


DECIDED = [
    "all 9 Add / 9 Sub forms (owned, borrowed, assigning; scalar and polynomial right operands): coefficient k of the result is a_k +/- b_k for every k, length of the longer operand, tolerance of the left operand",
    "Mul<N>, Div<N>, MulAssign<N>, DivAssign<N>, Neg (owned and borrowed): every coefficient scaled / divided / negated, length and tolerance kept",
    "pad_power_of_two (unit fft_helpers; what dft() prepares its input with): the polynomial is unchanged -- every coefficient, read as 0 beyond the stored ones, is kept, tolerance kept -- and the new length "
    "is the larger of the old length and the SMALLEST power of two >= size (bit-vector reasoning for `power <<= 1`; sizes up to 2^30)",
    "bit_reverse (unit fft_helpers): the result is the num_bits-bit reversal of k (recursive specification brev: bit j-1-i of the result is bit i of k) and therefore an index below 2^num_bits (num_bits <= 30; "
    "or / shift / mask steps by bit-vector reasoning)",
    "bit_reverse_copy (unit fft_helpers): the result has the input's length and every write `result[bit_reverse(k, num_bits)]` is inside it (index below 2^num_bits <= len), for inputs up to 2^30 entries",
    "multiply(): scalar paths and both linear-factor paths return exactly the stated combination, which is proved to be the convolution sum_{i} a_i b_{k-i} (lemma_exact_paths_are_convolution); all Mul/MulAssign forms dispatch to it",
]
NOT_DECIDED = [
    "bit_reverse_copy: that the result is the bit-reversal PERMUTATION of the input (needs injectivity of the reversal; only length and in-bounds writes are decided); dft, idft: not under contract",
    "the FFT path of multiply() (both operands of degree >= 2): dft/idft are trusted stubs that promise only a non-empty result; nothing about the product's coefficients, degree, commutativity or the DFT/inverse-DFT identities is decided",
    "complex coefficients (the pinned tree conjugated complex FFT products through sqrt(-1-0i) = -i: invisible to the contracts, found by the bounded witness probe witness/src/bin/c11.rs and fixed upstream-style)",
    "rounding bound proportional to machine epsilon",
    "commutativity and agreement with pointwise multiplication of values (follow from the convolution form on the exact paths; not stated as lemmas)",
]
ASSUMPTIONS = [
    "unit fft_helpers, rule R39: `vec![zero; len]` is a vector of length len (std); `(len as f64).log2() as usize` is the floor of the binary logarithm of len (trusted: exact for len <= 2^30); sizes bounded by 2^30 (preconditions)",
    "trusted axiom (prelude/stdx.rs): slice elements that an iter_mut().take(m) never yields keep their values",
    "trusted shim vx_vec_from_slice for Vec::from(&[R])",
    "operand lengths sum below usize::MAX (Vec::with_capacity(max) / bound*2 arithmetic)",
    "Div by a scalar: contract stated for rhs != 0 (division by zero yields an unspecified real)",
    "Neg for &Polynomial: body hoisted into a free function (R15) and proved in unit poly_neg_ref; unit poly_ops sees its contract only",
]
