"""C11 -- polynomial arithmetic (the 32 operator impls and multiply) in src/polynomial/mod.rs."""
from vx.unit import Unit
from vx.rules import COPIED
from specs_polycommon import *

def units(ctx):
    u = Unit("C11", "poly_ops", preludes=("real", "stdx"), cfg=cfg())
    all_ops(u)
    u.timeout = 1200
    # sibling unit: the hoisted body of `Neg for &Polynomial`, proved against the same contract text
    u2 = Unit("C11", "poly_neg_ref", preludes=("real", "stdx"), cfg=cfg())
    u2.item(PFILE, "struct", "Polynomial")
    u2.spec(POLY_SPEC)
    u2.spec(SPEC)
    im = u2.impl(PFILE, "ops::Neg for &Polynomial<N>")
    im.only_hoisted = True
    f = im.fn("neg")
    f.ens("is_negated(res, *self)")
    f.opt(subst=[("|c|", "|c: &R|", "R7-closure-param-type")], hoist=True)
    f.closure(1, ret="y: R", ensures=["y@ == -(*c)@"])
    return [u, u2]


DECIDED = [
    "all 9 Add / 9 Sub forms (owned, borrowed, assigning; scalar and polynomial right operands): coefficient k of the result is a_k +/- b_k for every k, length of the longer operand, tolerance of the left operand",
    "Mul<N>, Div<N>, MulAssign<N>, DivAssign<N>, Neg (owned and borrowed): every coefficient scaled / divided / negated, length and tolerance kept",
    "multiply(): scalar paths and both linear-factor paths return exactly the stated combination, which is proved to be the convolution sum_{i} a_i b_{k-i} (lemma_exact_paths_are_convolution); all Mul/MulAssign forms dispatch to it",
]
NOT_DECIDED = [
    "the FFT path of multiply() (both operands of degree >= 2): dft/idft are trusted stubs that promise only a non-empty result; nothing about the product's coefficients, degree, commutativity or the DFT/inverse-DFT identities is decided",
    "complex coefficients (the pinned tree conjugated complex FFT products through sqrt(-1-0i) = -i: invisible to the contracts, found by the bounded witness probe witness/src/bin/c11.rs and fixed upstream-style)",
    "rounding bound proportional to machine epsilon",
    "commutativity and agreement with pointwise multiplication of values (follow from the convolution form on the exact paths; not stated as lemmas)",
]
ASSUMPTIONS = [
    "trusted axiom (prelude/stdx.rs): slice elements that an iter_mut().take(m) never yields keep their values",
    "trusted shim vx_vec_from_slice for Vec::from(&[R])",
    "operand lengths sum below usize::MAX (Vec::with_capacity(max) / bound*2 arithmetic)",
    "Div by a scalar: contract stated for rhs != 0 (division by zero yields an unspecified real)",
    "Neg for &Polynomial: body hoisted into a free function (R15) and proved in unit poly_neg_ref; unit poly_ops sees its contract only",
]
