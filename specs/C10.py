"""C10 -- every tabulated quadrature rule (src/integrate/tables.rs): ground obligations.

This check must run under python3-vt (mpmath); ./check re-execs accordingly."""
import concurrent.futures as cf
import os
import time
from vx import tables as T
from vx.unit import WORK, REPO


def units(ctx):
    return []


def _row_job(args):
    fam, n, row, enc, wd = args
    text, names = T.row_script(fam, n, row, enc)
    path = os.path.join(wd, f"{fam}_{n:03d}.smt2")
    with open(path, "w") as fh:
        fh.write(text)
    lines, ms = T.run_z3(path, 600)
    return fam, n, names, lines, ms, path


def extra_obligations(ctx):
    tp = T.TableParser(REPO)
    tabs = tp.tables()
    enc = T.enclosures()
    wd = os.path.join(WORK, "C10")
    os.makedirs(wd, exist_ok=True)
    res = {"obligations": [], "failed": [], "undecided": [], "by_backend": {"z3-ground": 0, "mpmath-iv": 0},
           "trusted": ["stand-alone z3 4.8.12 on exact rational ground terms", "mpmath 1.3 interval arithmetic (tanh-sinh clause)",
                       "table reader vx/tables.py: literals and const expressions evaluated to the exact binary64 value they denote",
                       "closed-form moments 2/(k+1), k!, sqrt(pi)(k-1)!!/2^(k/2), pi(k-1)!!/k!!, pi(k-1)!!/(k+2)!!; pi and sqrt(pi) as 40-digit rational enclosures"],
           "solver_ms": 0, "cmds": [], "samples": []}
    jobs = []
    for fam, (tab, sym, dom) in T.FAMILIES.items():
        if tab not in tabs:
            res["undecided"].append(f"anchor lost: table {tab}")
            continue
        rows, line = tabs[tab]
        for n, row in enumerate(rows, 1):
            jobs.append((fam, n, row, enc, wd))
    # big rows first
    jobs.sort(key=lambda j: -len(j[2]) * j[1])
    with cf.ThreadPoolExecutor(max_workers=15) as ex:
        for fam, n, names, lines, ms, path in ex.map(_row_job, jobs):
            res["solver_ms"] += ms
            for i, nm in enumerate(names):
                ob = f"C10/{fam}/{nm}"
                res["obligations"].append(ob)
                res["by_backend"]["z3-ground"] += 1
                st = lines[i] if i < len(lines) else "missing"
                if st == "unsat":
                    continue
                if st == "sat":
                    row = [j for j in jobs if j[0] == fam and j[1] == n][0][2]
                    res["failed"].append(dict(obligation=ob, fn=None, kind="ground", src=f"{T.TABLE_FILE}:{row[0][2]}",
                                              message=f"table row violates `{nm}` (z3: sat for the negated obligation)",
                                              rendered=f"script {path}; row starts at {T.TABLE_FILE}:{row[0][2]}"))
                else:
                    res["undecided"].append(f"{ob}: z3 answered {st}")
            if len(res["samples"]) < 3:
                res["samples"].append({"obligation": f"C10/{fam}/{names[-1]}", "script": path, "z3": lines[-1] if lines else None, "ms": ms})
    # tanh-sinh
    if "WEIGHTS_DE" in tabs:
        rows, line = tabs["WEIGHTS_DE"]
        if len(rows) != 7:
            res["failed"].append(dict(obligation="C10/tanh_sinh/levels", fn=None, kind="ground", src=f"{T.TABLE_FILE}:{line}",
                                      message=f"tanh-sinh table has {len(rows)} levels, expected 7", rendered=""))
        res["obligations"].append("C10/tanh_sinh/levels")
        res["by_backend"]["mpmath-iv"] += 1
        for nm, ok, ln in T.de_formula_check(rows):
            ob = f"C10/tanh_sinh/{nm}"
            res["obligations"].append(ob)
            res["by_backend"]["mpmath-iv"] += 1
            if not ok:
                res["failed"].append(dict(obligation=ob, fn=None, kind="ground", src=f"{T.TABLE_FILE}:{ln}",
                                          message="tanh-sinh pair is not the double-exponential formula at its level and index",
                                          rendered=f"{T.TABLE_FILE}:{ln}"))
    else:
        res["undecided"].append("anchor lost: table WEIGHTS_DE")
    res["cmds"].append(f"z3 -smt2 on {len(jobs)} generated scripts under {wd} (one push/pop check-sat per obligation); mpmath.iv for WEIGHTS_DE")
    return res


DECIDED = ["row n of every Gaussian table expands to exactly n points (centre once, other nodes mirrored)",
           "nodes distinct and inside the integration domain, weights positive",
           "every even moment k <= 2n-1 (every moment for Gauss-Laguerre) equals its closed form within the stated rounding slack; odd moments of the mirrored rules vanish identically",
           "every tanh-sinh (weight, abscissa) pair lies within 2^-50 relative of the double-exponential formula at its level and index"]
NOT_DECIDED = ["differences below the rounding slack ((k+2) 2^-46 relative for Legendre/Chebyshev, (k+2) 2^-38 for Hermite/Laguerre), e.g. a change in the last two or three printed digits"]
ASSUMPTIONS = ["Rust parses a decimal literal to the nearest binary64 and evaluates `a * b` on constants with correct rounding (as Python float does)",
               "the integrators consume the rows as gaussian.rs does: `if x == 0 { w f(0) } else { w (f(x) + f(-x)) }` (Laguerre: w f(x)); that consumption itself is under contract in C09"]
EXHAUSTIVE = True
