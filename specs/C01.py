"""C01 -- IVP solution paths are ordered, gap-bounded and reach the end time (src/ivp.rs, src/ivp/rk.rs, adams.rs, bdf.rs).

The step() functions are the ones verified for C03 (same extraction, same contracts); what C01 reads off those contracts is
the part about the solver's clock: where an accepted point lies, how far it is from the previous one, when Done is answered,
and (lemma_reaches_end, over whole histories of calls) that a solve answered Done ends exactly at the end time."""
from vx.run import load_spec

C03 = load_spec("C03")
C06 = load_spec("C06")


def units(ctx):
    return [C06.euler_step_unit("C01"), C03.rk_step_unit("C01")[0], C03.adams_solver_unit("C01")[0], C03.bdf_solver_unit("C01")[0]]


DECIDED = [
    "RungeKuttaSolver::step (both Runge-Kutta solvers): an accepted point has old time < t <= end and t - old time <= dt_max (0 < dt <= dt_max is an invariant of the solver); "
    "a rejected trial (Redo) leaves time and state unchanged; Done is answered exactly when time >= end; the final step is clipped to land on the end time",
    "clock contract + lemma_reaches_end (whole histories of step() calls, by induction): if a Runge-Kutta solve that started before the end is answered Done without a failure, "
    "it accepted at least one step and after the last accepted step the solver's time -- the time of the last yielded point -- equals the end time exactly",
    "EulerSolver::step: yields (time, state) BEFORE advancing (so the initial state comes first), advances by min(dt, end - time) > 0, Done exactly when time >= end: one point per step time strictly before the end",
    "AdamsSolver::step (Adams3/Adams5): every point produced by a call has old time < t <= end and is within dt_max of the solver's previous time; the final step lands exactly on the end; "
    "start-up points that still wait to be yielded are never abandoned: Done is not answered, and the final clipped step is not taken, while yield_memory == O with a full history "
    "(hist invariant: their validating multistep step fits before the end)",
    "BDFSolver::step (BDF2/BDF6): the same clauses as for Adams (ordered, in the interval, gap-bounded per call; final step on the end; no abandoned start-up points; rewind by order * dt after a rejected start-up)",
    "Adams / BDF, all regimes of step() (start-up taken, start-up points handed out from memory, kept-aside point handed over, accepted / rejected multistep trial, single RK4 steps near the end, "
    "final clipped step, Done): the transition summary mtrans(old -> final, res) is a postcondition of the real step(); lemma_mclock derives from it and the history invariant that the YIELD CLOCK "
    "(the time of the last point handed out, read off the solver's fields: it lags the solver's own time while start-up points are held back) obeys the clock contract, "
    "that every yielded point is the new clock value, strictly later than the previous one, inside the interval and within dt_max of it",
    "lemma_mreaches_end (whole histories of step() calls on Adams / BDF, by induction): a solve that starts before the end, never fails and is answered Done has yielded at least one point, "
    "the LAST yielded point is exactly the end time, and every yielded point lies within dt_max after the previous one",
]
DECIDED.append(
    "'every solver built with valid parameters': RungeKutta::solve / Adams::solve / BDF::solve (in the same units) return a solver that satisfies the invariant the step() contracts require "
    "(0 < dt = (dt_min + dt_max)/2 <= dt_max, time < end, empty history, constants, tables of the right shape), so the clauses above hold from the first call on")
DECIDED.append("every yielded state has the dimension of the solver's state (postcondition of step() for Runge-Kutta, Adams and BDF -- for the start-up points through the history invariant; for Euler the yielded state IS the stored state)")
NOT_DECIDED = [
    "Adams only: a multistep trial whose error estimate is exactly zero (division by it in the step-size update; the invariant is not re-established there and lemma_mclock does not apply to that call)",
    "termination (a solver may answer Redo forever) and finiteness of the entries of the states (exact reals have no NaN/inf)",
    "IVPIterator::next turning step() results into items is decided in C06 (iterator unit)",
]
ASSUMPTIONS = C03.ASSUMPTIONS if hasattr(C03, "ASSUMPTIONS") else []
