"""C13 -- polynomial evaluation, calculus, coefficient access (src/polynomial/mod.rs)."""
from vx.unit import Unit
from vx.rules import COPIED
from specs_polycommon import *


LEMMAS = r'''
// ---- property-level lemmas over the contracts -------------------------------------------
// Horner value == coefficient expansion  sum c_k x^k
pub proof fn lemma_horner_expansion_from(s: Seq<R>, j: int, x: real)
    requires 0 <= j <= s.len()
    ensures hs(s, j, x) * rpowi(x, j) + psum(s, j, x) == psum(s, s.len() as int, x)
    decreases s.len() - j
{
    if j == s.len() {
        assert(hs(s, j, x) == 0real);
        assert(0real * rpowi(x, j) == 0real) by(nonlinear_arith);
    } else {
        lemma_horner_expansion_from(s, j + 1, x);
        let a = s[j]@; let b = hs(s, j + 1, x); let p = rpowi(x, j);
        assert(hs(s, j, x) == a + x * b);
        assert(rpowi(x, j + 1) == x * p);
        assert((a + x * b) * p == a * p + b * (x * p)) by(nonlinear_arith);
        assert(psum(s, j + 1, x) == psum(s, j, x) + coef(s, j) * rpowi(x, j));
    }
}
pub proof fn lemma_horner_expansion(p: Polynomial, x: real)
    ensures pval(p, x) == psum(p.coefficients@, p.coefficients@.len() as int, x)
{
    lemma_horner_expansion_from(p.coefficients@, 0, x);
    assert(rpowi(x, 0) == 1real);
    assert(hs(p.coefficients@, 0, x) * 1real == hs(p.coefficients@, 0, x)) by(nonlinear_arith);
    assert(psum(p.coefficients@, 0, x) == 0real);
}
// W(s,m,x) = sum_{k>=m} k c_k x^(k-m)
pub open spec fn hw(s: Seq<R>, m: int, x: real) -> real
    decreases s.len() - m
{ if m < 0 || m >= s.len() { 0real } else { m as real * s[m]@ + x * hw(s, m + 1, x) } }
pub proof fn lemma_hsd_hw(s: Seq<R>, m: int, x: real)
    requires 0 <= m <= s.len()
    ensures hsd(s, m, x) == hw(s, m, x) - (m - 1) as real * hs(s, m, x)
    decreases s.len() - m
{
    if m == s.len() {
        assert((m - 1) as real * 0real == 0real) by(nonlinear_arith);
    } else {
        lemma_hsd_hw(s, m + 1, x);
        let c = s[m]@; let h1 = hs(s, m + 1, x); let w1 = hw(s, m + 1, x); let d1 = hsd(s, m + 1, x); let mr = m as real;
        assert(hs(s, m, x) == c + x * h1);
        assert(hw(s, m, x) == mr * c + x * w1);
        assert(hsd(s, m, x) == hs(s, m, x) + x * d1);
        assert(d1 == w1 - mr * h1);
        assert((m - 1) as real == mr - 1real);
        assert(c + x * h1 + x * (w1 - mr * h1) == mr * c + x * w1 - (mr - 1real) * (c + x * h1)) by(nonlinear_arith);
    }
}
// d is the derivative coefficient sequence of s
pub open spec fn is_deriv(d: Seq<R>, s: Seq<R>) -> bool {
    s.len() >= 2 && d.len() == s.len() - 1 && forall|k: int| 0 <= k < d.len() ==> d[k]@ == (k + 1) as real * s[k + 1]@
}
pub proof fn lemma_hw_shift(d: Seq<R>, s: Seq<R>, m: int, x: real)
    requires is_deriv(d, s), 0 <= m <= d.len()
    ensures hs(d, m, x) == hw(s, m + 1, x)
    decreases d.len() - m
{
    if m < d.len() {
        lemma_hw_shift(d, s, m + 1, x);
        assert(hs(d, m, x) == d[m]@ + x * hs(d, m + 1, x));
        assert(hw(s, m + 1, x) == (m + 1) as real * s[m + 1]@ + x * hw(s, m + 2, x));
    } else {
        assert(hs(d, m, x) == 0real);
        assert(hw(s, m + 1, x) == 0real);
    }
}
// evaluate_derivative(x).1 == derivative().evaluate(x)
pub proof fn lemma_derivative_value(d: Polynomial, p: Polynomial, x: real)
    requires is_deriv(d.coefficients@, p.coefficients@)
    ensures hsd(p.coefficients@, 1, x) == pval(d, x)
{
    lemma_hsd_hw(p.coefficients@, 1, x);
    lemma_hw_shift(d.coefficients@, p.coefficients@, 0, x);
    assert(0real * hs(p.coefficients@, 1, x) == 0real) by(nonlinear_arith);
}
// differentiating an antiderivative gives the polynomial back, coefficient by coefficient
pub proof fn lemma_deriv_of_antideriv(c: real, k: int)
    requires k >= 0
    ensures (k + 1) as real * (c * (1real / (k + 1) as real)) == c
{
    let n = (k + 1) as real;
    assert(n * (c * (1real / n)) == c) by(nonlinear_arith) requires n >= 1real;
}
// from_slice / get_coefficients round trip
pub proof fn lemma_roundtrip(d: Seq<R>)
    ensures d.reverse().reverse() =~= d
{ }
'''


def units(ctx):
    u = Unit("C13", "poly_basic", cfg=cfg())
    u.item(PFILE, "struct", "Polynomial")
    u.spec(POLY_SPEC)
    u.spec(HSD_SPEC)
    u.spec(LEMMAS)
    add_basic(u)
    return [u]


DECIDED = [
    "evaluate(x) == Horner value == coefficient expansion sum c_k x^k (lemma_horner_expansion)",
    "evaluate_derivative(x) == (p(x), p'(x)) where p'(x) is proved equal to derivative().evaluate(x) (lemma_derivative_value)",
    "derivative(): c'_k = (k+1) c_{k+1}; antiderivative(C): c_0 = C, c_{k+1} = c_k/(k+1); derivative(antiderivative(p)) = p (lemma_deriv_of_antideriv)",
    "integrate(a,b) = A(b) - A(a) with A any antiderivative (additivity over adjacent intervals is then linear arithmetic)",
    "from_slice / get_coefficients reverse the slice; round trip (lemma_roundtrip); get_coefficient(k) = c_k or 0 beyond the end",
    "set_coefficient / purge_coefficient change exactly the named power; purging a power >= length changes nothing; purge_leading only removes leading coefficients with |c| <= tolerance",
]
NOT_DECIDED = ["Horner rounding bound (exact reals)", "complex coefficients (.imaginary() is 0 in the real instantiation)"]
ASSUMPTIONS = ["set_coefficient: power < u32::MAX and fewer than 2^32 coefficients (power + 1 / `len as u32` otherwise overflow or truncate)",
               "antiderivative/integrate: fewer than usize::MAX coefficients"]
