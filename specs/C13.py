"""C13 -- polynomial evaluation, calculus, coefficient access (src/polynomial/mod.rs)."""
from vx.unit import Unit
from vx.rules import COPIED
from specs_polycommon import cfg, POLY_SPEC, PFILE


LEMMAS = r'''
// ---- property-level lemmas over the contracts -------------------------------------------
// Horner value == coefficient expansion  sum c_k x^k
pub proof fn lemma_horner_expansion_from(s: Seq<R>, j: int, x: real)
    requires 0 <= j <= s.len()
    ensures hs(s, j, x) * rpowi(x, j) + psum(s, j, x) == psum(s, s.len() as int, x)
    decreases s.len() - j
{
    if j == s.len() {
        assert(hs(s, j, x) == 0real);
        assert(0real * rpowi(x, j) == 0real) by(nonlinear_arith);
    } else {
        lemma_horner_expansion_from(s, j + 1, x);
        let a = s[j]@; let b = hs(s, j + 1, x); let p = rpowi(x, j);
        assert(hs(s, j, x) == a + x * b);
        assert(rpowi(x, j + 1) == x * p);
        assert((a + x * b) * p == a * p + b * (x * p)) by(nonlinear_arith);
        assert(psum(s, j + 1, x) == psum(s, j, x) + coef(s, j) * rpowi(x, j));
    }
}
pub proof fn lemma_horner_expansion(p: Polynomial, x: real)
    ensures pval(p, x) == psum(p.coefficients@, p.coefficients@.len() as int, x)
{
    lemma_horner_expansion_from(p.coefficients@, 0, x);
    assert(rpowi(x, 0) == 1real);
    assert(hs(p.coefficients@, 0, x) * 1real == hs(p.coefficients@, 0, x)) by(nonlinear_arith);
    assert(psum(p.coefficients@, 0, x) == 0real);
}
// W(s,m,x) = sum_{k>=m} k c_k x^(k-m)
pub open spec fn hw(s: Seq<R>, m: int, x: real) -> real
    decreases s.len() - m
{ if m < 0 || m >= s.len() { 0real } else { m as real * s[m]@ + x * hw(s, m + 1, x) } }
pub proof fn lemma_hsd_hw(s: Seq<R>, m: int, x: real)
    requires 0 <= m <= s.len()
    ensures hsd(s, m, x) == hw(s, m, x) - (m - 1) as real * hs(s, m, x)
    decreases s.len() - m
{
    if m == s.len() {
        assert((m - 1) as real * 0real == 0real) by(nonlinear_arith);
    } else {
        lemma_hsd_hw(s, m + 1, x);
        let c = s[m]@; let h1 = hs(s, m + 1, x); let w1 = hw(s, m + 1, x); let d1 = hsd(s, m + 1, x); let mr = m as real;
        assert(hs(s, m, x) == c + x * h1);
        assert(hw(s, m, x) == mr * c + x * w1);
        assert(hsd(s, m, x) == hs(s, m, x) + x * d1);
        assert(d1 == w1 - mr * h1);
        assert((m - 1) as real == mr - 1real);
        assert(c + x * h1 + x * (w1 - mr * h1) == mr * c + x * w1 - (mr - 1real) * (c + x * h1)) by(nonlinear_arith);
    }
}
// d is the derivative coefficient sequence of s
pub open spec fn is_deriv(d: Seq<R>, s: Seq<R>) -> bool {
    s.len() >= 2 && d.len() == s.len() - 1 && forall|k: int| 0 <= k < d.len() ==> d[k]@ == (k + 1) as real * s[k + 1]@
}
pub proof fn lemma_hw_shift(d: Seq<R>, s: Seq<R>, m: int, x: real)
    requires is_deriv(d, s), 0 <= m <= d.len()
    ensures hs(d, m, x) == hw(s, m + 1, x)
    decreases d.len() - m
{
    if m < d.len() {
        lemma_hw_shift(d, s, m + 1, x);
        assert(hs(d, m, x) == d[m]@ + x * hs(d, m + 1, x));
        assert(hw(s, m + 1, x) == (m + 1) as real * s[m + 1]@ + x * hw(s, m + 2, x));
    } else {
        assert(hs(d, m, x) == 0real);
        assert(hw(s, m + 1, x) == 0real);
    }
}
// evaluate_derivative(x).1 == derivative().evaluate(x)
pub proof fn lemma_derivative_value(d: Polynomial, p: Polynomial, x: real)
    requires is_deriv(d.coefficients@, p.coefficients@)
    ensures hsd(p.coefficients@, 1, x) == pval(d, x)
{
    lemma_hsd_hw(p.coefficients@, 1, x);
    lemma_hw_shift(d.coefficients@, p.coefficients@, 0, x);
    assert(0real * hs(p.coefficients@, 1, x) == 0real) by(nonlinear_arith);
}
// differentiating an antiderivative gives the polynomial back, coefficient by coefficient
pub proof fn lemma_deriv_of_antideriv(c: real, k: int)
    requires k >= 0
    ensures (k + 1) as real * (c * (1real / (k + 1) as real)) == c
{
    let n = (k + 1) as real;
    assert(n * (c * (1real / n)) == c) by(nonlinear_arith) requires n >= 1real;
}
// from_slice / get_coefficients round trip
pub proof fn lemma_roundtrip(d: Seq<R>)
    ensures d.reverse().reverse() =~= d
{ }
'''


def units(ctx):
    u = Unit("C13", "poly_basic", cfg=cfg())
    u.item(PFILE, "struct", "Polynomial")
    u.spec(POLY_SPEC)
    u.spec(r'''
pub open spec fn rmaxi(a: int, b: int) -> int { if a >= b { a } else { b } }
// Horner accumulator for the derivative:  sum_{k>=m} (k-m+1) c_k x^(k-m)
pub open spec fn hsd(s: Seq<R>, m: int, x: real) -> real
    decreases s.len() - m
{ if m < 0 || m >= s.len() { 0real } else { hs(s, m, x) + x * hsd(s, m + 1, x) } }
''')
    u.spec(LEMMAS)
    im = u.impl(PFILE, "Polynomial<N>", header="impl Polynomial")
    f = im.fn("new")
    f.ens("res.wf()", "res.coefficients@.len() == 1", "res.c(0) == 0real", "res.tolerance@ == 1real / 10000000000real")
    f = im.fn("with_tolerance")
    f.ens("tolerance@ < 0real ==> res is Err",
          "res is Ok ==> res->Ok_0.coefficients@.len() == 1 && res->Ok_0.c(0) == 0real && res->Ok_0.tolerance == tolerance")
    f = im.fn("from_slice").opt(subst=COPIED)
    f.ens("res.wf()",
          "data@.len() == 0 ==> res.coefficients@.len() == 1 && res.c(0) == 0real",
          "data@.len() > 0 ==> res.coefficients@ == data@.reverse()")
    f = im.fn("order")
    f.req("self.wf()").ens("res == self.coefficients@.len() - 1")
    f = im.fn("get_coefficients")
    f.ens("res@ == self.coefficients@.reverse()")
    f = im.fn("get_coefficient")
    f.ens("res@ == self.c(ind as int)")
    f = im.fn("evaluate")
    f.req("self.wf()").ens("res@ == pval(*self, x@)")
    f.loop(1, iter="it", invariant=[
        "it.index@ + 1 <= self.coefficients@.len()",
        "acc@ == hs(self.coefficients@, self.coefficients@.len() - 1 - it.index@, x@)",
        "forall|k: int| 0 <= k < it.history@.len() ==> *it.history@[k] == self.coefficients@[self.coefficients@.len() - 2 - k]",
    ])
    f.hint("before loop 1", r"""proof {
        let s = self.coefficients@; let n = s.len() as int;
        assert(hs(s, n, x@) == 0real);
        assert(hs(s, n - 1, x@) == s[n - 1]@ + x@ * hs(s, n, x@));
    }""")
    f.hint("loop 1 begin", "let ghost acc0 = acc@; let ghost j = self.coefficients@.len() - 1 - it.index@;")
    f.hint("loop 1 end", r"""proof {
        let s = self.coefficients@;
        assert(*val == s[j - 1]);
        assert(acc0 * x@ == x@ * acc0) by(nonlinear_arith);
        assert(hs(s, j - 1, x@) == s[j - 1]@ + x@ * hs(s, j, x@));
    }""")
    more(u, im)
    return [u]


def more(u, im):
    f = im.fn("evaluate_derivative")
    f.req("self.wf()")
    f.ens("res.0@ == pval(*self, x@)",
          "res.1@ == hsd(self.coefficients@, 1, x@)")
    f.loop(1, iter="it", invariant=[
        "self.coefficients@.len() >= 2",
        "it.index@ + 2 <= self.coefficients@.len()",
        "acc_eval@ == hs(self.coefficients@, self.coefficients@.len() - 1 - it.index@, x@)",
        "acc_deriv@ == hsd(self.coefficients@, self.coefficients@.len() - 1 - it.index@, x@)",
        "forall|k: int| 0 <= k < it.history@.len() ==> *it.history@[k] == self.coefficients@[self.coefficients@.len() - 2 - k]",
    ])
    f.hint("before loop 1", r"""proof {
        let s = self.coefficients@; let n = s.len() as int;
        assert(hs(s, n, x@) == 0real);
        assert(hsd(s, n, x@) == 0real);
        assert(hs(s, n - 1, x@) == s[n - 1]@ + x@ * hs(s, n, x@));
        assert(hsd(s, n - 1, x@) == hs(s, n - 1, x@) + x@ * hsd(s, n, x@));
    }""")
    f.hint("loop 1 begin", "let ghost e0 = acc_eval@; let ghost d0 = acc_deriv@; let ghost j = self.coefficients@.len() - 1 - it.index@;")
    f.hint("loop 1 end", r"""proof {
        let s = self.coefficients@;
        assert(*val == s[j - 1]);
        assert(e0 * x@ == x@ * e0) by(nonlinear_arith);
        assert(d0 * x@ == x@ * d0) by(nonlinear_arith);
        assert(hs(s, j - 1, x@) == s[j - 1]@ + x@ * hs(s, j, x@));
        assert(hsd(s, j - 1, x@) == hs(s, j - 1, x@) + x@ * hsd(s, j, x@));
    }""")
    f.hint("after loop 1", r"""proof {
        let s = self.coefficients@;
        assert(hs(s, 0, x@) == s[0]@ + x@ * hs(s, 1, x@));
    }""")
    f.hint("before: return (self.coefficients[0]", r"""proof {
        let s = self.coefficients@;
        assert(hs(s, 1, x@) == 0real);
        assert(hs(s, 0, x@) == s[0]@ + x@ * hs(s, 1, x@));
        assert(hsd(s, 1, x@) == 0real);
    }""")

    f = im.fn("set_coefficient")
    f.req("old(self).wf()", "power < u32::MAX", "old(self).coefficients@.len() < u32::MAX")
    f.ens("final(self).wf()",
          "final(self).c(power as int) == coefficient@",
          "forall|j: int| j != power ==> final(self).c(j) == old(self).c(j)",
          "final(self).coefficients@.len() == if old(self).coefficients@.len() > power { old(self).coefficients@.len() } else { power as nat + 1 }",
          "final(self).tolerance == old(self).tolerance")
    f.loop(1, invariant=[
        "self.coefficients@.len() >= old(self).coefficients@.len()",
        "self.coefficients@.len() <= rmaxi(old(self).coefficients@.len() as int, power + 1)",
        "forall|j: int| self.c(j) == old(self).c(j)",
        "self.tolerance == old(self).tolerance",
    ], decreases="power + 1 - self.coefficients@.len()")

    f = im.fn("purge_coefficient")
    f.req("old(self).wf()")
    f.ens("final(self).wf()",
          "final(self).c(power as int) == 0real",
          "forall|j: int| j != power ==> final(self).c(j) == old(self).c(j)",
          "power >= old(self).coefficients@.len() ==> final(self).coefficients@ == old(self).coefficients@",
          "final(self).tolerance == old(self).tolerance")

    f = im.fn("purge_leading")
    f.req("old(self).wf()")
    f.ens("final(self).wf()",
          "final(self).coefficients@.len() <= old(self).coefficients@.len()",
          "forall|j: int| 0 <= j < final(self).coefficients@.len() ==> final(self).coefficients@[j] == old(self).coefficients@[j]",
          "forall|j: int| final(self).coefficients@.len() <= j < old(self).coefficients@.len() ==> rabs(old(self).c(j)) <= old(self).tolerance@",
          "final(self).coefficients@.len() == 1 || rabs(final(self).c(final(self).coefficients@.len() - 1)) > final(self).tolerance@",
          "final(self).tolerance == old(self).tolerance")
    f.loop(1, invariant=[
        "self.wf()", "self.tolerance == old(self).tolerance",
        "self.coefficients@.len() <= old(self).coefficients@.len()",
        "forall|j: int| 0 <= j < self.coefficients@.len() ==> self.coefficients@[j] == old(self).coefficients@[j]",
        "forall|j: int| self.coefficients@.len() <= j < old(self).coefficients@.len() ==> rabs(old(self).c(j)) <= old(self).tolerance@",
    ], decreases="self.coefficients@.len()")

    f = im.fn("derivative")
    f.opt(subst=[("let mut deriv_coeff =", "let mut deriv_coeff: Vec<R> =", "R10-type-annotation")])
    f.req("self.wf()")
    f.ens("res.wf()", "res.tolerance == self.tolerance",
          "self.coefficients@.len() == 1 ==> res.coefficients@.len() == 1 && res.c(0) == 0real",
          "self.coefficients@.len() > 1 ==> res.coefficients@.len() == self.coefficients@.len() - 1",
          "forall|k: int| 0 <= k ==> res.c(k) == (k + 1) as real * self.c(k + 1)")
    f.loop(1, iter="it", invariant=[
        "i == it.index@ + 1", "it.index@ + 1 <= self.coefficients@.len()",
        "deriv_coeff@.len() == it.index@",
        "forall|k: int| 0 <= k < it.index@ ==> deriv_coeff@[k]@ == (k + 1) as real * self.coefficients@[k + 1]@",
        "forall|k: int| 0 <= k < it.history@.len() ==> *it.history@[k] == self.coefficients@[k + 1]",
    ])

    f = im.fn("antiderivative")
    f.req("self.wf()", "self.coefficients@.len() < usize::MAX")
    f.ens("res.wf()", "res.tolerance == self.tolerance",
          "res.coefficients@.len() == self.coefficients@.len() + 1",
          "res.c(0) == constant@",
          "forall|k: int| 0 <= k < self.coefficients@.len() ==> res.c(k + 1) == self.c(k) * (1real / (k + 1) as real)")
    f.loop(1, iter="it", invariant=[
        "ind == it.index@", "it.index@ <= self.coefficients@.len()",
        "coefficients@.len() == it.index@ + 1", "coefficients@[0] == constant",
        "forall|k: int| 0 <= k < it.index@ ==> coefficients@[k + 1]@ == self.coefficients@[k]@ * (1real / (k + 1) as real)",
        "forall|k: int| 0 <= k < it.history@.len() ==> *it.history@[k] == self.coefficients@[k]",
    ])

    f = im.fn("integrate")
    f.req("self.wf()", "self.coefficients@.len() < usize::MAX")
    f.ens("exists|a: Polynomial| #![trigger a.wf()] a.wf() && a.coefficients@.len() == self.coefficients@.len() + 1 "
          "&& (forall|k: int| 0 <= k < self.coefficients@.len() ==> a.c(k + 1) == self.c(k) * (1real / (k + 1) as real)) "
          "&& res@ == pval(a, upper@) - pval(a, lower@)")



DECIDED = [
    "evaluate(x) == Horner value == coefficient expansion sum c_k x^k (lemma_horner_expansion)",
    "evaluate_derivative(x) == (p(x), p'(x)) where p'(x) is proved equal to derivative().evaluate(x) (lemma_derivative_value)",
    "derivative(): c'_k = (k+1) c_{k+1}; antiderivative(C): c_0 = C, c_{k+1} = c_k/(k+1); derivative(antiderivative(p)) = p (lemma_deriv_of_antideriv)",
    "integrate(a,b) = A(b) - A(a) with A any antiderivative (additivity over adjacent intervals is then linear arithmetic)",
    "from_slice / get_coefficients reverse the slice; round trip (lemma_roundtrip); get_coefficient(k) = c_k or 0 beyond the end",
    "set_coefficient / purge_coefficient change exactly the named power; purging a power >= length changes nothing; purge_leading only removes leading coefficients with |c| <= tolerance",
]
NOT_DECIDED = ["Horner rounding bound (exact reals)", "complex coefficients (.imaginary() is 0 in the real instantiation)"]
ASSUMPTIONS = ["set_coefficient: power < u32::MAX and fewer than 2^32 coefficients (power + 1 / `len as u32` otherwise overflow or truncate)",
               "antiderivative/integrate: fewer than usize::MAX coefficients"]
