"""C06 -- IVP builders validate input; user errors end iteration exactly once."""
from vx.unit import Unit
from specs_ivpcommon import cfg
from vx.run import load_spec

C03 = load_spec("C03")      # solve() of the three adaptive builders lives in the C03 solver units (it must establish their invariant)

LIB, IVP = "src/lib.rs", "src/ivp.rs"


def dimension_unit():
    u = Unit("C06", "dimension", preludes=("real", "ivp"), cfg=cfg())
    u.item(LIB, "enum", "DimensionError")
    u.item(IVP, "enum", "IVPError")
    im = u.impl(LIB, "Dimension for Const<C>")
    im.extra = ("    open spec fn static_size() -> Option<nat> { Some(C as nat) }\n"
                "    open spec fn size(&self) -> nat { C as nat }")
    im.fn("dim"); im.fn("dim_dyn")
    im = u.impl(LIB, "Dimension for Dyn")
    im.extra = ("    open spec fn static_size() -> Option<nat> { None }\n"
                "    open spec fn size(&self) -> nat { self.0 as nat }")
    im.fn("dim"); im.fn("dim_dyn")
    u.spec("""impl vstd::std_specs::convert::FromSpecImpl<DimensionError> for IVPError {
    open spec fn obeys_from_spec() -> bool { true }
    open spec fn from_spec(v: DimensionError) -> IVPError {
        match v { DimensionError::DynamicOnStatic => IVPError::DynamicOnStatic, DimensionError::StaticOnDynamic => IVPError::StaticOnDynamic }
    }
}""")
    im = u.impl(IVP, "From<DimensionError> for IVPError")
    f = im.fn("from")
    f.ens("value is DynamicOnStatic ==> res is DynamicOnStatic", "value is StaticOnDynamic ==> res is StaticOnDynamic")
    return u


FROM_DIM = """impl vstd::std_specs::convert::FromSpecImpl<DimensionError> for IVPError {
    open spec fn obeys_from_spec() -> bool { true }
    open spec fn from_spec(v: DimensionError) -> IVPError {
        match v { DimensionError::DynamicOnStatic => IVPError::DynamicOnStatic, DimensionError::StaticOnDynamic => IVPError::StaticOnDynamic }
    }
}"""
def qmark(expr):
    """R16: `E?` whose error is converted (From) is spelled out as Rust defines it -- Verus only links the
    converted error to the From impl in this form"""
    return (expr + "?", "(match " + expr + " { Ok(v_) => v_, Err(e_) => return Err(From::from(e_)) })", "R16-question-mark-convert")


GEN = "<D: Dimension, T: Clone, F: FnMut(R, &[R], &mut T) -> Result<V, UserError>>"


def common_items(u, solver_struct, solver_drop):
    u.item(LIB, "enum", "DimensionError")
    u.item(IVP, "enum", "IVPError")
    u.item(IVP, "enum", "IVPStatus")
    u.spec(FROM_DIM)
    im = u.impl(IVP, "From<DimensionError> for IVPError")
    im.fn("from").ens("value is DynamicOnStatic ==> res is DynamicOnStatic", "value is StaticOnDynamic ==> res is StaticOnDynamic")
    # IVPIterator<D, T: IVPStepper<D>>: the dimension parameter only feeds PhantomData
    itcfg = cfg()
    itcfg.drop_generics = {"D"}
    itcfg.type_subst = [(["T", ":", "IVPStepper", "<", "D", ">"], "T")] + itcfg.type_subst
    u.item(IVP, "struct", "IVPIterator", drop_fields=("_dim",), cfg=itcfg)


def euler_unit():
    c = cfg(extra=[("IVPIterator<D, Self::Solver>", "IVPIterator<EulerSolver<D, T, F>>"),
                   ("Euler<'a, N, D, T, F>", "Euler<D, T, F>"), ("EulerSolver<'a, N, D, T, F>", "EulerSolver<D, T, F>")])
    u = Unit("C06", "euler_builder", preludes=("real", "ivp"), cfg=c)
    common_items(u, "EulerSolver", ("_lifetime",))
    u.item(IVP, "struct", "Euler")
    u.item(IVP, "struct", "EulerSolver")
    u.spec("""
impl""" + GEN + """ Euler<D, T, F> {
    // every supplied step is positive; both times supplied ==> start < end
    pub open spec fn wf(&self) -> bool {
        (self.init_dt is Some ==> self.init_dt->Some_0@ > 0real)
        && (self.init_time is Some && self.init_end is Some ==> self.init_time->Some_0@ < self.init_end->Some_0@)
    }
    pub open spec fn complete(&self) -> bool {
        self.init_dt is Some && self.init_time is Some && self.init_end is Some && self.init_state is Some && self.init_derivative is Some
    }
}
pub open spec fn same_but_dt<D: Dimension, T: Clone, F: FnMut(R, &[R], &mut T) -> Result<V, UserError>>(a: Euler<D, T, F>, b: Euler<D, T, F>) -> bool {
    a.init_time == b.init_time && a.init_end == b.init_end && a.init_state == b.init_state && a.init_derivative == b.init_derivative && a.dim == b.dim
}
""")
    im = u.impl(IVP, "IVPSolver<'a, D> for Euler<'a, N, D, T, F>", header="impl" + GEN + " Euler<D, T, F>", keep_assoc=False)
    f = im.fn("new")
    f.opt(subst=[qmark("D::dim()")])
    f.ens("D::static_size() is Some ==> res is Ok && res->Ok_0.wf() && !res->Ok_0.complete() && res->Ok_0.dim.size() == D::static_size()->Some_0",
          "D::static_size() is None ==> res is Err && res->Err_0 is StaticOnDynamic")
    f = im.fn("new_dyn")
    f.opt(subst=[qmark("D::dim_dyn(size)")])
    f.ens("D::static_size() is None ==> res is Ok && res->Ok_0.wf() && res->Ok_0.dim.size() == size",
          "D::static_size() is Some ==> res is Err && res->Err_0 is DynamicOnStatic")
    f = im.fn("with_tolerance")
    f.req("self.wf()")
    f.ens("tol@ <= 0real ==> res is Err && res->Err_0 is ToleranceOOB", "tol@ > 0real ==> res is Ok && res->Ok_0 == self")
    for nm, arg in (("with_maximum_dt", "max"), ("with_minimum_dt", "min")):
        f = im.fn(nm)
        f.req("self.wf()")
        f.ens(f"{arg}@ <= 0real ==> res is Err && res->Err_0 is TimeDeltaOOB",
              f"{arg}@ > 0real ==> res is Ok && res->Ok_0.wf() && res->Ok_0.init_dt is Some && same_but_dt(res->Ok_0, self)",
              f"{arg}@ > 0real && self.init_dt is None ==> res->Ok_0.init_dt->Some_0@ == {arg}@")
    f = im.fn("with_initial_time")
    f.req("self.wf()")
    f.ens("self.init_end is Some && self.init_end->Some_0@ <= initial@ ==> res is Err && res->Err_0 is TimeStartOOB",
          "!(self.init_end is Some && self.init_end->Some_0@ <= initial@) ==> res is Ok && res->Ok_0.wf() && res->Ok_0.init_time == Some(initial) "
          "&& res->Ok_0.init_end == self.init_end && res->Ok_0.init_dt == self.init_dt && res->Ok_0.init_state == self.init_state && res->Ok_0.init_derivative == self.init_derivative")
    f = im.fn("with_ending_time")
    f.req("self.wf()")
    f.ens("self.init_time is Some && self.init_time->Some_0@ >= ending@ ==> res is Err && res->Err_0 is TimeEndOOB",
          "!(self.init_time is Some && self.init_time->Some_0@ >= ending@) ==> res is Ok && res->Ok_0.wf() && res->Ok_0.init_end == Some(ending) "
          "&& res->Ok_0.init_time == self.init_time && res->Ok_0.init_dt == self.init_dt && res->Ok_0.init_state == self.init_state && res->Ok_0.init_derivative == self.init_derivative")
    f = im.fn("with_initial_conditions")
    f.req("self.wf()")
    f.ens("res is Ok && res->Ok_0.wf() && res->Ok_0.init_state == Some(start) && res->Ok_0.init_dt == self.init_dt && res->Ok_0.init_time == self.init_time "
          "&& res->Ok_0.init_end == self.init_end && res->Ok_0.init_derivative == self.init_derivative")
    f = im.fn("with_derivative")
    f.req("self.wf()")
    f.ens("res.wf() && res.init_derivative == Some(derivative) && res.init_dt == self.init_dt && res.init_time == self.init_time "
          "&& res.init_end == self.init_end && res.init_state == self.init_state")
    f = im.fn("solve")
    f.req("self.wf()")
    f.ens("!self.complete() ==> res is Err && res->Err_0 is MissingParameters",
          "self.complete() ==> res is Ok && !res->Ok_0.finished "
          "&& res->Ok_0.solver.dt@ == self.init_dt->Some_0@ && res->Ok_0.solver.time@ == self.init_time->Some_0@ "
          "&& res->Ok_0.solver.end@ == self.init_end->Some_0@ && res->Ok_0.solver.state == self.init_state->Some_0 "
          "&& res->Ok_0.solver.dt@ > 0real && res->Ok_0.solver.time@ < res->Ok_0.solver.end@")
    return u


def adaptive_builder_unit(name, file, st, coef_param):
    """RungeKutta / Adams / BDF builders: identical validation code, one unit each"""
    CP = "RC" if coef_param == "R" else coef_param
    full = f"{st}<'a, N, D, O, T, F, {coef_param}>"
    decl = f"{st}<'a, N, D, const O: usize, T, F, {coef_param}>"
    new = f"{st}<D, O, T, F, {CP}>"
    extra = [(full, new), (f"PhantomData<&'a (T, {coef_param})>", f"PhantomData<(T, {CP})>")]
    if coef_param == "R":
        extra.append(("R", "RC"))      # the generic parameter named R in rk.rs (R is the number shim here)
    c = cfg(extra=extra)
    c.drop_where += [coef_param]
    c.drop_pred = ["D:DimMin<D,Output=D>"]
    u = Unit("C06", name, preludes=("real", "ivp"), cfg=c)
    common_items(u, None, None)
    u.item(file, "struct", st)
    G = f"<D: Dimension, const O: usize, T: Clone, F: FnMut(R, &[R], &mut T) -> Result<V, UserError>, {CP}>"
    TY = f"{st}<D, O, T, F, {CP}>"
    u.spec(f"""
impl{G} {TY} {{
    // supplied steps and tolerance positive; both steps supplied ==> min <= max; both times supplied ==> start < end
    pub open spec fn wf(&self) -> bool {{
        (self.init_dt_max is Some ==> self.init_dt_max->Some_0@ > 0real)
        && (self.init_dt_min is Some ==> self.init_dt_min->Some_0@ > 0real)
        && (self.init_tolerance is Some ==> self.init_tolerance->Some_0@ > 0real)
        && (self.init_dt_max is Some && self.init_dt_min is Some ==> self.init_dt_min->Some_0@ <= self.init_dt_max->Some_0@)
        && (self.init_time is Some && self.init_end is Some ==> self.init_time->Some_0@ < self.init_end->Some_0@)
    }}
    pub open spec fn empty(&self) -> bool {{
        self.init_dt_max is None && self.init_dt_min is None && self.init_tolerance is None && self.init_time is None
        && self.init_end is None && self.init_state is None && self.init_derivative is None
    }}
}}
// everything except the two step bounds is unchanged
pub open spec fn same_but_dt{G}(a: {TY}, b: {TY}) -> bool {{
    a.init_time == b.init_time && a.init_end == b.init_end && a.init_state == b.init_state && a.init_derivative == b.init_derivative
    && a.init_tolerance == b.init_tolerance && a.dim == b.dim
}}
pub open spec fn same_but_times{G}(a: {TY}, b: {TY}) -> bool {{
    a.init_dt_max == b.init_dt_max && a.init_dt_min == b.init_dt_min && a.init_state == b.init_state && a.init_derivative == b.init_derivative
    && a.init_tolerance == b.init_tolerance && a.dim == b.dim
}}
""")
    im = u.impl(file, f"IVPSolver<'a, D> for {full}", header=f"impl{G} {TY}", keep_assoc=False)
    f = im.fn("new")
    f.opt(subst=[qmark("D::dim()")])
    f.ens("D::static_size() is Some ==> res is Ok && res->Ok_0.wf() && res->Ok_0.empty() && res->Ok_0.dim.size() == D::static_size()->Some_0",
          "D::static_size() is None ==> res is Err && res->Err_0 is StaticOnDynamic")
    f = im.fn("new_dyn")
    f.opt(subst=[qmark("D::dim_dyn(size)")])
    f.ens("D::static_size() is None ==> res is Ok && res->Ok_0.wf() && res->Ok_0.empty() && res->Ok_0.dim.size() == size",
          "D::static_size() is Some ==> res is Err && res->Err_0 is DynamicOnStatic")
    f = im.fn("with_tolerance")
    f.req("self.wf()")
    f.ens("tol@ <= 0real ==> res is Err && res->Err_0 is ToleranceOOB",
          "tol@ > 0real ==> res is Ok && res->Ok_0.wf() && res->Ok_0.init_tolerance == Some(tol) && same_but_dt(self, Self { init_tolerance: self.init_tolerance, ..res->Ok_0 })"
          " && res->Ok_0.init_dt_max == self.init_dt_max && res->Ok_0.init_dt_min == self.init_dt_min")
    f = im.fn("with_maximum_dt")
    f.req("self.wf()")
    f.ens("max@ <= 0real ==> res is Err && res->Err_0 is TimeDeltaOOB",
          "max@ > 0real ==> res is Ok && res->Ok_0.wf() && res->Ok_0.init_dt_max == Some(max) && same_but_dt(res->Ok_0, self)",
          "max@ > 0real && self.init_dt_min is Some ==> res->Ok_0.init_dt_min is Some && res->Ok_0.init_dt_min->Some_0@ == rmin(self.init_dt_min->Some_0@, max@)",
          "max@ > 0real && self.init_dt_min is None ==> res->Ok_0.init_dt_min is None")
    f = im.fn("with_minimum_dt")
    f.req("self.wf()")
    f.ens("min@ <= 0real ==> res is Err && res->Err_0 is TimeDeltaOOB",
          "min@ > 0real ==> res is Ok && res->Ok_0.wf() && res->Ok_0.init_dt_min == Some(min) && same_but_dt(res->Ok_0, self)",
          "min@ > 0real && self.init_dt_max is Some ==> res->Ok_0.init_dt_max is Some && res->Ok_0.init_dt_max->Some_0@ == rmax(self.init_dt_max->Some_0@, min@)",
          "min@ > 0real && self.init_dt_max is None ==> res->Ok_0.init_dt_max is None")
    f = im.fn("with_initial_time")
    f.req("self.wf()")
    f.ens("self.init_end is Some && self.init_end->Some_0@ <= initial@ ==> res is Err && res->Err_0 is TimeStartOOB",
          "!(self.init_end is Some && self.init_end->Some_0@ <= initial@) ==> res is Ok && res->Ok_0.wf() && res->Ok_0.init_time == Some(initial) "
          "&& res->Ok_0.init_end == self.init_end && same_but_times(res->Ok_0, self)")
    f = im.fn("with_ending_time")
    f.req("self.wf()")
    f.ens("self.init_time is Some && self.init_time->Some_0@ >= ending@ ==> res is Err && res->Err_0 is TimeEndOOB",
          "!(self.init_time is Some && self.init_time->Some_0@ >= ending@) ==> res is Ok && res->Ok_0.wf() && res->Ok_0.init_end == Some(ending) "
          "&& res->Ok_0.init_time == self.init_time && same_but_times(res->Ok_0, self)")
    f = im.fn("with_initial_conditions")
    f.req("self.wf()")
    f.ens("res is Ok && res->Ok_0.wf() && res->Ok_0.init_state == Some(start) && res->Ok_0.init_time == self.init_time && res->Ok_0.init_end == self.init_end "
          "&& res->Ok_0.init_dt_max == self.init_dt_max && res->Ok_0.init_dt_min == self.init_dt_min && res->Ok_0.init_tolerance == self.init_tolerance "
          "&& res->Ok_0.init_derivative == self.init_derivative")
    f = im.fn("with_derivative")
    f.req("self.wf()")
    f.ens("res.wf() && res.init_derivative == Some(derivative) && res.init_time == self.init_time && res.init_end == self.init_end "
          "&& res.init_dt_max == self.init_dt_max && res.init_dt_min == self.init_dt_min && res.init_tolerance == self.init_tolerance "
          "&& res.init_state == self.init_state")
    return u


STEPPER_TRAIT = """
// src/ivp.rs `pub trait IVPStepper<D>` restated: step() is related to the stepper's states by an (implementation
// defined) relation, so that IVPIterator::next can be specified for every stepper
pub trait IVPStepper: Sized {
    spec fn step_rel(pre: Self, post: Self, r: Result<(R, V), IVPStatus<IVPError>>) -> bool;
    fn step(&mut self) -> (r: Result<(R, V), IVPStatus<IVPError>>)
        ensures Self::step_rel(*old(self), *final(self), r);
}
// a chain of Redo results leads from a to b
pub open spec fn redo_chain<T: IVPStepper>(a: T, b: T, s: Seq<T>) -> bool {
    s.len() >= 1 && s[0] == a && s[s.len() - 1] == b
    && forall|i: int| 0 <= i < s.len() - 1 ==> T::step_rel(#[trigger] s[i], s[i + 1], Err(IVPStatus::Redo))
}
pub open spec fn redo_reach<T: IVPStepper>(a: T, b: T) -> bool { exists|s: Seq<T>| #[trigger] redo_chain(a, b, s) }
pub proof fn lemma_redo_refl<T: IVPStepper>(a: T) ensures redo_reach(a, a) { assert(redo_chain(a, a, seq![a])); }
pub proof fn lemma_redo_extend<T: IVPStepper>(a: T, m: T, b: T)
    requires redo_reach(a, m), T::step_rel(m, b, Err(IVPStatus::Redo))
    ensures redo_reach(a, b)
{
    let s = choose|s: Seq<T>| #[trigger] redo_chain(a, m, s);
    let s2 = s.push(b);
    assert forall|i: int| 0 <= i < s2.len() - 1 implies T::step_rel(#[trigger] s2[i], s2[i + 1], Err(IVPStatus::Redo)) by {
        if i < s.len() - 1 { assert(s2[i] == s[i] && s2[i + 1] == s[i + 1]); } else { assert(s2[i] == m && s2[i + 1] == b); }
    }
    assert(redo_chain(a, b, s2));
}
// what one call of next() does, as a relation (this is next()'s postcondition)
pub open spec fn next_rel<T: IVPStepper>(pre: IVPIterator<T>, post: IVPIterator<T>, item: Option<Result<(R, V), IVPError>>) -> bool {
    &&& pre.finished ==> item is None && post == pre
    &&& !pre.finished ==> exists|s: T| #![trigger redo_reach(pre.solver, s)] redo_reach(pre.solver, s) && match item {
            Some(Ok(p)) => T::step_rel(s, post.solver, Ok(p)) && !post.finished,
            Some(Err(e)) => T::step_rel(s, post.solver, Err(IVPStatus::Failure(e))) && post.finished,
            None => T::step_rel(s, post.solver, Err(IVPStatus::Done)) && !post.finished,
        }
}
// a history of next() calls
pub open spec fn valid_history<T: IVPStepper>(st: Seq<IVPIterator<T>>, items: Seq<Option<Result<(R, V), IVPError>>>) -> bool {
    st.len() == items.len() + 1 && forall|i: int| 0 <= i < items.len() ==> #[trigger] next_rel(st[i], st[i + 1], items[i])
}
pub proof fn lemma_finished_sticks<T: IVPStepper>(st: Seq<IVPIterator<T>>, items: Seq<Option<Result<(R, V), IVPError>>>, i: int, j: int)
    requires valid_history(st, items), 0 <= i <= j <= items.len(), st[i].finished
    ensures st[j].finished
    decreases j - i
{
    if i < j { assert(next_rel(st[i], st[i + 1], items[i])); lemma_finished_sticks(st, items, i + 1, j); }
}
// C06: an Err item is followed by None forever, hence at most one Err item in any history
pub proof fn lemma_error_ends_iteration<T: IVPStepper>(st: Seq<IVPIterator<T>>, items: Seq<Option<Result<(R, V), IVPError>>>, i: int, j: int)
    requires valid_history(st, items), 0 <= i < j < items.len(), items[i] is Some, items[i]->Some_0 is Err
    ensures items[j] is None
{
    assert(next_rel(st[i], st[i + 1], items[i]));
    if st[i].finished { } else { assert(st[i + 1].finished); }
    lemma_finished_sticks(st, items, i + 1, j);
    assert(next_rel(st[j], st[j + 1], items[j]));
}
"""


def iterator_unit():
    c = cfg(extra=[("Self::Item", "Result<(R, V), IVPError>")])
    u = Unit("C06", "iterator", preludes=("real", "ivp"), cfg=c)
    u.item(LIB, "enum", "DimensionError")
    u.item(IVP, "enum", "IVPError")
    u.item(IVP, "enum", "IVPStatus")
    itcfg = cfg()
    itcfg.drop_generics = {"D"}
    itcfg.type_subst = [(["T", ":", "IVPStepper", "<", "D", ">"], "T")] + itcfg.type_subst
    u.item(IVP, "struct", "IVPIterator", drop_fields=("_dim",), cfg=itcfg)
    u.spec(STEPPER_TRAIT)
    im = u.impl(IVP, "Iterator for IVPIterator<D, T>", header="impl<T: IVPStepper> IVPIterator<T>", keep_assoc=False)
    f = im.fn("next")
    f.attrs.append("#[verifier::exec_allows_no_decreases_clause]")
    f.opt(tail_loop_return=True)
    f.ens("next_rel(*old(self), *final(self), res)")
    f.loop(1, invariant=["!self.finished", "redo_reach(old(self).solver, self.solver)"])
    f.hint("before loop 1", "proof { lemma_redo_refl(old(self).solver); }")
    f.hint("loop 1 begin", "let ghost s0 = self.solver;")
    f.opts.setdefault("subst", []).append(("Err(IE::Redo) => continue",
        "Err(IE::Redo) => { proof { lemma_redo_extend(old(self).solver, s0, self.solver); } continue }", "hint-in-match-arm"))
    # From<UserError> for IVPStatus<IVPError>
    u.spec("""impl vstd::std_specs::convert::FromSpecImpl<UserError> for IVPStatus<IVPError> {
    open spec fn obeys_from_spec() -> bool { true }
    open spec fn from_spec(v: UserError) -> IVPStatus<IVPError> { IVPStatus::Failure(IVPError::UserError(v)) }
}""")
    im = u.impl(IVP, "From<UserError> for IVPStatus<IVPError>")
    im.fn("from").ens("res == IVPStatus::<IVPError>::Failure(IVPError::UserError(value))")
    return u


def euler_step_unit(prop="C06"):
    from specs_ivpcommon import CALLBACK_SPEC
    c = cfg(extra=[("Euler<'a, N, D, T, F>", "Euler<D, T, F>"), ("EulerSolver<'a, N, D, T, F>", "EulerSolver<D, T, F>")])
    u = Unit(prop, "euler_step", preludes=("real", "ivp"), cfg=c)
    u.item(LIB, "enum", "DimensionError")
    u.item(IVP, "enum", "IVPError")
    u.item(IVP, "enum", "IVPStatus")
    u.item(IVP, "struct", "EulerSolver")
    u.spec(CALLBACK_SPEC)
    u.spec("""
impl vstd::std_specs::convert::FromSpecImpl<IVPError> for IVPStatus<IVPError> {
    open spec fn obeys_from_spec() -> bool { true }
    open spec fn from_spec(v: IVPError) -> IVPStatus<IVPError> { IVPStatus::Failure(v) }
}
// generated by thiserror's #[from] on IVPStatus::Failure (not in the source text): trusted
impl From<IVPError> for IVPStatus<IVPError> {
    #[verifier::external_body]
    fn from(v: IVPError) -> (r: IVPStatus<IVPError>) { IVPStatus::Failure(v) }
}
impl""" + GEN + """ EulerSolver<D, T, F> {
    pub open spec fn inv(&self) -> bool {
        self.dt@ > 0real && self.time@ <= self.end@
        && (forall|t: R, y: &[R], d: &mut T| #[trigger] self.derivative.requires((t, y, d)))
        && (forall|t: R, y: &[R], d: &mut T, r: Result<V, UserError>| #[trigger] self.derivative.ensures((t, y, d), r) ==>
              (df_ok(t@, slice_view(y)) ==> r is Ok && r->Ok_0@ == df_val(t@, slice_view(y)) && r->Ok_0@.len() == y@.len())
              && (!df_ok(t@, slice_view(y)) ==> r is Err && r->Err_0 == df_err(t@, slice_view(y))))
    }
    // the step length actually taken from `time`
    pub open spec fn clipped_dt(&self) -> real { if self.time@ + self.dt@ >= self.end@ { self.end@ - self.time@ } else { self.dt@ } }
}
""")
    im = u.impl(IVP, "IVPStepper<D> for EulerSolver<'a, N, D, T, F>", header="impl" + GEN + " EulerSolver<D, T, F>", keep_assoc=False)
    f = im.fn("step")
    call = "(self.derivative)(self.time.real(), self.state.as_slice(), &mut self.data)"
    eta = "|e_: UserError| -> (r_: IVPError) ensures r_ == IVPError::UserError(e_) { IVPError::UserError(e_) }"
    f.opt(subst=[(call + ".map_err(IVPError::UserError)?",
                  "(match " + call + ".map_err(" + eta + ") { Ok(v_) => v_, Err(e_) => return Err(From::from(e_)) })",
                  "R16-question-mark-convert+R17-constructor-eta")])
    f.req("old(self).inv()")
    f.ens("final(self).inv()", "final(self).end == old(self).end",
          # done
          "old(self).time@ >= old(self).end@ ==> res is Err && res->Err_0 is Done && final(self).time == old(self).time && final(self).state == old(self).state",
          # user error surfaces as Failure(UserError(e)) and nothing is committed
          "old(self).time@ < old(self).end@ && !df_ok(old(self).time@, old(self).state@) ==> res is Err && res->Err_0 == "
          "IVPStatus::<IVPError>::Failure(IVPError::UserError(df_err(old(self).time@, old(self).state@))) && final(self).time == old(self).time && final(self).state == old(self).state",
          # one explicit Euler step:  yields (t, y) and advances to y + dt*f(t, y) at t + dt (dt clipped at the end time)
          "old(self).time@ < old(self).end@ && df_ok(old(self).time@, old(self).state@) ==> res is Ok && res->Ok_0.0@ == old(self).time@ && res->Ok_0.1@ == old(self).state@ "
          "&& final(self).time@ == old(self).time@ + old(self).clipped_dt() && final(self).time@ <= final(self).end@ && final(self).time@ > old(self).time@ "
          "&& final(self).time@ - old(self).time@ <= old(self).dt@ "
          "&& final(self).state@ == vadd(old(self).state@, vscale(df_val(old(self).time@, old(self).state@), old(self).clipped_dt()))")
    return u


def units(ctx):
    return [dimension_unit(), euler_unit(), iterator_unit(), euler_step_unit(),
            adaptive_builder_unit("rk_builder", "src/ivp/rk.rs", "RungeKutta", "R"),
            adaptive_builder_unit("adams_builder", "src/ivp/adams.rs", "Adams", "A"),
            adaptive_builder_unit("bdf_builder", "src/ivp/bdf.rs", "BDF", "B"),
            C03.rk_step_unit("C06")[0], C03.adams_solver_unit("C06")[0], C03.bdf_solver_unit("C06")[0]]


DECIDED = [
    "Dimension for Const<C> / Dyn and From<DimensionError>: new() on a dynamic dimension -> StaticOnDynamic, new_dyn() on a static one -> DynamicOnStatic, otherwise a builder with the right dimension (all four builders)",
    "with_tolerance / with_maximum_dt / with_minimum_dt: non-positive argument -> ToleranceOOB / TimeDeltaOOB, otherwise exactly that field is set; setting min and max in either order leaves min <= max (wf is an invariant of every Ok result)",
    "with_initial_time / with_ending_time: end <= start -> TimeStartOOB / TimeEndOOB, otherwise only the named time changes",
    "Euler::solve: any missing field -> MissingParameters; a complete valid configuration builds a solver with dt > 0 and time < end",
    "RungeKutta::solve / Adams::solve / BDF::solve (units rk_step, adams_solver, bdf_solver -- the C03 solver units, where the solver structs and their invariants live): "
    "any missing field -> MissingParameters; a complete configuration that satisfies the builder invariant ALWAYS builds (given that the coefficient trait supplies its tables: Some, of length O); "
    "the solver starts at the user's time / end / state / tolerance / step bounds with dt = (dt_min + dt_max) / 2, an empty history, finished == false, and the coefficient tables copied entry by entry; "
    "the returned solver satisfies the invariant that every step() contract of C01 / C03 requires",
    "IVPIterator::next for every stepper: finished -> None and nothing changes; a Failure from step() is yielded once and sets finished; lemma_error_ends_iteration: in every history of next() calls an Err item is followed only by None",
    "EulerSolver::step: an Err(e) from the derivative callback is returned as Failure(UserError(e)) with time and state uncommitted",
    "From<UserError> for IVPStatus<IVPError>",
]
NOT_DECIDED = [
    "user-error surfacing inside the adaptive steppers' step() (RK/Adams/BDF) -- covered where those step functions are under contract (C01/C03), not here",
    "collect_vec (std's collect::<Result<Vec<_>,_>>: first Err wins) and NaN/infinite arguments",
    "termination of next() when a stepper answers Redo forever (exec_allows_no_decreases_clause)",
]
ASSUMPTIONS = [
    "prelude/ivp.rs: the Dimension and IVPStepper traits of the crate are restated with their contracts; nalgebra's BVector is the shim V; Box<dyn Error> is an opaque token",
    "thiserror-generated From<IVPError> for IVPStatus<IVPError> (not in the source text) is trusted to wrap into Failure",
    "the derivative callback is a pure function of (t, y)",
    "solve(): the coefficient traits (RungeKuttaCoefficients, AdamsCoefficients, BDFCoefficients) are restated with pure associated functions; nalgebra's from_iterator(..as_slice().iter().cloned().map(from_real)) "
    "is an entry-wise copy and from_element_generic(dim, .., 0) a zero vector / matrix of that dimension (rules R33); that the static type of a BVector<N, D> fixes its length to the builder's dimension "
    "is stated as a hypothesis (init_state.len() == dim.size()) where the invariant needs it",
]
