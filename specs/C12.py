"""C12 -- polynomial division (src/polynomial/mod.rs: divide)."""
from vx.unit import Unit
from specs_polycommon import *

DIV_SPEC = r'''
// ---- algebra of the convolution used by the division invariant
pub proof fn lemma_conv_zero_left(a: Polynomial, b: Polynomial, k: int, n: int)
    requires forall|j: int| a.c(j) == 0real, 0 <= n
    ensures conv_upto(a, b, k, n) == 0real
    decreases n
{
    if n > 0 {
        lemma_conv_zero_left(a, b, k, n - 1);
        assert(a.c(n - 1) * b.c(k - (n - 1)) == 0real) by(nonlinear_arith) requires a.c(n - 1) == 0real;
    }
}
// q1 = q0 + c x^m  ==>  (q1 * d)_k = (q0 * d)_k + c d_{k-m}     (for the partial sums up to n)
pub proof fn lemma_conv_add_monomial(q1: Polynomial, q0: Polynomial, d: Polynomial, c: real, m: int, k: int, n: int)
    requires 0 <= n, 0 <= m, forall|j: int| q1.c(j) == q0.c(j) + (if j == m { c } else { 0real })
    ensures conv_upto(q1, d, k, n) == conv_upto(q0, d, k, n) + (if m < n { c * d.c(k - m) } else { 0real })
    decreases n
{
    if n > 0 {
        lemma_conv_add_monomial(q1, q0, d, c, m, k, n - 1);
        let x = d.c(k - (n - 1));
        if n - 1 == m {
            assert((q0.c(m) + c) * x == q0.c(m) * x + c * x) by(nonlinear_arith);
        }
    }
}
// the partial sums stop growing once n exceeds k and the length of a
pub proof fn lemma_conv_upto_saturates(a: Polynomial, b: Polynomial, k: int, n: int)
    requires n >= k + 1, k >= -1
    ensures conv_upto(a, b, k, n) == conv_upto(a, b, k, k + 1)
    decreases n
{
    if n > k + 1 {
        lemma_conv_upto_saturates(a, b, k, n - 1);
        assert(b.c(k - (n - 1)) == 0real);
        assert(a.c(n - 1) * 0real == 0real) by(nonlinear_arith);
    }
}
// the error budget of a division: one dropped coefficient per power, each within the zero tolerance
pub open spec fn err_ok(err: Seq<real>, tol: real, live: int) -> bool {
    (forall|k: int| 0 <= k < err.len() ==> rabs(#[trigger] err[k]) <= tol) && (forall|k: int| 0 <= k < live && k < err.len() ==> #[trigger] err[k] == 0real)
}
pub open spec fn err_at(err: Seq<real>, k: int) -> real { if 0 <= k < err.len() { err[k] } else { 0real } }
// dividend = quotient * divisor + remainder + E  coefficient by coefficient
pub open spec fn division_identity(s: Polynomial, q: Polynomial, d: Polynomial, r: Polynomial, err: Seq<real>) -> bool {
    forall|k: int| #![trigger conv(q, d, k)] 0 <= k ==> s.c(k) == conv(q, d, k) + r.c(k) + err_at(err, k)
}
'''


def units(ctx):
    u = Unit("C12", "divide", preludes=("real", "stdx"), cfg=cfg())
    u.rlimit = 60
    u.timeout = 600
    u.item(PFILE, "struct", "Polynomial")
    u.spec(POLY_SPEC)
    u.spec(SPEC)
    u.spec(HSD_SPEC)
    u.spec(DIV_SPEC)
    mutating_pp(u, "Add", "&Polynomial<N>", True)
    mutating_pp(u, "Sub", "&Polynomial<N>", True)
    from_vec_shim(u)
    add_basic(u, names=("new", "with_tolerance", "purge_leading"))
    im = u.impl(PFILE, "Polynomial<N>", header="impl Polynomial")
    f = im.fn("divide")
    from vx.rules import COPIED
    f.opt(subst=[("Polynomial::from_iter(self.coefficients.iter().copied())",
                  "Polynomial::vx_from_vec(self.coefficients.iter().map(|c_: &R| -> (y_: R) ensures y_ == *c_ { *c_ }).collect())", "R5-copied+R20-collect-into-polynomial")])
    f.opt(collect_polynomial=(1, 2))
    f.closure(1, params="c: &R", ret="vx_y: R", ensures=["vx_y@ == (*c)@ * idivisor@"])
    f.closure(2, params="c: &R", ret="vx_y: R", ensures=["vx_y@ == (*c)@ * temp.coefficients@[temp.coefficients@.len() - 1]@"])
    f.req("self.wf()", "divisor.wf()", "self.tolerance@ > 0real",
          "divisor.coefficients@.len() >= 2 ==> divisor.coefficients@[divisor.coefficients@.len() - 1]@ != 0real",
          "self.coefficients@.len() + divisor.coefficients@.len() < usize::MAX / 2")
    TOL = "self.tolerance@"
    f.ens("divisor.coefficients@.len() == 1 && rabs(divisor.c(0)) < self.tolerance@ ==> res is Err",
          # division by a constant scales the coefficients (leading coefficients within the zero tolerance are dropped first)
          "divisor.coefficients@.len() == 1 && rabs(divisor.c(0)) >= self.tolerance@ ==> res is Ok && res->Ok_0.1.coefficients@.len() == 1 && res->Ok_0.1.c(0) == 0real "
          "&& res->Ok_0.0.coefficients@.len() <= self.coefficients@.len() "
          "&& (forall|k: int| 0 <= k < res->Ok_0.0.coefficients@.len() ==> #[trigger] res->Ok_0.0.coefficients@[k]@ == self.coefficients@[k]@ * (1real / divisor.c(0))) "
          "&& (forall|k: int| res->Ok_0.0.coefficients@.len() <= k < self.coefficients@.len() ==> rabs(#[trigger] self.coefficients@[k]@) <= self.tolerance@)",
          # Euclidean step: dividend = q * d + r + E with |E_k| <= tol, deg r < deg d
          "divisor.coefficients@.len() >= 2 ==> res is Ok && res->Ok_0.1.coefficients@.len() < divisor.coefficients@.len() && res->Ok_0.1.wf() && res->Ok_0.0.wf() "
          "&& exists|err: Seq<real>| #![trigger division_identity(*self, res->Ok_0.0, *divisor, res->Ok_0.1, err)] "
          "division_identity(*self, res->Ok_0.0, *divisor, res->Ok_0.1, err) && err_ok(err, self.tolerance@, 0)",
          # quotient and remainder of a Euclidean step carry the dividend's zero tolerance (what a caller that deflates repeatedly relies on: hermite_zeros, C14 unit zeros)
          "divisor.coefficients@.len() >= 2 ==> res->Ok_0.0.tolerance == self.tolerance && res->Ok_0.1.tolerance == self.tolerance && res->Ok_0.0.coefficients@.len() <= self.coefficients@.len()")
    f.loop(1, invariant=[
        "quotient.wf() && remainder.wf() && divisor.coefficients@.len() >= 2",
        "remainder.tolerance == self.tolerance", "quotient.tolerance == self.tolerance",
        "remainder.coefficients@.len() <= self.coefficients@.len() && quotient.coefficients@.len() <= self.coefficients@.len()",
        "err.len() == self.coefficients@.len() && err_ok(err, self.tolerance@, remainder.coefficients@.len() as int)",
        "division_identity(*self, quotient, *divisor, remainder, err)",
    ], decreases="remainder.coefficients@.len()")
    f.loop(2, iter="it2", invariant=[
        "temp.coefficients@.len() == divisor.coefficients@.len() + it2.index@",
        "forall|j: int| 0 <= j < it2.index@ ==> #[trigger] temp.coefficients@[j]@ == 0real",
        "forall|j: int| 0 <= j < divisor.coefficients@.len() ==> #[trigger] temp.coefficients@[it2.index@ + j]@ == divisor.coefficients@[j]@ * cq",
    ])
    f.loop(3, invariant=[
        "remainder.wf() && remainder.tolerance == self.tolerance && remainder.coefficients@.len() <= rl0",
        "err.len() == self.coefficients@.len() && err_ok(err, self.tolerance@, remainder.coefficients@.len() as int)",
        "division_identity(*self, quotient, *divisor, remainder, err)",
        "remainder.coefficients@.len() < rl0 || remainder.coefficients@[rl0 - 1]@ == 0real",
    ], decreases="remainder.coefficients@.len()")
    f.hint("before: let mut temp = Polynomial::new()", """let ghost mut err: Seq<real> = Seq::new(self.coefficients@.len(), |k: int| if k >= remainder.coefficients@.len() { self.coefficients@[k]@ } else { 0real });
    proof {
        assert forall|k: int| 0 <= k implies self.c(k) == conv(quotient, *divisor, k) + remainder.c(k) + err_at(err, k) by {
            lemma_conv_zero_left(quotient, *divisor, k, k + 1);
        }
    }""")
    f.hint("before: remainder.purge_leading()", "let ghost rp = remainder; proof { assert(rp.coefficients@ =~= self.coefficients@); }")
    f.hint("after: remainder.purge_leading()", """proof {
        assert forall|k: int| 0 <= k < remainder.coefficients@.len() implies remainder.coefficients@[k] == self.coefficients@[k] by { assert(rp.coefficients@[k] == self.coefficients@[k]); }
        assert forall|k: int| remainder.coefficients@.len() <= k < self.coefficients@.len() implies rabs(#[trigger] self.coefficients@[k]@) <= self.tolerance@ by {
            assert(rabs(rp.c(k)) <= rp.tolerance@);
        }
    }""")
    f.hint("loop 2 begin", "let ghost t0 = temp.coefficients@;")
    f.hint("loop 2 end", """proof {
        assert(temp.coefficients@.len() == t0.len() + 1);
        assert(temp.coefficients@[0]@ == 0real);
        assert forall|j: int| 0 <= j < t0.len() implies temp.coefficients@[j + 1] == t0[j] by { }
        let i = it2.index@;
        assert forall|j: int| 0 <= j < divisor.coefficients@.len() implies #[trigger] temp.coefficients@[i + 1 + j]@ == divisor.coefficients@[j]@ * cq by {
            assert(temp.coefficients@[(i + j) + 1] == t0[i + j]);
            assert(t0[i + j]@ == divisor.coefficients@[j]@ * cq);
        }
        assert forall|j: int| 0 <= j < i + 1 implies #[trigger] temp.coefficients@[j]@ == 0real by {
            if j > 0 { assert(temp.coefficients@[(j - 1) + 1] == t0[j - 1]); }
        }
    }""")
    f.hint("loop 1 begin", "let ghost q0 = quotient; let ghost r0 = remainder; let ghost rl0 = remainder.coefficients@.len() as int;")
    f.hint("after: temp.coefficients[order] =", """let ghost cq = temp.coefficients@[order as int]@;
    proof {
        let rlead = r0.coefficients@[rl0 - 1]@; let dlead = divisor.coefficients@[divisor.coefficients@.len() - 1]@;
        assert(cq == rlead / dlead);
        assert(dlead * cq == rlead) by(nonlinear_arith) requires cq == rlead / dlead, dlead != 0real;
        assert forall|j: int| temp.c(j) == (if j == order { cq } else { 0real }) by { }
    }""")
    f.hint("before: let padding =", """proof {
        assert forall|j: int| quotient.c(j) == q0.c(j) + (if j == order { cq } else { 0real }) by {
            assert(coef(quotient.coefficients@, j) == coef(q0.coefficients@, j) + 1real * coef(temp.coefficients@, j));
        }
        assert forall|k: int| 0 <= k implies conv(quotient, *divisor, k) == conv(q0, *divisor, k) + cq * divisor.c(k - order) by {
            lemma_conv_add_monomial(quotient, q0, *divisor, cq, order as int, k, k + 1);
            if order as int > k { assert(cq * divisor.c(k - order) == 0real) by(nonlinear_arith) requires divisor.c(k - order) == 0real; }
        }
    }""")
    f.hint("after loop 2", """proof {
        assert forall|k: int| temp.c(k) == divisor.c(k - order) * cq by {
            if 0 <= k - order < divisor.coefficients@.len() { assert(temp.coefficients@[order + (k - order)]@ == divisor.coefficients@[k - order]@ * cq); }
            else if 0 <= k < order { assert(temp.coefficients@[k]@ == 0real); assert(0real * cq == 0real) by(nonlinear_arith); }
            else { assert(0real * cq == 0real) by(nonlinear_arith); }
        }
    }""")
    f.hint("before loop 3", """proof {
        assert forall|k: int| 0 <= k implies self.c(k) == conv(quotient, *divisor, k) + remainder.c(k) + err_at(err, k) by {
            assert(coef(remainder.coefficients@, k) == coef(r0.coefficients@, k) + (-1real) * coef(temp.coefficients@, k));
            let x = divisor.c(k - order);
            assert(temp.c(k) == x * cq);
            assert(cq * x == x * cq) by(nonlinear_arith);
            lemma_conv_add_monomial(quotient, q0, *divisor, cq, order as int, k, k + 1);
            if order as int > k { assert(cq * x == 0real) by(nonlinear_arith) requires x == 0real; }
            assert(conv(quotient, *divisor, k) == conv(q0, *divisor, k) + cq * x);
            assert(self.c(k) == conv(q0, *divisor, k) + r0.c(k) + err_at(err, k));
        }
        assert(remainder.coefficients@.len() == rl0);
        let dl = divisor.coefficients@.len() as int;
        assert(temp.c(rl0 - 1) == divisor.c(dl - 1) * cq);
        assert(divisor.c(dl - 1) * cq == cq * divisor.c(dl - 1)) by(nonlinear_arith);
        assert(remainder.coefficients@[rl0 - 1]@ == 0real) by {
            assert(coef(remainder.coefficients@, rl0 - 1) == coef(r0.coefficients@, rl0 - 1) + (-1real) * coef(temp.coefficients@, rl0 - 1));
        }
    }""")
    f.hint("loop 3 begin", """proof {
        let n = remainder.coefficients@.len() as int; let v = remainder.coefficients@[n - 1]@;
        let err2 = err.update(n - 1, v);
        assert(err[n - 1] == 0real);
        assert forall|k: int| 0 <= k implies self.c(k) == conv(quotient, *divisor, k) + coef(remainder.coefficients@.drop_last(), k) + err_at(err2, k) by {
            assert(self.c(k) == conv(quotient, *divisor, k) + remainder.c(k) + err_at(err, k));
        }
        err = err2;
    }""")
    return [u, complex_unit()]


CX_SPEC = r'''
pub open spec fn cco(s: Seq<C>, k: int) -> (real, real) { if 0 <= k < s.len() { s[k]@ } else { czero() } }
// both parts strictly below / at most the zero tolerance
pub open spec fn negl(x: (real, real), t: real) -> bool { rabs(x.0) < t && rabs(x.1) < t }
pub open spec fn negl_le(x: (real, real), t: real) -> bool { rabs(x.0) <= t && rabs(x.1) <= t }
impl Polynomial {
    pub open spec fn wf(&self) -> bool { self.coefficients@.len() >= 1 }
    pub open spec fn cc(&self, k: int) -> (real, real) { cco(self.coefficients@, k) }
    pub open spec fn lead(&self) -> (real, real) { self.coefficients@[self.coefficients@.len() - 1]@ }
    // the leading coefficient survives Polynomial::purge_leading
    pub open spec fn lead_kept(&self) -> bool { !negl_le(self.lead(), self.tolerance@) }
}
pub open spec fn maxlen(a: int, b: int) -> int { if a >= b { a } else { b } }
// ---- callees at the complex instantiation: CONTRACTS ONLY (bodies verified at N = real in C13 / C11) ----
impl Polynomial {
    #[verifier::external_body]
    pub fn new() -> (r: Polynomial) ensures r.coefficients@.len() == 1 && r.cc(0) == czero() { unimplemented!() }
    #[verifier::external_body]
    pub fn with_tolerance(tolerance: R) -> (r: Result<Polynomial, String>)
        ensures tolerance@ > 0real ==> r is Ok, r is Ok ==> r->Ok_0.coefficients@.len() == 1 && r->Ok_0.cc(0) == czero() && r->Ok_0.tolerance == tolerance
    { unimplemented!() }
    // FromIterator for Polynomial at I = Vec<C> (rule R20)
    #[verifier::external_body]
    pub fn vx_from_vec(v: Vec<C>) -> (r: Polynomial) ensures r.coefficients@ == v@ { unimplemented!() }
}
impl AddAssignSpecImpl<&Polynomial> for Polynomial {
    open spec fn obeys_add_assign_spec() -> bool { false }
    open spec fn add_assign_req(&self, rhs: &Polynomial) -> bool { self.wf() && rhs.wf() }
    open spec fn add_assign_spec(&self, rhs: &Polynomial) -> &Self { arbitrary() }
}
impl core::ops::AddAssign<&Polynomial> for Polynomial {
    #[verifier::external_body]
    fn add_assign(&mut self, rhs: &Polynomial)
        ensures final(self).tolerance == old(self).tolerance, final(self).coefficients@.len() == maxlen(old(self).coefficients@.len() as int, rhs.coefficients@.len() as int),
            forall|k: int| #![trigger final(self).cc(k)] final(self).cc(k) == cadd(old(self).cc(k), rhs.cc(k))
    { unimplemented!() }
}
impl SubAssignSpecImpl<&Polynomial> for Polynomial {
    open spec fn obeys_sub_assign_spec() -> bool { false }
    open spec fn sub_assign_req(&self, rhs: &Polynomial) -> bool { self.wf() && rhs.wf() }
    open spec fn sub_assign_spec(&self, rhs: &Polynomial) -> &Self { arbitrary() }
}
impl core::ops::SubAssign<&Polynomial> for Polynomial {
    #[verifier::external_body]
    fn sub_assign(&mut self, rhs: &Polynomial)
        ensures final(self).tolerance == old(self).tolerance, final(self).coefficients@.len() == maxlen(old(self).coefficients@.len() as int, rhs.coefficients@.len() as int),
            forall|k: int| #![trigger final(self).cc(k)] final(self).cc(k) == csub(old(self).cc(k), rhs.cc(k))
    { unimplemented!() }
}
'''


def complex_cfg():
    from vx.extract import Config
    c = Config(type_subst=[("Polynomial<N>", "Polynomial"), ("Polynomial::<N>", "Polynomial"), ("<N as ComplexField>::RealField", "R"), ("N::RealField", "R"), ("N", "C"), ("f64", "R")])
    return c


def complex_unit(prop="C12"):
    """divide() and purge_leading() at the complex instantiation N = Complex: what `Polynomial::roots` relies on when it deflates"""
    u = Unit(prop, "divide_complex", preludes=("real", "stdx", "cx", "cxdiv"), cfg=complex_cfg())
    u.crate_attrs = []
    u.rlimit = 60
    u.timeout = 600
    u.item(PFILE, "struct", "Polynomial")
    u.spec(CX_SPEC)
    im = u.impl(PFILE, "Polynomial<N>", header="impl Polynomial", keep_assoc=False)
    g = im.fn("purge_leading")
    g.req("old(self).wf()")
    g.ens("final(self).wf()", "final(self).tolerance == old(self).tolerance", "final(self).coefficients@.len() <= old(self).coefficients@.len()",
          "forall|k: int| 0 <= k < final(self).coefficients@.len() ==> final(self).coefficients@[k] == old(self).coefficients@[k]",
          # what is dropped is negligible in BOTH parts; what is kept on top is not (or only the constant is left)
          "forall|k: int| final(self).coefficients@.len() <= k < old(self).coefficients@.len() ==> negl_le(#[trigger] old(self).coefficients@[k]@, old(self).tolerance@)",
          "final(self).coefficients@.len() == 1 || final(self).lead_kept()")
    g.loop(1, invariant=["self.wf()", "self.tolerance == old(self).tolerance", "self.coefficients@.len() <= old(self).coefficients@.len()",
                         "forall|k: int| 0 <= k < self.coefficients@.len() ==> self.coefficients@[k] == old(self).coefficients@[k]",
                         "forall|k: int| self.coefficients@.len() <= k < old(self).coefficients@.len() ==> negl_le(#[trigger] old(self).coefficients@[k]@, old(self).tolerance@)"],
           decreases="self.coefficients@.len()")
    f = im.fn("divide")
    f.opt(subst=[("Polynomial::from_iter(self.coefficients.iter().copied())",
                  "Polynomial::vx_from_vec(self.coefficients.iter().map(|c_: &C| -> (y_: C) ensures y_ == *c_ { *c_ }).collect())", "R5-copied+R20-collect-into-polynomial")])
    f.opt(collect_polynomial=(1, 2))
    f.closure(1, params="c: &C", ret="vx_y: C", ensures=["vx_y@ == cmul((*c)@, idivisor@)"])
    f.closure(2, params="c: &C", ret="vx_y: C", ensures=["vx_y@ == cmul((*c)@, temp.coefficients@[temp.coefficients@.len() - 1]@)", "vx_y@ == cmul(temp.coefficients@[temp.coefficients@.len() - 1]@, (*c)@)"])
    f.req("self.wf()", "divisor.wf()", "self.tolerance@ > 0real",
          "divisor.coefficients@.len() >= 2 ==> divisor.lead() != czero()",
          "self.coefficients@.len() + divisor.coefficients@.len() < usize::MAX / 2")
    f.ens(# division by (a constant within the tolerance of) zero is an Err -- both parts are looked at
          "divisor.coefficients@.len() == 1 && negl(divisor.cc(0), self.tolerance@) ==> res is Err",
          # division by a constant scales the coefficients by its reciprocal
          "divisor.coefficients@.len() == 1 && !negl(divisor.cc(0), self.tolerance@) ==> res is Ok && res->Ok_0.1.coefficients@.len() == 1 && res->Ok_0.1.cc(0) == czero() "
          "&& res->Ok_0.0.coefficients@.len() <= self.coefficients@.len() "
          "&& (forall|k: int| 0 <= k < res->Ok_0.0.coefficients@.len() ==> #[trigger] res->Ok_0.0.coefficients@[k]@ == cmul(self.coefficients@[k]@, cdiv((1real, 0real), divisor.cc(0))))",
          # Euclidean loop: terminates, the remainder is shorter than the divisor and properly trimmed (a leading coefficient is dropped only if BOTH parts are negligible)
          "divisor.coefficients@.len() >= 2 ==> res is Ok && res->Ok_0.1.wf() && res->Ok_0.0.wf() && res->Ok_0.1.coefficients@.len() < divisor.coefficients@.len() "
          "&& (res->Ok_0.1.coefficients@.len() == 1 || !negl(res->Ok_0.1.lead(), self.tolerance@))",
          # deflation by a monic linear factor (what Polynomial::roots does): the quotient is one shorter and keeps leading coefficient and tolerance
          "divisor.coefficients@.len() == 2 && divisor.lead() == (1real, 0real) && self.lead_kept() && self.coefficients@.len() >= 2 ==> "
          "res->Ok_0.0.coefficients@.len() == self.coefficients@.len() - 1 && res->Ok_0.0.lead() == self.lead() && res->Ok_0.0.tolerance == self.tolerance")
    H4 = "(divisor.coefficients@.len() == 2 && divisor.lead() == (1real, 0real) && self.lead_kept() && self.coefficients@.len() >= 2)"
    f.hint("before: let mut temp = Polynomial::new()", "let ghost mut first = true;")
    f.loop(1, invariant=[
        "quotient.wf() && remainder.wf() && divisor.coefficients@.len() >= 2 && divisor.lead() != czero() && self.tolerance@ > 0real",
        "remainder.tolerance == self.tolerance && quotient.tolerance == self.tolerance",
        "remainder.coefficients@.len() <= self.coefficients@.len() && quotient.coefficients@.len() <= self.coefficients@.len()",
        "self.coefficients@.len() + divisor.coefficients@.len() < usize::MAX / 2",
        "remainder.coefficients@.len() == 1 || !negl(remainder.lead(), self.tolerance@)",
        f"{H4} && first ==> quotient.coefficients@.len() == 1 && quotient.cc(0) == czero() && remainder.coefficients@.len() == self.coefficients@.len() && remainder.lead() == self.lead()",
        f"{H4} && !first ==> quotient.coefficients@.len() == self.coefficients@.len() - 1 && quotient.lead() == self.lead() && remainder.coefficients@.len() < self.coefficients@.len()",
    ], decreases="remainder.coefficients@.len()")
    f.loop(2, iter="it2", invariant=[
        "temp.coefficients@.len() == divisor.coefficients@.len() + it2.index@",
        "temp.coefficients@[temp.coefficients@.len() - 1]@ == cmul(cq, divisor.lead())",
    ])
    f.loop(3, invariant=[
        "remainder.wf() && remainder.tolerance == self.tolerance && remainder.coefficients@.len() <= rl0",
        "remainder.coefficients@.len() < rl0 || remainder.coefficients@[rl0 - 1]@ == czero()",
    ], decreases="remainder.coefficients@.len()")
    f.hint("before: remainder.purge_leading()", "let ghost rp = remainder; proof { assert(rp.coefficients@ =~= self.coefficients@); }")
    f.hint("after: remainder.purge_leading()", """proof {
        if self.lead_kept() {
            // nothing is dropped: the top coefficient is not negligible
            if remainder.coefficients@.len() < rp.coefficients@.len() { assert(negl_le(rp.coefficients@[rp.coefficients@.len() - 1]@, rp.tolerance@)); assert(false); }
            assert(remainder.lead() == self.lead());
        }
    }""")
    f.hint("loop 1 begin", "let ghost q0 = quotient; let ghost r0 = remainder; let ghost rl0 = remainder.coefficients@.len() as int;")
    f.hint("after: temp.coefficients[order] =", """let ghost cq = temp.coefficients@[order as int]@;
    proof {
        axiom_cdiv(r0.lead(), divisor.lead());
        assert(cmul(cq, divisor.lead()) == r0.lead());
        if divisor.lead() == (1real, 0real) { assert(cq == r0.lead()); }
    }""")
    f.hint("before: let padding =", """proof {
        assert(quotient.cc(order as int) == cadd(q0.cc(order as int), temp.cc(order as int)));
        let top = self.coefficients@.len() - 2;
        if (divisor.coefficients@.len() == 2 && divisor.lead() == (1real, 0real) && self.lead_kept() && self.coefficients@.len() >= 2) {
            if first { assert(order == top); assert(q0.cc(top) == czero()); assert(quotient.cc(top) == self.lead()); }
            else { assert(quotient.cc(top) == cadd(q0.cc(top), temp.cc(top))); assert(temp.cc(top) == czero()); }
            assert(quotient.coefficients@.len() == top + 1);
        }
    }""")
    f.hint("before loop 3", """proof {
        assert(remainder.coefficients@.len() == rl0);
        assert(temp.coefficients@.len() == rl0);
        assert(temp.cc(rl0 - 1) == r0.lead());
        assert(remainder.cc(rl0 - 1) == csub(r0.cc(rl0 - 1), temp.cc(rl0 - 1)));
        assert(remainder.coefficients@[rl0 - 1]@ == czero());
    }""")
    # a coefficient of the running remainder is dropped only if BOTH its parts are within the zero tolerance (the error term E of the
    # Euclidean identity -- proved in full at the real instantiation -- consists of exactly these dropped coefficients)
    f.hint("loop 3 begin", "proof { assert(negl(remainder.lead(), self.tolerance@)); }")
    f.hint("loop 1 end", "proof { first = false; }")
    return u


DECIDED = [
    "divide: divisor = constant within the zero tolerance -> Err; constant divisor -> coefficients scaled by 1/d0 (after dropping leading coefficients within the tolerance), remainder 0",
    "divisor of degree >= 1 with non-zero leading coefficient: the loop terminates (decreases: remainder length), returns Ok((q, r)) with deg r < deg d and dividend_k = (q*d)_k + r_k + E_k for every k, where (q*d)_k is the convolution and |E_k| <= tolerance (E collects exactly the coefficients dropped as 'zero', at most one per power)",
    "quotient and remainder of a Euclidean step carry the dividend's zero tolerance, and the quotient is not longer than the dividend (what callers that deflate repeatedly rely on)",
    "the += / -= operators used by the loop are re-verified in the unit",
    "divide() and purge_leading() at the COMPLEX instantiation (unit divide_complex; Polynomial::roots deflates in complex arithmetic also for real input): a constant divisor with BOTH parts within the tolerance -> Err; "
    "division by a constant = multiplication by its reciprocal; the Euclidean loop terminates, the remainder is shorter than the divisor, and a coefficient is dropped (purge_leading, trim loop) only if BOTH its parts "
    "are within the tolerance; deflation by a monic linear factor returns a quotient one shorter with the same leading coefficient and tolerance (the contract C14 relies on)",
]
NOT_DECIDED = ["the rounding part of the backward-error bound (exact reals: E only contains the tolerance-dropped coefficients)",
               "remainder exactly zero for an exact multiple (follows from uniqueness of Euclidean division, not stated)",
               "complex coefficients: the full Euclidean identity (unit divide_complex decides the guards, the trimming, the constant-divisor case, termination and the deflation shape only)"]
ASSUMPTIONS = ["divide_complex: prelude/cx.rs + cxdiv.rs (complex numbers as exact pairs, division with the obligation divisor != 0); new / with_tolerance / FromIterator / += / -= on polynomials are CONTRACTS ONLY there "
               "(their bodies are verified at the real instantiation in C13 / C11)",
               "tolerance > 0 (with tolerance 0 an exactly cancelled leading coefficient is never popped: the loop would not terminate)",
               "leading coefficient of the divisor non-zero (the property's 'non-negligible leading coefficient')",
               "rule R20: `.collect()` into a Polynomial / Polynomial::from_iter go through the FromIterator impl extracted at I = Vec<R>"]
