// ---------------------------------------------------------------------------
// prelude/nalg.rs -- TRUSTED shims for nalgebra types used outside the IVP code.
// SVector<N, V> is mapped to Vec<R> by the type substitution of these units (only indexing is used on it);
// DMatrix<N> is the shim DM below (assumed contracts on a dependency).
// ---------------------------------------------------------------------------
pub struct DM { pub nrows: usize, pub ncols: usize, pub e: Ghost<spec_fn(int, int) -> real> }
pub struct DMLine { pub n: usize }
impl DMLine { pub fn len(&self) -> (r: usize) ensures r == self.n { self.n } }
impl DM {
    pub open spec fn at(&self, r: int, c: int) -> real { (self.e@)(r, c) }
    #[verifier::external_body]
    pub fn column(&self, j: usize) -> (r: DMLine) ensures r.n == self.nrows { unimplemented!() }
    #[verifier::external_body]
    pub fn row(&self, i: usize) -> (r: DMLine) ensures r.n == self.ncols { unimplemented!() }
    // `mat[(r, c)] = v`  (IndexMut<(usize, usize)> assignment, rule R22)
    #[verifier::external_body]
    pub fn vx_set(&mut self, idx: (usize, usize), v: R)
        requires idx.0 < old(self).nrows, idx.1 < old(self).ncols
        ensures final(self).nrows == old(self).nrows, final(self).ncols == old(self).ncols,
                forall|r: int, c: int| #![trigger final(self).at(r, c)] final(self).at(r, c) == if r == idx.0 && c == idx.1 { v@ } else { old(self).at(r, c) }
    { unimplemented!() }
}
