// ---------------------------------------------------------------------------
// prelude/nalg.rs -- TRUSTED shims for nalgebra types used outside the IVP code.
// SVector<N, V> is mapped to Vec<R> by the type substitution of these units (only indexing is used on it);
// DMatrix<N> is the shim DM below (assumed contracts on a dependency).
// ---------------------------------------------------------------------------
pub struct DM { pub nrows: usize, pub ncols: usize, pub e: Ghost<spec_fn(int, int) -> real> }
pub struct DMLine { pub n: usize }
impl DMLine { pub fn len(&self) -> (r: usize) ensures r == self.n { self.n } }
impl DM {
    pub open spec fn at(&self, r: int, c: int) -> real { (self.e@)(r, c) }
    #[verifier::external_body]
    pub fn column(&self, j: usize) -> (r: DMLine) ensures r.n == self.nrows { unimplemented!() }
    #[verifier::external_body]
    pub fn row(&self, i: usize) -> (r: DMLine) ensures r.n == self.ncols { unimplemented!() }
    // `mat[(r, c)] = v`  (IndexMut<(usize, usize)> assignment, rule R22)
    #[verifier::external_body]
    pub fn vx_set(&mut self, idx: (usize, usize), v: R)
        requires idx.0 < old(self).nrows, idx.1 < old(self).ncols
        ensures final(self).nrows == old(self).nrows, final(self).ncols == old(self).ncols,
                forall|r: int, c: int| #![trigger final(self).at(r, c)] final(self).at(r, c) == if r == idx.0 && c == idx.1 { v@ } else { old(self).at(r, c) }
    { unimplemented!() }
}

// ---- statically sized vectors / matrices (SVector<N, S>, SMatrix<N, S, S>) -------------------------------------
// A vector is a sequence of S reals.  A matrix is an abstract linear map (identified by `id`); the only facts
// assumed about it are the linear-algebra axioms below (assumed contracts on nalgebra's LU solve / inverse).
pub struct SV<const S: usize> { pub v: Ghost<Seq<real>> }
impl<const S: usize> View for SV<S> { type V = Seq<real>; open spec fn view(&self) -> Seq<real> { self.v@ } }
impl<const S: usize> Clone for SV<S> { #[verifier::external_body] fn clone(&self) -> (r: Self) ensures r == *self { unimplemented!() } }
impl<const S: usize> Copy for SV<S> {}
pub struct SM<const S: usize> { pub id: Ghost<int> }
impl<const S: usize> Clone for SM<S> { #[verifier::external_body] fn clone(&self) -> (r: Self) ensures r == *self { unimplemented!() } }
impl<const S: usize> Copy for SM<S> {}
pub struct SLu<const S: usize> { pub id: Ghost<int> }

pub open spec fn sl(s: &[R]) -> Seq<real> { Seq::new(s@.len(), |i: int| s@[i]@) }
pub open spec fn wadd(a: Seq<real>, b: Seq<real>) -> Seq<real> { Seq::new(a.len(), |i: int| a[i] + b[i]) }
pub open spec fn wsub(a: Seq<real>, b: Seq<real>) -> Seq<real> { Seq::new(a.len(), |i: int| a[i] - b[i]) }
pub open spec fn wneg(a: Seq<real>) -> Seq<real> { Seq::new(a.len(), |i: int| -a[i]) }
pub open spec fn wscale(a: Seq<real>, s: real) -> Seq<real> { Seq::new(a.len(), |i: int| a[i] * s) }
pub open spec fn wzero(n: nat) -> Seq<real> { Seq::new(n, |i: int| 0real) }
pub uninterp spec fn wnorm(a: Seq<real>) -> real;
pub uninterp spec fn mv(m: int, v: Seq<real>) -> Seq<real>;          // matrix (id m) times vector
pub uninterp spec fn nonsingular(m: int) -> bool;
pub uninterp spec fn entry(m: int, r: int, c: int) -> real;

// linear-algebra axioms (trusted)
#[verifier::external_body]
pub proof fn axiom_mv(m: int, u: Seq<real>, v: Seq<real>)
    ensures mv(m, u).len() == u.len(), mv(m, wneg(u)) == wneg(mv(m, u)), mv(m, wzero(u.len())) == wzero(u.len()),
            nonsingular(m) && u.len() == v.len() && mv(m, u) == mv(m, v) ==> u == v
{ }
#[verifier::external_body]
pub proof fn axiom_wnorm(v: Seq<real>)
    ensures wnorm(v) >= 0real, wnorm(v) == 0real <==> (forall|i: int| 0 <= i < v.len() ==> v[i] == 0real)
{ }

impl<const S: usize> SV<S> {
    #[verifier::external_body]
    pub fn from_column_slice(s: &[R]) -> (r: Self) requires s@.len() == S ensures r@ == sl(s) { unimplemented!() }
    #[verifier::external_body]
    pub fn as_slice(&self) -> (r: &[R]) ensures sl(r) == self@, r@.len() == self@.len() { unimplemented!() }
    #[verifier::external_body]
    pub fn norm(&self) -> (r: R) ensures r@ == wnorm(self@) { unimplemented!() }
    #[verifier::external_body]
    pub fn len(&self) -> (r: usize) ensures r == S { unimplemented!() }
    // `v[i]`, `v[i] += h`, `v[i] -= h` on a vector (Index / IndexMut of nalgebra, rule R22)
    #[verifier::external_body]
    pub fn vx_at(&self, i: usize) -> (r: R) requires i < self@.len() ensures r@ == self@[i as int] { unimplemented!() }
    #[verifier::external_body]
    pub fn vx_add_at(&mut self, i: usize, h: R) requires i < old(self)@.len() ensures final(self)@ == old(self)@.update(i as int, old(self)@[i as int] + h@) { unimplemented!() }
    #[verifier::external_body]
    pub fn vx_sub_at(&mut self, i: usize, h: R) requires i < old(self)@.len() ensures final(self)@ == old(self)@.update(i as int, old(self)@[i as int] - h@) { unimplemented!() }
}
impl<const S: usize> NegSpecImpl for SV<S> {
    open spec fn obeys_neg_spec() -> bool { false }
    open spec fn neg_req(self) -> bool { true }
    open spec fn neg_spec(self) -> SV<S> { arbitrary() }
}
impl<const S: usize> core::ops::Neg for SV<S> { type Output = SV<S>; #[verifier::external_body] fn neg(self) -> (r: SV<S>) ensures r@ == wneg(self@) { unimplemented!() } }
impl<const S: usize> AddSpecImpl<SV<S>> for SV<S> {
    open spec fn obeys_add_spec() -> bool { false }
    open spec fn add_req(self, rhs: SV<S>) -> bool { self@.len() == rhs@.len() }
    open spec fn add_spec(self, rhs: SV<S>) -> SV<S> { arbitrary() }
}
impl<const S: usize> core::ops::Add<SV<S>> for SV<S> { type Output = SV<S>; #[verifier::external_body] fn add(self, rhs: SV<S>) -> (r: SV<S>) ensures r@ == wadd(self@, rhs@) { unimplemented!() } }
impl<const S: usize> SubSpecImpl<SV<S>> for SV<S> {
    open spec fn obeys_sub_spec() -> bool { false }
    open spec fn sub_req(self, rhs: SV<S>) -> bool { self@.len() == rhs@.len() }
    open spec fn sub_spec(self, rhs: SV<S>) -> SV<S> { arbitrary() }
}
impl<const S: usize> core::ops::Sub<SV<S>> for SV<S> { type Output = SV<S>; #[verifier::external_body] fn sub(self, rhs: SV<S>) -> (r: SV<S>) ensures r@ == wsub(self@, rhs@) { unimplemented!() } }
impl<const S: usize> MulSpecImpl<R> for SV<S> {
    open spec fn obeys_mul_spec() -> bool { false }
    open spec fn mul_req(self, rhs: R) -> bool { true }
    open spec fn mul_spec(self, rhs: R) -> SV<S> { arbitrary() }
}
impl<const S: usize> core::ops::Mul<R> for SV<S> { type Output = SV<S>; #[verifier::external_body] fn mul(self, rhs: R) -> (r: SV<S>) ensures r@ == wscale(self@, rhs@) { unimplemented!() } }
impl<const S: usize> SM<S> {
    #[verifier::external_body]
    pub fn lu(self) -> (r: SLu<S>) ensures r.id@ == self.id@ { unimplemented!() }
    #[verifier::external_body]
    pub fn zero() -> (r: Self) { unimplemented!() }
    #[verifier::external_body]
    pub fn row(&self, i: usize) -> (r: DMLine) ensures r.n == S { unimplemented!() }
    #[verifier::external_body]
    pub fn column(&self, i: usize) -> (r: DMLine) ensures r.n == S { unimplemented!() }
    // `m[(r, c)] = v` (rule R22): the result is a (new) matrix that has v at (r, c) and the old entries elsewhere
    #[verifier::external_body]
    pub fn vx_set(&mut self, idx: (usize, usize), v: R)
        requires idx.0 < S, idx.1 < S
        ensures forall|r: int, c: int| #![trigger entry(final(self).id@, r, c)] entry(final(self).id@, r, c) == if r == idx.0 && c == idx.1 { v@ } else { entry(old(self).id@, r, c) }
    { unimplemented!() }
}
impl<const S: usize> SLu<S> {
    // nalgebra LU::solve: Some(x) with A x = b; a non-singular matrix is always solved
    #[verifier::external_body]
    pub fn solve(&self, b: &SV<S>) -> (r: Option<SV<S>>)
        ensures r is Some ==> r->Some_0@.len() == b@.len() && mv(self.id@, r->Some_0@) == b@, nonsingular(self.id@) <==> r is Some
    { unimplemented!() }
}

// ---- operations used only by the Broyden update of `secant`.  Row vectors carry their entries; products with abstract matrices are
// uninterpreted and related to mv() by the linear-algebra axioms below (TRUSTED: standard identities of matrix algebra).
pub struct SRow<const S: usize> { pub v: Ghost<Seq<real>> }
impl<const S: usize> Clone for SRow<S> { #[verifier::external_body] fn clone(&self) -> (r: Self) ensures r == *self { unimplemented!() } }
impl<const S: usize> Copy for SRow<S> {}
pub struct S11 { pub x: Ghost<real> }
impl S11 { #[verifier::external_body] pub fn vx_at(&self, idx: (usize, usize)) -> (r: R) ensures r@ == self.x@ { unimplemented!() } }
pub uninterp spec fn wdot(a: Seq<real>, b: Seq<real>) -> real;          // scalar product
pub uninterp spec fn rowmul(s: Seq<real>, m: int) -> Seq<real>;       // the row vector s^T M, as a vector
pub uninterp spec fn mouter(a: Seq<real>, u: Seq<real>) -> int;       // the matrix a u^T
pub uninterp spec fn mdivs(m: int, p: real) -> int;                   // M / p
pub uninterp spec fn madd(a: int, b: int) -> int;                     // A + B
// (s^T M) y = s^T (M y);  (a u^T) y = a (u . y);  (M / p) y = (M y) / p;  (A + B) y = A y + B y;  (-M) y = -(M y);  (-s) . v = -(s . v)
#[verifier::external_body]
pub proof fn axiom_rowmul(s: Seq<real>, m: int, y: Seq<real>) ensures wdot(rowmul(s, m), y) == wdot(s, mv(m, y)) {}
#[verifier::external_body]
pub proof fn axiom_mouter(a: Seq<real>, u: Seq<real>, y: Seq<real>) ensures mv(mouter(a, u), y) == wscale(a, wdot(u, y)) {}
#[verifier::external_body]
pub proof fn axiom_mdivs(m: int, p: real, y: Seq<real>) requires p != 0real ensures mv(mdivs(m, p), y) == wscale(mv(m, y), 1real / p) {}
#[verifier::external_body]
pub proof fn axiom_madd(a: int, b: int, y: Seq<real>) ensures mv(madd(a, b), y) == wadd(mv(a, y), mv(b, y)) {}
#[verifier::external_body]
pub proof fn axiom_mneg(m: int, y: Seq<real>) ensures mv(mneg(m), y) == wneg(mv(m, y)), mv(m, y).len() == y.len() {}
#[verifier::external_body]
pub proof fn axiom_wdot_neg(s: Seq<real>, v: Seq<real>) ensures wdot(wneg(s), v) == -wdot(s, v), wdot(s, wneg(v)) == -wdot(s, v) {}
pub uninterp spec fn minv(m: int) -> int;        // inverse
pub uninterp spec fn mneg(m: int) -> int;        // negation
// (-M) 0 = 0 and M 0 = 0 (linearity of the matrix-vector product at the zero vector)
#[verifier::external_body]
pub proof fn axiom_mv_zero(m: int, n: nat) ensures mv(m, wzero(n)) == wzero(n), mv(mneg(m), wzero(n)) == wzero(n) {}
impl<const S: usize> SLu<S> {
    // nalgebra LU::try_inverse: Some(inverse) exactly for a non-singular matrix
    #[verifier::external_body]
    pub fn try_inverse(&self) -> (r: Option<SM<S>>)
        ensures nonsingular(self.id@) <==> r is Some, r is Some ==> r->Some_0.id@ == minv(self.id@)
    { unimplemented!() }
}
impl<const S: usize> SV<S> {
    #[verifier::external_body]
    pub fn transpose(&self) -> (r: SRow<S>) ensures r.v@ == self@ { unimplemented!() }
    // `guess += &shift`
    #[verifier::external_body]
    pub fn vx_add_assign(&mut self, rhs: &SV<S>) requires old(self)@.len() == rhs@.len() ensures final(self)@ == wadd(old(self)@, rhs@) { unimplemented!() }
}
impl<const S: usize> NegSpecImpl for SM<S> {
    open spec fn obeys_neg_spec() -> bool { false }
    open spec fn neg_req(self) -> bool { true }
    open spec fn neg_spec(self) -> SM<S> { arbitrary() }
}
impl<const S: usize> core::ops::Neg for SM<S> { type Output = SM<S>; #[verifier::external_body] fn neg(self) -> (r: SM<S>) ensures r.id@ == mneg(self.id@) { unimplemented!() } }
impl<const S: usize> NegSpecImpl for &SM<S> {
    open spec fn obeys_neg_spec() -> bool { false }
    open spec fn neg_req(self) -> bool { true }
    open spec fn neg_spec(self) -> SM<S> { arbitrary() }
}
impl<const S: usize> core::ops::Neg for &SM<S> { type Output = SM<S>; #[verifier::external_body] fn neg(self) -> (r: SM<S>) ensures r.id@ == mneg(self.id@) { unimplemented!() } }
impl<const S: usize> MulSpecImpl<SV<S>> for SM<S> {
    open spec fn obeys_mul_spec() -> bool { false }
    open spec fn mul_req(self, rhs: SV<S>) -> bool { true }
    open spec fn mul_spec(self, rhs: SV<S>) -> SV<S> { arbitrary() }
}
impl<const S: usize> core::ops::Mul<SV<S>> for SM<S> { type Output = SV<S>; #[verifier::external_body] fn mul(self, rhs: SV<S>) -> (r: SV<S>) ensures r@ == mv(self.id@, rhs@), r@.len() == rhs@.len() { unimplemented!() } }
impl<const S: usize> NegSpecImpl for SRow<S> {
    open spec fn obeys_neg_spec() -> bool { false }
    open spec fn neg_req(self) -> bool { true }
    open spec fn neg_spec(self) -> SRow<S> { arbitrary() }
}
impl<const S: usize> core::ops::Neg for SRow<S> { type Output = SRow<S>; #[verifier::external_body] fn neg(self) -> (r: SRow<S>) ensures r.v@ == wneg(self.v@) { unimplemented!() } }
impl<const S: usize> MulSpecImpl<SV<S>> for SRow<S> {
    open spec fn obeys_mul_spec() -> bool { false }
    open spec fn mul_req(self, rhs: SV<S>) -> bool { true }
    open spec fn mul_spec(self, rhs: SV<S>) -> S11 { arbitrary() }
}
impl<const S: usize> core::ops::Mul<SV<S>> for SRow<S> { type Output = S11; #[verifier::external_body] fn mul(self, rhs: SV<S>) -> (r: S11) ensures r.x@ == wdot(self.v@, rhs@) { unimplemented!() } }
impl<const S: usize> MulSpecImpl<SM<S>> for SRow<S> {
    open spec fn obeys_mul_spec() -> bool { false }
    open spec fn mul_req(self, rhs: SM<S>) -> bool { true }
    open spec fn mul_spec(self, rhs: SM<S>) -> SRow<S> { arbitrary() }
}
impl<const S: usize> core::ops::Mul<SM<S>> for SRow<S> { type Output = SRow<S>; #[verifier::external_body] fn mul(self, rhs: SM<S>) -> (r: SRow<S>) ensures r.v@ == rowmul(self.v@, rhs.id@) { unimplemented!() } }
impl<const S: usize> MulSpecImpl<SRow<S>> for SV<S> {
    open spec fn obeys_mul_spec() -> bool { false }
    open spec fn mul_req(self, rhs: SRow<S>) -> bool { true }
    open spec fn mul_spec(self, rhs: SRow<S>) -> SM<S> { arbitrary() }
}
impl<const S: usize> core::ops::Mul<SRow<S>> for SV<S> { type Output = SM<S>; #[verifier::external_body] fn mul(self, rhs: SRow<S>) -> (r: SM<S>) ensures r.id@ == mouter(self@, rhs.v@) { unimplemented!() } }
impl<const S: usize> DivSpecImpl<R> for SM<S> {
    open spec fn obeys_div_spec() -> bool { false }
    open spec fn div_req(self, rhs: R) -> bool { true }
    open spec fn div_spec(self, rhs: R) -> SM<S> { arbitrary() }
}
impl<const S: usize> core::ops::Div<R> for SM<S> { type Output = SM<S>; #[verifier::external_body] fn div(self, rhs: R) -> (r: SM<S>) ensures r.id@ == mdivs(self.id@, rhs@) { unimplemented!() } }
impl<const S: usize> SM<S> {
    // `jac_inv += M`
    #[verifier::external_body]
    pub fn vx_add_assign(&mut self, rhs: SM<S>) ensures final(self).id@ == madd(old(self).id@, rhs.id@) { unimplemented!() }
}

