// ---------------------------------------------------------------------------
// prelude/lm.rs -- TRUSTED shims for the Levenberg-Marquardt units (needs prelude/nalg.rs): nalgebra's dynamically sized
// vector (DVector<N> -> DV), the remaining DMatrix operations the two curve fitting routines use, the three linear
// solvers (LU, full-pivot LU, QR -> one shim DMSolver) and the iterator-adapter expressions of those routines spelled as helpers.
// Matrix product, matrix-vector product and the solution of a linear system are UNINTERPRETED: the contracts pin down which
// matrices and vectors the routine combines, not linear algebra.
// ---------------------------------------------------------------------------
pub struct DV { pub v: Vec<R> }
impl View for DV { type V = Seq<real>; open spec fn view(&self) -> Seq<real> { Seq::new(self.v@.len(), |i: int| self.v@[i]@) } }
impl Clone for DV { #[verifier::external_body] fn clone(&self) -> (r: DV) ensures r@ == self@ { unimplemented!() } }
pub type MF2 = spec_fn(int, int) -> real;
pub uninterp spec fn mm(a: MF2, b: MF2, inner: nat) -> MF2;                                  // matrix product
pub uninterp spec fn mvv(a: MF2, nrows: nat, ncols: nat, v: Seq<real>) -> Seq<real>;      // matrix times vector
pub uninterp spec fn lsolve(a: MF2, n: nat, rhs: Seq<real>) -> Seq<real>;                 // the solution x of a x = rhs
// sum of squares of the first n entries (modulus_squared of a real is its square)
pub open spec fn ssq(a: Seq<real>, n: int) -> real decreases n { if n <= 0 { 0real } else { ssq(a, n - 1) + a[n - 1] * a[n - 1] } }
impl DV {
    // DVector::from_column_slice
    #[verifier::external_body]
    pub fn vx_from_slice(s: &[R]) -> (r: DV) ensures r@ == sl(s) { unimplemented!() }
    // `&a - &b`
    #[verifier::external_body]
    pub fn vx_sub_ref(&self, o: &DV) -> (r: DV) requires self@.len() == o@.len() ensures r@ == wsub(self@, o@) { unimplemented!() }
}
// `d.iter().map(|&r| r.modulus_squared()).fold(0, |acc, r| acc + r)`
#[verifier::external_body]
pub fn vx_sum_sq(d: &DV) -> (r: R) ensures r@ == ssq(d@, d@.len() as int) { unimplemented!() }
#[verifier::external_body]
pub fn vx_sum_sq_vec(d: &Vec<R>) -> (r: R) ensures r@ == ssq(Seq::new(d@.len(), |i: int| d@[i]@), d@.len() as int) { unimplemented!() }
// `SVector::<N, V>::from_column_slice(s)` (panics unless s has exactly V entries)
#[verifier::external_body]
pub fn vx_svec_from_slice(s: &[R]) -> (r: Vec<R>) ensures r@.len() == s@.len(), forall|i: int| 0 <= i < s@.len() ==> r@[i]@ == s@[i]@ { unimplemented!() }
// `p + &b` (SVector + &DVector; nalgebra panics on a dimension mismatch)
#[verifier::external_body]
pub fn vx_svec_add(p: &Vec<R>, b: &DV) -> (r: Vec<R>) requires p@.len() == b@.len() ensures r@.len() == p@.len(), forall|i: int| 0 <= i < p@.len() ==> r@[i]@ == p@[i]@ + b@[i] { unimplemented!() }
// `p += &b`
#[verifier::external_body]
pub fn vx_svec_add_assign(p: &mut Vec<R>, b: &DV) requires old(p)@.len() == b@.len() ensures final(p)@.len() == old(p)@.len(), forall|i: int| 0 <= i < old(p)@.len() ==> final(p)@[i]@ == old(p)@[i]@ + b@[i] { unimplemented!() }
impl Clone for DM { #[verifier::external_body] fn clone(&self) -> (r: DM) ensures r == *self { unimplemented!() } }
impl DM {
    #[verifier::external_body]
    pub fn identity(r: usize, c: usize) -> (m: DM) ensures m.nrows == r, m.ncols == c { unimplemented!() }
    #[verifier::external_body]
    pub fn transpose(&self) -> (m: DM) ensures m.nrows == self.ncols, m.ncols == self.nrows, forall|r: int, c: int| #![trigger m.at(r, c)] m.at(r, c) == self.at(c, r) { unimplemented!() }
    // `&a * &b`
    #[verifier::external_body]
    pub fn vx_mul(&self, o: &DM) -> (m: DM) requires self.ncols == o.nrows ensures m.nrows == self.nrows, m.ncols == o.ncols, m.e@ == mm(self.e@, o.e@, self.ncols as nat) { unimplemented!() }
    // `&a * &v`
    #[verifier::external_body]
    pub fn vx_mul_vec(&self, v: &DV) -> (r: DV) requires self.ncols == v@.len() ensures r@.len() == self.nrows, r@ == mvv(self.e@, self.nrows as nat, self.ncols as nat, v@) { unimplemented!() }
    // `m[(i, j)] *= s`
    #[verifier::external_body]
    pub fn vx_mul_at(&mut self, idx: (usize, usize), s: R)
        requires idx.0 < old(self).nrows, idx.1 < old(self).ncols
        ensures final(self).nrows == old(self).nrows, final(self).ncols == old(self).ncols,
                forall|r: int, c: int| #![trigger final(self).at(r, c)] final(self).at(r, c) == if r == idx.0 && c == idx.1 { old(self).at(r, c) * s@ } else { old(self).at(r, c) }
    { unimplemented!() }
    #[verifier::external_body]
    pub fn lu(self) -> (l: DMSolver) ensures l.e == self.e, l.n == self.nrows { unimplemented!() }
    #[verifier::external_body]
    pub fn full_piv_lu(self) -> (l: DMSolver) ensures l.e == self.e, l.n == self.nrows { unimplemented!() }
    #[verifier::external_body]
    pub fn qr(self) -> (l: DMSolver) ensures l.e == self.e, l.n == self.nrows { unimplemented!() }
}
// LU / FullPivLU / QR decomposition of a square matrix: solve_mut overwrites b with the solution and answers whether there is one
pub struct DMSolver { pub e: Ghost<MF2>, pub n: usize }
impl DMSolver {
    #[verifier::external_body]
    pub fn solve_mut(&self, b: &mut DV) -> (ok: bool)
        ensures final(b)@.len() == old(b)@.len(), ok ==> final(b)@ == lsolve(self.e@, self.n as nat, old(b)@)
    { unimplemented!() }
}
