// ---------------------------------------------------------------------------
// prelude/real.rs -- TRUSTED shim: the number type.
// The generic number type N (and f64) of the extracted code is instantiated by R,
// whose view is a mathematical real.  All arithmetic is exact ("machine
// arithmetic treated as mathematical").  x / 0 is an unspecified real.
// ---------------------------------------------------------------------------
pub struct R { pub g: Ghost<real> }

impl View for R { type V = real; open spec fn view(&self) -> real { self.g@ } }

impl Clone for R {
    #[verifier::external_body]
    fn clone(&self) -> (r: R) ensures r == *self { unimplemented!() }
}
impl Copy for R {}

pub open spec fn rabs(x: real) -> real { if x < 0real { -x } else { x } }
pub open spec fn rmin(x: real, y: real) -> real { if x <= y { x } else { y } }
pub open spec fn rmax(x: real, y: real) -> real { if x >= y { x } else { y } }
pub open spec fn rpowi(x: real, n: int) -> real decreases n { if n <= 0 { 1real } else { x * rpowi(x, n - 1) } }
pub uninterp spec fn rsqrt(x: real) -> real;
pub uninterp spec fn rpi() -> real;
pub uninterp spec fn rlog2(x: real) -> real;
pub uninterp spec fn rceil(x: real) -> real;
pub uninterp spec fn rpowf(x: real, y: real) -> real;
// ---- TRUSTED facts about 2^x, log2 and ceil on the reals (used by the ITP unit only) ----
#[verifier::external_body]
pub proof fn axiom_pow2_step(x: real) ensures rpowf(2real, x) == 2real * rpowf(2real, x - 1real), rpowf(2real, x) > 0real {}
#[verifier::external_body]
pub proof fn axiom_pow2_mono(x: real, y: real) requires x <= y ensures rpowf(2real, x) <= rpowf(2real, y) {}
#[verifier::external_body]
pub proof fn axiom_pow2_zero() ensures rpowf(2real, 0real) == 1real {}
// y <= 2^ceil(log2 y)
#[verifier::external_body]
pub proof fn axiom_log2_ceil(y: real) requires y > 0real ensures y <= rpowf(2real, rceil(rlog2(y))) {}

pub uninterp spec fn rexp(x: real) -> real;
pub uninterp spec fn rln(x: real) -> real;
pub uninterp spec fn rsin(x: real) -> real;
pub uninterp spec fn rcos(x: real) -> real;
pub uninterp spec fn sign_pos_at_zero(tag: int) -> bool;

// R is a value type: two R with the same view are the same value.
pub broadcast proof fn r_ext(a: R, b: R)
    requires #[trigger] a@ == #[trigger] b@
    ensures a == b
{ admit_r_ext(a, b); }
#[verifier::external_body]
pub proof fn admit_r_ext(a: R, b: R) ensures a@ == b@ ==> a == b { }

impl AddSpecImpl<R> for R {
    open spec fn obeys_add_spec() -> bool { false }
    open spec fn add_req(self, rhs: R) -> bool { true }
    open spec fn add_spec(self, rhs: R) -> R { arbitrary() }
}
impl core::ops::Add<R> for R {
    type Output = R;
    #[verifier::external_body]
    fn add(self, rhs: R) -> (r: R) ensures r@ == self@ + rhs@ { unimplemented!() }
}
impl SubSpecImpl<R> for R {
    open spec fn obeys_sub_spec() -> bool { false }
    open spec fn sub_req(self, rhs: R) -> bool { true }
    open spec fn sub_spec(self, rhs: R) -> R { arbitrary() }
}
impl core::ops::Sub<R> for R {
    type Output = R;
    #[verifier::external_body]
    fn sub(self, rhs: R) -> (r: R) ensures r@ == self@ - rhs@ { unimplemented!() }
}
impl MulSpecImpl<R> for R {
    open spec fn obeys_mul_spec() -> bool { false }
    open spec fn mul_req(self, rhs: R) -> bool { true }
    open spec fn mul_spec(self, rhs: R) -> R { arbitrary() }
}
impl core::ops::Mul<R> for R {
    type Output = R;
    #[verifier::external_body]
    // both operand orders are stated: Verus leaves a product of two non-literals uninterpreted, and a refactor that commutes a
    // product in the source must not change what is provable (multiplication of reals is commutative)
    fn mul(self, rhs: R) -> (r: R) ensures r@ == self@ * rhs@, r@ == rhs@ * self@ { unimplemented!() }
}
impl DivSpecImpl<R> for R {
    open spec fn obeys_div_spec() -> bool { false }
    open spec fn div_req(self, rhs: R) -> bool { true }
    open spec fn div_spec(self, rhs: R) -> R { arbitrary() }
}
impl core::ops::Div<R> for R {
    type Output = R;
    // total, like f64: the value at rhs == 0 is simply unspecified
    #[verifier::external_body]
    fn div(self, rhs: R) -> (r: R) ensures rhs@ != 0real ==> r@ == self@ / rhs@ { unimplemented!() }
}
impl NegSpecImpl for R {
    open spec fn obeys_neg_spec() -> bool { false }
    open spec fn neg_req(self) -> bool { true }
    open spec fn neg_spec(self) -> R { arbitrary() }
}
impl core::ops::Neg for R {
    type Output = R;
    #[verifier::external_body]
    fn neg(self) -> (r: R) ensures r@ == -self@ { unimplemented!() }
}
impl AddAssignSpecImpl<R> for R {
    open spec fn obeys_add_assign_spec() -> bool { false }
    open spec fn add_assign_req(&self, rhs: R) -> bool { true }
    open spec fn add_assign_spec(&self, rhs: R) -> &Self { arbitrary() }
}
impl core::ops::AddAssign<R> for R {
    #[verifier::external_body]
    fn add_assign(&mut self, rhs: R) ensures final(self)@ == old(self)@ + rhs@ { unimplemented!() }
}
impl SubAssignSpecImpl<R> for R {
    open spec fn obeys_sub_assign_spec() -> bool { false }
    open spec fn sub_assign_req(&self, rhs: R) -> bool { true }
    open spec fn sub_assign_spec(&self, rhs: R) -> &Self { arbitrary() }
}
impl core::ops::SubAssign<R> for R {
    #[verifier::external_body]
    fn sub_assign(&mut self, rhs: R) ensures final(self)@ == old(self)@ - rhs@ { unimplemented!() }
}
impl MulAssignSpecImpl<R> for R {
    open spec fn obeys_mul_assign_spec() -> bool { false }
    open spec fn mul_assign_req(&self, rhs: R) -> bool { true }
    open spec fn mul_assign_spec(&self, rhs: R) -> &Self { arbitrary() }
}
impl core::ops::MulAssign<R> for R {
    #[verifier::external_body]
    fn mul_assign(&mut self, rhs: R) ensures final(self)@ == old(self)@ * rhs@, final(self)@ == rhs@ * old(self)@ { unimplemented!() }
}
impl DivAssignSpecImpl<R> for R {
    open spec fn obeys_div_assign_spec() -> bool { false }
    open spec fn div_assign_req(&self, rhs: R) -> bool { true }
    open spec fn div_assign_spec(&self, rhs: R) -> &Self { arbitrary() }
}
impl core::ops::DivAssign<R> for R {
    #[verifier::external_body]
    fn div_assign(&mut self, rhs: R) ensures rhs@ != 0real ==> final(self)@ == old(self)@ / rhs@ { unimplemented!() }
}

impl PartialEqSpecImpl for R {
    open spec fn obeys_eq_spec() -> bool { true }
    open spec fn eq_spec(&self, other: &R) -> bool { self@ == other@ }
}
impl PartialEq for R {
    #[verifier::external_body]
    fn eq(&self, other: &R) -> (b: bool) { unimplemented!() }
}
impl PartialOrdSpecImpl for R {
    open spec fn obeys_partial_cmp_spec() -> bool { true }
    open spec fn partial_cmp_spec(&self, other: &R) -> Option<Ordering> {
        if self@ < other@ { Some(Ordering::Less) } else if self@ == other@ { Some(Ordering::Equal) } else { Some(Ordering::Greater) }
    }
}
impl PartialOrd for R {
    #[verifier::external_body]
    fn partial_cmp(&self, other: &R) -> (o: Option<Ordering>) { unimplemented!() }
}

pub trait ToR: Sized {
    spec fn tor(self) -> real;
    fn to_r(self) -> (r: R) ensures r@ == self.tor();
}
impl ToR for usize { open spec fn tor(self) -> real { self as real }
    #[verifier::external_body] fn to_r(self) -> (r: R) { unimplemented!() } }
impl ToR for u32 { open spec fn tor(self) -> real { self as real }
    #[verifier::external_body] fn to_r(self) -> (r: R) { unimplemented!() } }
impl ToR for u64 { open spec fn tor(self) -> real { self as real }
    #[verifier::external_body] fn to_r(self) -> (r: R) { unimplemented!() } }
impl ToR for i32 { open spec fn tor(self) -> real { self as real }
    #[verifier::external_body] fn to_r(self) -> (r: R) { unimplemented!() } }
impl ToR for R { open spec fn tor(self) -> real { self@ }
    #[verifier::external_body] fn to_r(self) -> (r: R) { unimplemented!() } }

impl R {
    // exact decimal literal p/q (rule R3)
    #[verifier::external_body]
    pub fn lit(p: i128, q: u128) -> (r: R)
        ensures r@ == p as real / q as real { unimplemented!() }
    // `e as f64` (rule R3)
    pub fn cast<T: ToR>(e: T) -> (r: R) ensures r@ == e.tor() { e.to_r() }

    #[verifier::external_body]
    pub fn from_f64(x: R) -> (r: Option<R>) ensures r == Some(x) { unimplemented!() }
    #[verifier::external_body]
    pub fn from_usize(x: usize) -> (r: Option<R>) ensures r.is_some(), r.unwrap()@ == x as real { unimplemented!() }
    #[verifier::external_body]
    pub fn from_u8(x: u8) -> (r: Option<R>) ensures r.is_some(), r.unwrap()@ == x as real { unimplemented!() }
    #[verifier::external_body]
    pub fn from_u16(x: u16) -> (r: Option<R>) ensures r.is_some(), r.unwrap()@ == x as real { unimplemented!() }
    #[verifier::external_body]
    pub fn from_u32(x: u32) -> (r: Option<R>) ensures r.is_some(), r.unwrap()@ == x as real { unimplemented!() }
    #[verifier::external_body]
    pub fn from_u64(x: u64) -> (r: Option<R>) ensures r.is_some(), r.unwrap()@ == x as real { unimplemented!() }
    #[verifier::external_body]
    pub fn from_i32(x: i32) -> (r: Option<R>) ensures r.is_some(), r.unwrap()@ == x as real { unimplemented!() }
    #[verifier::external_body]
    pub fn from_i64(x: i64) -> (r: Option<R>) ensures r.is_some(), r.unwrap()@ == x as real { unimplemented!() }
    #[verifier::external_body]
    pub fn from_real(x: R) -> (r: R) ensures r == x { unimplemented!() }
    #[verifier::external_body]
    pub fn real(self) -> (r: R) ensures r == self { unimplemented!() }
    #[verifier::external_body]
    pub fn imaginary(self) -> (r: R) ensures r@ == 0real { unimplemented!() }
    #[verifier::external_body]
    pub fn zero() -> (r: R) ensures r@ == 0real { unimplemented!() }
    #[verifier::external_body]
    pub fn one() -> (r: R) ensures r@ == 1real { unimplemented!() }
    #[verifier::external_body]
    pub fn is_zero(&self) -> (b: bool) ensures b == (self@ == 0real) { unimplemented!() }
    #[verifier::external_body]
    pub fn abs(self) -> (r: R) ensures r@ == rabs(self@) { unimplemented!() }
    #[verifier::external_body]
    pub fn modulus(self) -> (r: R) ensures r@ == rabs(self@) { unimplemented!() }
    #[verifier::external_body]
    pub fn min(self, o: R) -> (r: R) ensures r@ == rmin(self@, o@) { unimplemented!() }
    #[verifier::external_body]
    pub fn max(self, o: R) -> (r: R) ensures r@ == rmax(self@, o@) { unimplemented!() }
    #[verifier::external_body]
    pub fn powi(self, n: i32) -> (r: R) ensures n >= 0 ==> r@ == rpowi(self@, n as int) { unimplemented!() }
    // sqrt: only for non-negative arguments is anything known (negative -> NaN in f64)
    #[verifier::external_body]
    pub fn sqrt(self) -> (r: R) ensures r@ == rsqrt(self@), self@ >= 0real ==> (r@ >= 0real && r@ * r@ == self@) { unimplemented!() }
    // sign bit: unconstrained at 0 (+0.0 / -0.0)
    #[verifier::external_body]
    pub fn is_sign_positive(self) -> (b: bool) ensures self@ > 0real ==> b, self@ < 0real ==> !b { unimplemented!() }
    #[verifier::external_body]
    pub fn is_sign_negative(self) -> (b: bool) ensures self@ > 0real ==> !b, self@ < 0real ==> b { unimplemented!() }
    // transcendental functions: uninterpreted (nothing is known about their values)
    // every R is a (finite) real: NaN / infinity are not modelled
    #[verifier::external_body]
    pub fn is_finite(self) -> (b: bool) ensures b { unimplemented!() }
    #[verifier::external_body]
    pub fn log2(self) -> (r: R) ensures r@ == rlog2(self@) { unimplemented!() }
    #[verifier::external_body]
    pub fn ceil(self) -> (r: R) ensures r@ == rceil(self@) { unimplemented!() }
    #[verifier::external_body]
    pub fn powf(self, y: R) -> (r: R) ensures r@ == rpowf(self@, y@), self@ > 0real ==> r@ > 0real, 0real < self@ < 1real && y@ > 0real ==> r@ < 1real { unimplemented!() }
    #[verifier::external_body]
    pub fn exp(self) -> (r: R) ensures r@ == rexp(self@) { unimplemented!() }
    #[verifier::external_body]
    pub fn ln(self) -> (r: R) ensures r@ == rln(self@) { unimplemented!() }
    #[verifier::external_body]
    pub fn sin(self) -> (r: R) ensures r@ == rsin(self@) { unimplemented!() }
    #[verifier::external_body]
    pub fn cos(self) -> (r: R) ensures r@ == rcos(self@) { unimplemented!() }
    #[verifier::external_body]
    pub fn pi() -> (r: R) ensures r@ == rpi() { unimplemented!() }
}
