// prelude/rkh.rs -- TRUSTED shim for the D x O stage matrix of the Runge-Kutta solver (needs prelude/ivp.rs)
// BMatrix<N, D, Const<O>>: O columns, each a D-vector
pub struct HM { pub cols: Ghost<Seq<Seq<real>>> }
impl HM {
    // BMatrix::from_element_generic(dim, Const<O>, 0): O zero columns of the given dimension
    #[verifier::external_body]
    pub fn vx_zeros<D: Dimension>(dim: D, ncols: usize) -> (r: HM) ensures r.cols@.len() == ncols, forall|j: int| 0 <= j < ncols ==> #[trigger] r.cols@[j] == vzero(dim.size()) { unimplemented!() }
    #[verifier::external_body]
    pub fn column(&self, j: usize) -> (r: V) requires j < self.cols@.len() ensures r@ == self.cols@[j as int] { unimplemented!() }
    #[verifier::external_body]
    pub fn set_column(&mut self, j: usize, v: &V) requires j < old(self).cols@.len() ensures final(self).cols@ == old(self).cols@.update(j as int, v@) { unimplemented!() }
}
