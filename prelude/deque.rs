// ---------------------------------------------------------------------------
// prelude/deque.rs -- assumed specifications of the two std VecDeque functions vstd does not specify
// (units that use it set crate_attrs = ["#![feature(allocator_api)]", ..]: assume_specification must name the allocator parameter)
// ---------------------------------------------------------------------------
pub assume_specification<T, A: core::alloc::Allocator>[ VecDeque::<T, A>::is_empty ](d: &VecDeque<T, A>) -> (r: bool)
    ensures r == (d@.len() == 0);
pub assume_specification<T, A: core::alloc::Allocator>[ VecDeque::<T, A>::back ](d: &VecDeque<T, A>) -> (r: Option<&T>)
    ensures d@.len() == 0 ==> r is None, d@.len() > 0 ==> r is Some && *r->Some_0 == d@[d@.len() - 1];
