// ---------------------------------------------------------------------------
// prelude/ivp.rs -- TRUSTED shims for the IVP units: nalgebra vector type, dimension markers,
// the user error type, and the (two-line) Dimension trait of src/lib.rs restated with its contract.
// ---------------------------------------------------------------------------
// Box<dyn Error>: an opaque token
pub struct UserError { pub id: Ghost<int> }

// nalgebra `Const<C>` and `Dyn` dimension markers
#[derive(Clone, Copy)]
pub struct Const<const C: usize>;
impl<const C: usize> Const<C> {
    pub fn name() -> (r: Self) { Const }
}
#[derive(Clone, Copy)]
pub struct Dyn(pub usize);
impl Dyn {
    pub fn from_usize(n: usize) -> (r: Self) ensures r.0 == n { Dyn(n) }
}

// src/lib.rs: `pub trait Dimension: Dim { fn dim() -> Result<Self, DimensionError>; fn dim_dyn(size: usize) -> Result<Self, DimensionError>; }`
// restated with the contract every implementation must meet (C06: static/dynamic misuse gets its dedicated error)
pub trait Dimension: Sized + Copy {
    spec fn static_size() -> Option<nat>;
    spec fn size(&self) -> nat;
    fn dim() -> (r: Result<Self, DimensionError>)
        ensures
            Self::static_size() is Some ==> (r is Ok && r->Ok_0.size() == Self::static_size()->Some_0),
            Self::static_size() is None ==> (r is Err && r->Err_0 is StaticOnDynamic);
    fn dim_dyn(size: usize) -> (r: Result<Self, DimensionError>)
        ensures
            Self::static_size() is Some ==> (r is Err && r->Err_0 is DynamicOnStatic),
            Self::static_size() is None ==> (r is Ok && r->Ok_0.size() == size);
}

// nalgebra's (possibly dynamically sized) column vector over the number type: a sequence of reals
pub struct V { pub v: Vec<R> }
impl View for V { type V = Seq<real>; open spec fn view(&self) -> Seq<real> { Seq::new(self.v@.len(), |i: int| self.v@[i]@) } }
pub open spec fn slice_view(s: &[R]) -> Seq<real> { Seq::new(s@.len(), |i: int| s@[i]@) }
pub open spec fn vadd(a: Seq<real>, b: Seq<real>) -> Seq<real> { Seq::new(a.len(), |i: int| a[i] + b[i]) }
pub open spec fn vsub(a: Seq<real>, b: Seq<real>) -> Seq<real> { Seq::new(a.len(), |i: int| a[i] - b[i]) }
pub open spec fn vscale(a: Seq<real>, s: real) -> Seq<real> { Seq::new(a.len(), |i: int| a[i] * s) }
pub open spec fn vzero(n: nat) -> Seq<real> { Seq::new(n, |i: int| 0real) }
pub uninterp spec fn vnorm(a: Seq<real>) -> real;
pub broadcast proof fn axiom_vnorm_nonneg(a: Seq<real>) ensures #[trigger] vnorm(a) >= 0real { admit(); }
impl Clone for V {
    #[verifier::external_body]
    fn clone(&self) -> (r: V) ensures r@ == self@ { unimplemented!() }
}
impl V {
    // BVector::from_element_generic(dim, U1, 0): the zero vector of the given dimension
    #[verifier::external_body]
    pub fn vx_zeros<D: Dimension>(dim: D) -> (r: V) ensures r@ == vzero(dim.size()) { unimplemented!() }
    #[verifier::external_body]
    pub fn as_slice(&self) -> (r: &[R]) ensures r@.len() == self@.len(), forall|i: int| 0 <= i < r@.len() ==> r@[i]@ == self@[i], slice_view(r) == self@ { unimplemented!() }
    #[verifier::external_body]
    pub fn norm(&self) -> (r: R) ensures r@ == vnorm(self@) { unimplemented!() }
    #[verifier::external_body]
    pub fn len(&self) -> (r: usize) ensures r == self@.len() { unimplemented!() }
}
impl MulSpecImpl<R> for V {
    open spec fn obeys_mul_spec() -> bool { false }
    open spec fn mul_req(self, rhs: R) -> bool { true }
    open spec fn mul_spec(self, rhs: R) -> V { arbitrary() }
}
impl core::ops::Mul<R> for V {
    type Output = V;
    #[verifier::external_body]
    fn mul(self, rhs: R) -> (r: V) ensures r@ == vscale(self@, rhs@) { unimplemented!() }
}
impl AddAssignSpecImpl<V> for V {
    open spec fn obeys_add_assign_spec() -> bool { false }
    open spec fn add_assign_req(&self, rhs: V) -> bool { self@.len() == rhs@.len() }
    open spec fn add_assign_spec(&self, rhs: V) -> &Self { arbitrary() }
}
impl core::ops::AddAssign<V> for V {
    #[verifier::external_body]
    fn add_assign(&mut self, rhs: V) ensures final(self)@ == vadd(old(self)@, rhs@) { unimplemented!() }
}
// further nalgebra vector operators used by the multistep solvers (reference and owned operands)
impl AddSpecImpl<V> for V {
    open spec fn obeys_add_spec() -> bool { false }
    open spec fn add_req(self, rhs: V) -> bool { self@.len() == rhs@.len() }
    open spec fn add_spec(self, rhs: V) -> V { arbitrary() }
}
impl core::ops::Add<V> for V { type Output = V; #[verifier::external_body] fn add(self, rhs: V) -> (r: V) ensures r@ == vadd(self@, rhs@) { unimplemented!() } }
impl<'a> AddSpecImpl<V> for &'a V {
    open spec fn obeys_add_spec() -> bool { false }
    open spec fn add_req(self, rhs: V) -> bool { self@.len() == rhs@.len() }
    open spec fn add_spec(self, rhs: V) -> V { arbitrary() }
}
impl<'a> core::ops::Add<V> for &'a V { type Output = V; #[verifier::external_body] fn add(self, rhs: V) -> (r: V) ensures r@ == vadd(self@, rhs@) { unimplemented!() } }
impl AddSpecImpl<&V> for &V {
    open spec fn obeys_add_spec() -> bool { false }
    open spec fn add_req(self, rhs: &V) -> bool { self@.len() == rhs@.len() }
    open spec fn add_spec(self, rhs: &V) -> V { arbitrary() }
}
impl core::ops::Add<&V> for &V { type Output = V; #[verifier::external_body] fn add(self, rhs: &V) -> (r: V) ensures r@ == vadd(self@, rhs@) { unimplemented!() } }
pub open spec fn vneg(a: Seq<real>) -> Seq<real> { Seq::new(a.len(), |i: int| -a[i]) }
impl NegSpecImpl for V {
    open spec fn obeys_neg_spec() -> bool { false }
    open spec fn neg_req(self) -> bool { true }
    open spec fn neg_spec(self) -> V { arbitrary() }
}
impl core::ops::Neg for V { type Output = V; #[verifier::external_body] fn neg(self) -> (r: V) ensures r@ == vneg(self@) { unimplemented!() } }
impl SubSpecImpl<V> for V {
    open spec fn obeys_sub_spec() -> bool { false }
    open spec fn sub_req(self, rhs: V) -> bool { self@.len() == rhs@.len() }
    open spec fn sub_spec(self, rhs: V) -> V { arbitrary() }
}
impl core::ops::Sub<V> for V { type Output = V; #[verifier::external_body] fn sub(self, rhs: V) -> (r: V) ensures r@ == vsub(self@, rhs@) { unimplemented!() } }
impl V {
    // `&a - &b` (rule R29: this Verus build fails internally on a user Sub<&V> for &V instance, so the operator is spelled as a call)
    #[verifier::external_body]
    pub fn vx_sub_ref(&self, rhs: &V) -> (r: V) requires self@.len() == rhs@.len() ensures r@ == vsub(self@, rhs@) { unimplemented!() }
}
impl<'a> MulSpecImpl<R> for &'a V {
    open spec fn obeys_mul_spec() -> bool { false }
    open spec fn mul_req(self, rhs: R) -> bool { true }
    open spec fn mul_spec(self, rhs: R) -> V { arbitrary() }
}
impl<'a> core::ops::Mul<R> for &'a V { type Output = V; #[verifier::external_body] fn mul(self, rhs: R) -> (r: V) ensures r@ == vscale(self@, rhs@) { unimplemented!() } }
