// ---------------------------------------------------------------------------
// prelude/dmx.rs -- TRUSTED shims for the dynamically sized nalgebra values used by BDF's quasi-Newton solver
// (BMatrix<N, D, D>, its decompositions, row vectors).  A matrix is an opaque id with an `entry` view; the only
// operations that carry a contract are the ones the finite-difference Jacobian contract needs (zeros, set_column)
// and Some/None of the inverses; the Broyden update operations are typed only (nothing about their values is assumed).
// ---------------------------------------------------------------------------
pub struct DMx { pub id: Ghost<int> }
impl Clone for DMx { #[verifier::external_body] fn clone(&self) -> (r: DMx) ensures r == *self { unimplemented!() } }
pub struct DLu { pub id: Ghost<int> }
pub struct DRow { pub id: Ghost<int> }
impl Clone for DRow { #[verifier::external_body] fn clone(&self) -> (r: DRow) ensures r == *self { unimplemented!() } }
pub struct D11 { pub id: Ghost<int> }
pub uninterp spec fn dentry(m: int, r: int, c: int) -> real;
pub uninterp spec fn dncols(m: int) -> nat;
impl DMx {
    // BMatrix::from_element_generic(dim, dim, 0): a dim x dim matrix
    #[verifier::external_body]
    pub fn zeros<D: Dimension>(r: D, c: D) -> (m: DMx) ensures dncols(m.id@) == c.size() { unimplemented!() }
    #[verifier::external_body]
    pub fn ncols(&self) -> (n: usize) ensures n == dncols(self.id@) { unimplemented!() }
    // `col.set_column(0, v)` on column `j` of column_iter_mut() (rule R26): column j becomes v, the other columns keep their entries
    #[verifier::external_body]
    pub fn set_column(&mut self, j: usize, v: &V)
        requires j < dncols(old(self).id@)
        ensures dncols(final(self).id@) == dncols(old(self).id@),
            forall|r: int, c: int| #![trigger dentry(final(self).id@, r, c)] dentry(final(self).id@, r, c) == if c == j { v@[r] } else { dentry(old(self).id@, r, c) }
    { unimplemented!() }
    #[verifier::external_body]
    pub fn lu(self) -> (r: DLu) { unimplemented!() }
    #[verifier::external_body]
    pub fn full_piv_lu(self) -> (r: DLu) { unimplemented!() }
    #[verifier::external_body]
    pub fn qr(self) -> (r: DLu) { unimplemented!() }
    #[verifier::external_body]
    pub fn vx_add_assign(&mut self, rhs: DMx) { unimplemented!() }
}
impl DLu { #[verifier::external_body] pub fn try_inverse(self) -> (r: Option<DMx>) { unimplemented!() } }
impl D11 { #[verifier::external_body] pub fn vx_at(&self, idx: (usize, usize)) -> (r: R) { unimplemented!() } }
impl V {
    #[verifier::external_body]
    pub fn transpose(self) -> (r: DRow) { unimplemented!() }
    #[verifier::external_body]
    pub fn vx_add_assign(&mut self, rhs: &V) requires old(self)@.len() == rhs@.len() ensures final(self)@ == vadd(old(self)@, rhs@) { unimplemented!() }
    #[verifier::external_body]
    pub fn vx_add_at(&mut self, i: usize, h: R) requires i < old(self)@.len() ensures final(self)@ == old(self)@.update(i as int, old(self)@[i as int] + h@) { unimplemented!() }
    #[verifier::external_body]
    pub fn vx_sub_at(&mut self, i: usize, h: R) requires i < old(self)@.len() ensures final(self)@ == old(self)@.update(i as int, old(self)@[i as int] - h@) { unimplemented!() }
    #[verifier::external_body]
    pub fn vx_from_slice<D: Dimension>(d: D, s: &[R]) -> (r: V) ensures r@ == slice_view(s) { unimplemented!() }
}
// typed-only operators of the Broyden update (no contract)
// `-&m * &v`, `-&m * v`, `-&row * &v` (rule R29: this Verus build fails internally on user operator instances for reference types,
// so these operator expressions are spelled as calls)
impl DMx {
    #[verifier::external_body]
    pub fn vx_neg_mul_ref(&self, v: &V) -> (r: V) ensures r@.len() == v@.len() { unimplemented!() }
    #[verifier::external_body]
    pub fn vx_neg_mul(&self, v: V) -> (r: V) ensures r@.len() == v@.len() { unimplemented!() }
}
impl DRow {
    #[verifier::external_body]
    pub fn vx_neg_mul_ref(&self, v: &V) -> (r: D11) { unimplemented!() }
    // `row * &m`
    #[verifier::external_body]
    pub fn vx_mul_ref(self, m: &DMx) -> (r: DRow) { unimplemented!() }
}
impl MulSpecImpl<V> for DMx { open spec fn obeys_mul_spec() -> bool { false } open spec fn mul_req(self, rhs: V) -> bool { true } open spec fn mul_spec(self, rhs: V) -> V { arbitrary() } }
impl core::ops::Mul<V> for DMx { type Output = V; #[verifier::external_body] fn mul(self, rhs: V) -> (r: V) ensures r@.len() == rhs@.len() { unimplemented!() } }
impl MulSpecImpl<DRow> for V { open spec fn obeys_mul_spec() -> bool { false } open spec fn mul_req(self, rhs: DRow) -> bool { true } open spec fn mul_spec(self, rhs: DRow) -> DMx { arbitrary() } }
impl core::ops::Mul<DRow> for V { type Output = DMx; #[verifier::external_body] fn mul(self, rhs: DRow) -> (r: DMx) { unimplemented!() } }
impl DivSpecImpl<R> for DMx { open spec fn obeys_div_spec() -> bool { false } open spec fn div_req(self, rhs: R) -> bool { true } open spec fn div_spec(self, rhs: R) -> DMx { arbitrary() } }
impl core::ops::Div<R> for DMx { type Output = DMx; #[verifier::external_body] fn div(self, rhs: R) -> (r: DMx) { unimplemented!() } }
