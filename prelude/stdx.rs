// ---------------------------------------------------------------------------
// prelude/stdx.rs -- TRUSTED facts about std that vstd does not provide.
// ---------------------------------------------------------------------------
// Elements of a slice that an `iter_mut().take(m)` never yields keep their values
// (vstd only resolves the mutable references an IterMut actually hands out).  Used by rule R11.
#[verifier::external_body]
pub proof fn axiom_iter_mut_unvisited<T>(s: Seq<&mut T>, m: int)
    ensures forall|i: int| m <= i < s.len() ==> *final(#[trigger] s[i]) == *s[i]
{ }
// `Vec::from(&[R])` clones the slice (rule R13 routes the call here: vstd has no specification for
// this From impl and its signature cannot be matched by assume_specification in this build)
#[verifier::external_body]
pub fn vx_vec_from_slice(s: &[R]) -> (v: Vec<R>) ensures v@ == s@ { Vec::from(s) }
// the quadrature tables (src/integrate/tables.rs) as seen by the integrators: an opaque table per family.
// The table CONTENTS are decided by C10; the integrators are verified for every table.
pub uninterp spec fn table_spec(id: int) -> Seq<Vec<(R, R)>>;
#[verifier::external_body]
pub fn vx_table(id: u8) -> (t: &'static Vec<Vec<(R, R)>>) ensures t@ == table_spec(id as int) { unimplemented!() }
// Iterator::any over a slice of reals with its full meaning (vstd only states `result ==> some element satisfies`);
// rule R24 routes `v.iter().any(c)` here
#[verifier::external_body]
pub fn vx_any<F: Fn(&R) -> bool>(v: &Vec<R>, f: F) -> (r: bool)
    requires forall|i: int| 0 <= i < v@.len() ==> f.requires((&#[trigger] v@[i],))
    ensures r ==> exists|i: int| 0 <= i < v@.len() && f.ensures((&#[trigger] v@[i],), true),
            !r ==> forall|i: int| 0 <= i < v@.len() ==> f.ensures((&#[trigger] v@[i],), false),
{ v.iter().any(f) }
