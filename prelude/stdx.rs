// ---------------------------------------------------------------------------
// prelude/stdx.rs -- TRUSTED facts about std that vstd does not provide.
// ---------------------------------------------------------------------------
// Elements of a slice that an `iter_mut().take(m)` never yields keep their values
// (vstd only resolves the mutable references an IterMut actually hands out).  Used by rule R11.
#[verifier::external_body]
pub proof fn axiom_iter_mut_unvisited<T>(s: Seq<&mut T>, m: int)
    ensures forall|i: int| m <= i < s.len() ==> *final(#[trigger] s[i]) == *s[i]
{ }
// `Vec::from(&[R])` clones the slice (rule R13 routes the call here: vstd has no specification for
// this From impl and its signature cannot be matched by assume_specification in this build)
#[verifier::external_body]
pub fn vx_vec_from_slice(s: &[R]) -> (v: Vec<R>) ensures v@ == s@ { Vec::from(s) }
