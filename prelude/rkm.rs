// ---------------------------------------------------------------------------
// prelude/rkm.rs -- TRUSTED shims for the Runge-Kutta / multistep units: nalgebra's statically sized coefficient
// matrix (BSMatrix<N, O, O>) and the D x O stage matrix (BMatrix<N, D, Const<O>>).  BSVector<N, O> is mapped to
// Vec<R> by the type substitution of these units.
// ---------------------------------------------------------------------------
// BSMatrix<N, O, O>: `rows@[i]@[j]` is the entry in ROW i, COLUMN j (nalgebra's m[(i, j)]).
pub struct KM<const O: usize> { pub rows: Vec<Vec<R>> }
impl<const O: usize> KM<O> {
    pub open spec fn wf(&self) -> bool { self.rows@.len() == O && forall|i: int| 0 <= i < O ==> (#[trigger] self.rows@[i])@.len() == O }
    pub open spec fn at(&self, i: int, j: int) -> real { self.rows@[i]@[j]@ }
    // nalgebra Matrix::from_vec: "the elements are in COLUMN-major order" (assumed contract on the dependency)
    #[verifier::external_body]
    pub fn from_vec(v: Vec<R>) -> (r: Self)
        requires v@.len() == O * O
        ensures r.wf(), forall|i: int, j: int| #![trigger r.at(i, j)] 0 <= i < O && 0 <= j < O ==> r.at(i, j) == v@[i + j * (O as int)]@
    { unimplemented!() }
    // nalgebra Matrix::from_column_slice: "the elements are in COLUMN-major order" (assumed contract on the dependency)
    #[verifier::external_body]
    pub fn from_column_slice(v: &[R]) -> (r: Self)
        requires v@.len() == O * O
        ensures r.wf(), forall|i: int, j: int| #![trigger r.at(i, j)] 0 <= i < O && 0 <= j < O ==> r.at(i, j) == v@[i + j * (O as int)]@
    { unimplemented!() }
    // nalgebra Matrix::from_row_slice: "the elements are in ROW-major order" (assumed contract on the dependency)
    #[verifier::external_body]
    pub fn from_row_slice(v: &[R]) -> (r: Self)
        requires v@.len() == O * O
        ensures r.wf(), forall|i: int, j: int| #![trigger r.at(i, j)] 0 <= i < O && 0 <= j < O ==> r.at(i, j) == v@[i * (O as int) + j]@
    { unimplemented!() }
}
impl R {
    #[verifier::external_body]
    pub fn recip(self) -> (r: R) ensures r@ == 1real / self@ { unimplemented!() }
}
