// prelude/cxdiv.rs -- TRUSTED: complex division with the obligation `divisor != 0` at every call site (used where the code is
// expected to guard its divisions: Polynomial::roots)
// division: the divisor must not be zero (an obligation at every call site: 0/0 and x/0 are NaN/inf in floating point)
impl DivSpecImpl<C> for C { open spec fn obeys_div_spec() -> bool { false } open spec fn div_req(self, rhs: C) -> bool { rhs@ != czero() } open spec fn div_spec(self, rhs: C) -> C { arbitrary() } }
impl core::ops::Div<C> for C { type Output = C; #[verifier::external_body] fn div(self, rhs: C) -> (r: C) ensures r@ == cdiv(self@, rhs@) { unimplemented!() } }
