// prelude/cxdivt.rs -- TRUSTED: complex division WITHOUT a call-site obligation (units whose code divides unguarded: Muller)
// division, total like the floating-point operation: the value for a zero divisor is simply unspecified (cdiv is uninterpreted and
// axiom_cdiv speaks about non-zero divisors only)
impl DivSpecImpl<C> for C { open spec fn obeys_div_spec() -> bool { false } open spec fn div_req(self, rhs: C) -> bool { true } open spec fn div_spec(self, rhs: C) -> C { arbitrary() } }
impl core::ops::Div<C> for C { type Output = C; #[verifier::external_body] fn div(self, rhs: C) -> (r: C) ensures r@ == cdiv(self@, rhs@) { unimplemented!() } }
