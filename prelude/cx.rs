// ---------------------------------------------------------------------------
// prelude/cx.rs -- TRUSTED shim: `C` stands for Complex<f64> (and for the generic N instantiated at a complex type).
// A value is an exact pair (re, im) of reals; + - * and unary - are the field operations on pairs; division and
// sqrt are specified by what they invert (q * b == a,  s * s == z); abs is the modulus.
// ---------------------------------------------------------------------------
pub struct C { pub re: Ghost<real>, pub im: Ghost<real> }
impl View for C { type V = (real, real); open spec fn view(&self) -> (real, real) { (self.re@, self.im@) } }
impl Clone for C { #[verifier::external_body] fn clone(&self) -> (r: C) ensures r@ == self@ { unimplemented!() } }
impl Copy for C {}
pub open spec fn cadd(a: (real, real), b: (real, real)) -> (real, real) { (a.0 + b.0, a.1 + b.1) }
pub open spec fn csub(a: (real, real), b: (real, real)) -> (real, real) { (a.0 - b.0, a.1 - b.1) }
pub open spec fn cneg(a: (real, real)) -> (real, real) { (-a.0, -a.1) }
pub open spec fn cmul(a: (real, real), b: (real, real)) -> (real, real) { (a.0 * b.0 - a.1 * b.1, a.0 * b.1 + a.1 * b.0) }
pub open spec fn cnorm2(a: (real, real)) -> real { a.0 * a.0 + a.1 * a.1 }
pub open spec fn czero() -> (real, real) { (0real, 0real) }
pub uninterp spec fn cdiv(a: (real, real), b: (real, real)) -> (real, real);
pub uninterp spec fn csqrt(a: (real, real)) -> (real, real);
pub uninterp spec fn cabs(a: (real, real)) -> real;
// field / modulus facts (trusted): b != 0 ==> (a / b) * b == a;  sqrt(z)^2 == z;  |z| >= 0, |z|^2 == re^2 + im^2
#[verifier::external_body]
pub proof fn axiom_cdiv(a: (real, real), b: (real, real)) requires b != czero() ensures cmul(cdiv(a, b), b) == a {}
#[verifier::external_body]
pub proof fn axiom_csqrt(z: (real, real)) ensures cmul(csqrt(z), csqrt(z)) == z {}
#[verifier::external_body]
pub proof fn axiom_cabs(z: (real, real)) ensures cabs(z) >= 0real, cabs(z) * cabs(z) == cnorm2(z), cabs(z) == 0real <==> z == czero() {}
impl AddSpecImpl<C> for C { open spec fn obeys_add_spec() -> bool { false } open spec fn add_req(self, rhs: C) -> bool { true } open spec fn add_spec(self, rhs: C) -> C { arbitrary() } }
impl core::ops::Add<C> for C { type Output = C; #[verifier::external_body] fn add(self, rhs: C) -> (r: C) ensures r@ == cadd(self@, rhs@) { unimplemented!() } }
impl SubSpecImpl<C> for C { open spec fn obeys_sub_spec() -> bool { false } open spec fn sub_req(self, rhs: C) -> bool { true } open spec fn sub_spec(self, rhs: C) -> C { arbitrary() } }
impl core::ops::Sub<C> for C { type Output = C; #[verifier::external_body] fn sub(self, rhs: C) -> (r: C) ensures r@ == csub(self@, rhs@) { unimplemented!() } }
impl MulSpecImpl<C> for C { open spec fn obeys_mul_spec() -> bool { false } open spec fn mul_req(self, rhs: C) -> bool { true } open spec fn mul_spec(self, rhs: C) -> C { arbitrary() } }
impl core::ops::Mul<C> for C { type Output = C; #[verifier::external_body] fn mul(self, rhs: C) -> (r: C) ensures r@ == cmul(self@, rhs@), r@ == cmul(rhs@, self@) { unimplemented!() } }
impl NegSpecImpl for C { open spec fn obeys_neg_spec() -> bool { false } open spec fn neg_req(self) -> bool { true } open spec fn neg_spec(self) -> C { arbitrary() } }
impl core::ops::Neg for C { type Output = C; #[verifier::external_body] fn neg(self) -> (r: C) ensures r@ == cneg(self@) { unimplemented!() } }
impl SubAssignSpecImpl<C> for C { open spec fn obeys_sub_assign_spec() -> bool { false } open spec fn sub_assign_req(&self, rhs: C) -> bool { true } open spec fn sub_assign_spec(&self, rhs: C) -> &Self { arbitrary() } }
impl core::ops::SubAssign<C> for C { #[verifier::external_body] fn sub_assign(&mut self, rhs: C) ensures final(self)@ == csub(old(self)@, rhs@) { unimplemented!() } }
impl C {
    #[verifier::external_body]
    pub fn new(re: R, im: R) -> (r: C) ensures r@ == (re@, im@) { unimplemented!() }
    #[verifier::external_body]
    pub fn zero() -> (r: C) ensures r@ == czero() { unimplemented!() }
    #[verifier::external_body]
    pub fn one() -> (r: C) ensures r@ == (1real, 0real) { unimplemented!() }
    #[verifier::external_body]
    pub fn from_f64(x: R) -> (r: Option<C>) ensures r is Some && r->Some_0@ == (x@, 0real) { unimplemented!() }
    #[verifier::external_body]
    pub fn from_usize(x: usize) -> (r: Option<C>) ensures r is Some && r->Some_0@ == (x as real, 0real) { unimplemented!() }
    #[verifier::external_body]
    pub fn real(self) -> (r: R) ensures r@ == self@.0 { unimplemented!() }
    #[verifier::external_body]
    pub fn imaginary(self) -> (r: R) ensures r@ == self@.1 { unimplemented!() }
    #[verifier::external_body]
    pub fn abs(self) -> (r: R) ensures r@ == cabs(self@) { unimplemented!() }
    #[verifier::external_body]
    pub fn sqrt(self) -> (r: C) ensures r@ == csqrt(self@) { unimplemented!() }
    #[verifier::external_body]
    pub fn powi(self, n: i32) -> (r: C) ensures n == 2 ==> r@ == cmul(self@, self@) { unimplemented!() }
}
