#!/bin/sh
# pretty-print verus diagnostics from `python3 -m vx.run P -v`
python3 -m vx.run "$@" -v 2>&1 | python3 -c "
import sys,json
for l in sys.stdin:
    l=l.rstrip()
    if l.lstrip().startswith('{'):
        try:
            d=json.loads(l)
            if d.get('rendered'): print(d['rendered'])
        except Exception: print(l[:300])
    else: print(l[:600])
"
