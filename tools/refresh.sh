#!/bin/sh
# re-run every claimed check on the current /repo tree (quick tier) so that the committed evidence is current
cd "$(dirname "$0")/.." || exit 2
rc=0
for p in $(python3 -c "import json;print(' '.join(c['property_id'] for c in json.load(open('MANIFEST.json'))['checks']))"); do
  ./check $p quick | tail -1 || rc=1
done
exit $rc
