#!/usr/bin/env python3-vt
"""Regenerate the defective Gauss-Hermite rows of /repo/src/integrate/tables.rs (used once for the fix: commit).
Nodes: roots of the physicists' Hermite polynomial H_n (50 digits); weights 2^(n-1) n! sqrt(pi) / (n^2 H_{n-1}(x)^2)."""
import sys, mpmath as mp
sys.path.insert(0, '/verif')
from vx.tables import TableParser, FAMILIES
mp.mp.dps = 60

def hermite_row(n):
    # roots via polyroots on exact integer coefficients of H_n
    import sympy
    x = sympy.symbols('x')
    H = sympy.Poly(sympy.hermite(n, x), x)
    roots = mp.polyroots([mp.mpf(int(c)) for c in H.all_coeffs()], maxsteps=500, extraprec=400)
    roots = sorted(mp.re(r) for r in roots)
    out = []
    for r in roots:
        if r < -mp.mpf(10) ** -30:
            continue
        if abs(r) < mp.mpf(10) ** -30:
            r = mp.mpf(0)
        hn1 = mp.hermite(n - 1, r)
        w = mp.mpf(2) ** (n - 1) * mp.factorial(n) * mp.sqrt(mp.pi) / (n ** 2 * hn1 ** 2)
        out.append((float(r), float(w)))
    return out

def fmt(v):
    s = repr(v)
    if 'e' in s:
        m, e = s.split('e')
        # table style: plain decimals
        from decimal import Decimal
        s = format(Decimal(s), 'f')
    return s

if __name__ == '__main__':
    tp = TableParser('/repo')
    rows, line = tp.tables()['WEIGHTS_HERMITE']
    bad = []
    for n, row in enumerate(rows, 1):
        pts = sum(1 if x == 0 else 2 for x, w, _ in row)
        if pts != n:
            bad.append(n)
    print("defective rows:", bad, file=sys.stderr)
    text = open('/repo/src/integrate/tables.rs').read().split('\n')
    # locate row spans by line numbers of first/last entry
    edits = []
    for n in bad:
        row = rows[n - 1]
        first, last = row[0][2], row[-1][2]
        new = ["        (%s, %s)," % (fmt(x), fmt(w)) for x, w in hermite_row(n)]
        edits.append((first, last, new))
    for first, last, new in sorted(edits, reverse=True):
        text[first - 1:last] = new
    open('/repo/src/integrate/tables.rs', 'w').write('\n'.join(text))
