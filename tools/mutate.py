#!/usr/bin/env python3
"""Mutation self-test: apply each listed source edit to /repo, run the property's check,
expect exit 1 (killed); neutral edits expect exit 0.  /repo is restored after every edit.
usage: tools/mutate.py C07 [name-substring]"""
import json, os, subprocess, sys
V = os.path.dirname(os.path.dirname(os.path.abspath(__file__)))
prop = sys.argv[1]
flt = sys.argv[2] if len(sys.argv) > 2 else None
ms = json.load(open(os.path.join(V, "mutants", prop + ".json")))
res = []
# work on a scratch copy of the crate (and of the witness crate, pointed at the copy): /repo itself is never touched
import shutil, tempfile
SCR = f"/tmp/vxmut_{prop}_{os.getpid()}"
shutil.rmtree(SCR, ignore_errors=True)
os.makedirs(SCR)
subprocess.run(["rsync", "-a", "--exclude", "target", "--exclude", ".git", "/repo/", SCR + "/repo/"], check=True)
subprocess.run(["rsync", "-a", "--exclude", "target", os.path.join(V, "witness") + "/", SCR + "/witness/"], check=True)
ct = open(SCR + "/witness/Cargo.toml").read().replace('path = "/repo"', f'path = "{SCR}/repo"')
open(SCR + "/witness/Cargo.toml", "w").write(ct)
cc = SCR + "/witness/.cargo/config.toml"
open(cc, "w").write(open(cc).read().replace("/verif/.work/witness-target", SCR + "/witness-target"))
ENV = dict(os.environ, VERIF_REPO=SCR + "/repo", VERIF_WITNESS=SCR + "/witness", VERIF_WORK=SCR + "/work", VERIF_NO_EVIDENCE="1")
REPO = SCR + "/repo"
for m in ms:
    if flt and flt not in m["name"]:
        continue
    path = os.path.join(REPO, m["file"])
    orig = open(path).read()
    s = open(path).read()
    n = s.count(m["old"])
    if n < 1 or (n > 1 and "nth" not in m):
        print(f"SKIP {m['name']}: pattern occurs {n} times"); res.append((m["name"], "skip")); continue
    if "nth" in m:
        parts = s.split(m["old"]); k = m["nth"]
        s2 = m["old"].join(parts[:k + 1]) + m["new"] + m["old"].join(parts[k + 1:])
    else:
        s2 = s.replace(m["old"], m["new"])
    open(path, "w").write(s2)
    try:
        p = subprocess.run([os.path.join(V, "check"), prop, "quick"], capture_output=True, text=True, env=ENV)
        want = 0 if m.get("neutral") else 1
        ok = p.returncode == want
        lines = [l for l in p.stdout.splitlines() if l.startswith(("FAILED", "VIOLATION", "UNDECIDED"))]
        print(flush=True, end=""); print(("KILLED " if want == 1 and ok else "GREEN  " if want == 0 and ok else "MISSED " if want == 1 else "ALARM  ") + m["name"], f"rc={p.returncode}", "|", (lines[0] if lines else "")[:150])
        res.append((m["name"], "ok" if ok else "bad"))
    finally:
        open(path, "w").write(orig)
shutil.rmtree(SCR, ignore_errors=True)
bad = [r for r in res if r[1] != "ok"]
print(f"{len(res) - len(bad)}/{len(res)} as expected")
sys.exit(1 if bad else 0)
