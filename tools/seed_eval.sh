#!/bin/bash
# usage: tools/seed_eval.sh <worktree> <seed-id> <PROP> [more PROPs...]
# confirms a sub-agent's seeded change (suite passes with it, demo fails with it / passes without), stores it under
# /verif/seeded/<seed-id>/ and runs the property's check against it (applied to /repo, reverted straight afterwards)
WT="$1"; ID="$2"; shift 2
V=/verif
cd "$WT" || exit 2
export CARGO_NET_OFFLINE=true
echo "== suite with the change"; cargo test --offline --lib 2>&1 | grep "test result" ; SUITE=$?
cargo test --offline --doc 2>&1 | grep "test result"
echo "== demo with the change (must fail)"; cargo test --offline --test seed_demo 2>&1 | grep -E "test result|panicked" | head -3
git diff -- src > /tmp/seed_eval_patch_$ID.diff; git apply -R /tmp/seed_eval_patch_$ID.diff
echo "== demo without the change (must pass)"; cargo test --offline --test seed_demo 2>&1 | grep -E "test result" | head -2
git apply /tmp/seed_eval_patch_$ID.diff
mkdir -p $V/seeded/$ID; cp seed/patch.diff seed/meta.json $V/seeded/$ID/ 2>/dev/null; cp seed/demo.rs $V/seeded/$ID/demo.rs 2>/dev/null
cd $V
for P in "$@"; do python3 tools/seed_check.py $ID $P quick | grep -v "^WARNING"; done
