#!/usr/bin/env python3
"""Run checks against a seeded change WITHOUT touching /repo: the crate and the witness crate are copied to a scratch directory,
the seed's patch is applied there, and the checks run with VERIF_REPO / VERIF_WITNESS / VERIF_WORK pointing at the copies
(no evidence is written).   usage: tools/seed_check.py <seed-id> <PROP> [quick|thorough] [more PROPs...]"""
import os, shutil, subprocess, sys
V = os.path.dirname(os.path.dirname(os.path.abspath(__file__)))
seed = sys.argv[1]
rest = sys.argv[2:]
tier = "quick"
props = []
for a in rest:
    if a in ("quick", "thorough"):
        tier = a
    else:
        props.append(a)
SCR = f"/tmp/vxseed_{seed}_{os.getpid()}"
shutil.rmtree(SCR, ignore_errors=True)
os.makedirs(SCR)
subprocess.run(["rsync", "-a", "--exclude", "target", "--exclude", ".git", "/repo/", SCR + "/repo/"], check=True)
subprocess.run(["rsync", "-a", "--exclude", "target", os.path.join(V, "witness") + "/", SCR + "/witness/"], check=True)
ct = open(SCR + "/witness/Cargo.toml").read().replace('path = "/repo"', f'path = "{SCR}/repo"')
open(SCR + "/witness/Cargo.toml", "w").write(ct)
cc = SCR + "/witness/.cargo/config.toml"
open(cc, "w").write(open(cc).read().replace("/verif/.work/witness-target", SCR + "/witness-target"))
p = subprocess.run(["patch", "-p1", "-s", "-i", os.path.join(V, "seeded", seed, "patch.diff")], cwd=SCR + "/repo", capture_output=True, text=True)
if p.returncode != 0:
    print("patch does not apply:", p.stdout[-500:], p.stderr[-500:]); sys.exit(2)
ENV = dict(os.environ, VERIF_REPO=SCR + "/repo", VERIF_WITNESS=SCR + "/witness", VERIF_WORK=SCR + "/work", VERIF_NO_EVIDENCE="1")
rc_all = 0
for prop in props:
    r = subprocess.run([os.path.join(V, "check"), prop, tier], capture_output=True, text=True, env=ENV)
    lines = [l for l in r.stdout.splitlines() if l.startswith(("FAILED", "VIOLATION", "UNDECIDED", "OK", "WITNESS", "KNOWN"))]
    print(f"== {seed} vs {prop} ({tier}): rc={r.returncode}")
    for l in lines[:6]:
        print("   " + l[:260])
shutil.rmtree(SCR, ignore_errors=True)
