#!/usr/bin/env python3
"""Regenerate MANIFEST.json from tools/claims.json (claimed properties) and properties.jsonl."""
import json, os
V = os.path.dirname(os.path.dirname(os.path.abspath(__file__)))
claims = json.load(open(os.path.join(V, "tools", "claims.json")))
props = [json.loads(l) for l in open(os.path.join(V, "properties.jsonl"))]
checks, na = [], []
for p in props:
    pid = p["id"]
    c = claims["claimed"].get(pid)
    if c:
        checks.append({
            "property_id": pid,
            "quick_cmd": f"./check {pid} quick",
            "thorough_cmd": f"./check {pid} thorough",
            "evidence_file": f"/verif/evidence/{pid}.json",
            "replay_cmd_template": f"./check {pid} --replay {{path}}",
            "engine": c.get("engine", "vx"),
            "level_claimed": {"category": "proof", "text": c["text"], "design_ref": c.get("design_ref", "DESIGN.md section 5 " + pid)},
            "level_note": c["note"],
            "technique": c.get("technique", "contract-based deductive verification (Verus; z3/cvc5 for NRA side lemmas) of functions extracted mechanically from /repo on every run; after all obligations are discharged a witness probe on the real crate runs as a BOUNDED stand-in (labelled bounded, never counted as proved) for the clauses listed as not decided"),
        })
    else:
        na.append({"property_id": pid, "reason": claims["not_applicable"][pid]})
m = {
    "version": 1,
    "setup_cmd": "python3 -m vx.setup",
    "hooks": {"guard": "bacon_verif", "enable": "none needed: the extractor reads /repo source text; no cfg-guarded code exists in /repo",
              "baseline_off_cmd": "cd /repo && cargo test --workspace --no-fail-fast --offline",
              "source_commits": [], "add_only": True},
    "engines": [
        {"name": "vx", "path": "/verif/vx", "serves_properties": sorted(claims["claimed"].keys()),
         "kind_free_text": "mechanical extractor + contract splicer (Python) -> single-file Verus units; NRA side lemmas to z3/cvc5; ground table obligations to z3"},
    ],
    "checks": checks,
    "not_applicable": na,
    "notes": claims.get("notes", ""),
}
json.dump(m, open(os.path.join(V, "MANIFEST.json"), "w"), indent=1)
print("claimed", [c["property_id"] for c in checks], "n/a", [x["property_id"] for x in na])
