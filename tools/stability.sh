#!/bin/bash
# proof-stability sweep: every Verus unit is re-run with other z3 random seeds; an obligation that only holds for one seed is brittle
# and would turn into a false alarm after a harmless edit.  usage: tools/stability.sh [seeds...]   (no evidence written, no probes)
cd "$(dirname "$0")/.." || exit 2
SEEDS="${@:-3 11}"
for s in $SEEDS; do
  for p in $(python3 -c "import json;print(' '.join(c['property_id'] for c in json.load(open('MANIFEST.json'))['checks'] if c['property_id']!='C10'))"); do
    r=$(VERIF_Z3_SEED=$s VERIF_NO_EVIDENCE=1 VERIF_NO_PROBE=1 python3 -m vx.run $p --no-canary 2>&1 | grep -E "^(OK|FAILED|UNDECIDED|VIOLATION)" | head -4 | cut -c1-200)
    echo "seed=$s $p: $r"
  done
done
echo ALLDONE
