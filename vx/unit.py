"""Units: a set of extracted items + contracts -> one Verus file -> obligations."""
import json
import os
import re
import subprocess
import time
from bisect import bisect_right
from .extract import (Src, Rewriter, Chunk, Config, Undecided, parse_fn, rewrite_generics,
                      rewrite_where, apply_type_subst, rewrite_floats_and_casts, find_loops,
                      find_closures, split_top, norm, find_angle_close)
from . import rules

REPO = os.environ.get("VERIF_REPO", "/repo")
VERIF = os.path.dirname(os.path.dirname(os.path.abspath(__file__)))
WORK = os.environ.get("VERIF_WORK", os.path.join(VERIF, ".work"))


def clauses(x):
    if x is None:
        return []
    if isinstance(x, str):
        return [x]
    return list(x)


class FnSpec:
    def __init__(self, unit, file, name, impl=None, nth=None):
        self.unit, self.file, self.name, self.impl, self.nth = unit, file, name, impl, nth
        self.key = (strip(impl) + "::" if impl else "") + name
        self.requires, self.ensures = [], []
        self.loops = {}
        self.hints = []
        self.closures = {}
        self.ret = "res"
        self.attrs = ['#[verifier::loop_isolation(false)]']
        self.opts = {}
        self.rename = None
        self.decreases = None
        self.trusted = False    # emit as external_body (assumed contract) -- listed in trusted base

    def req(self, *c):
        self.requires += c
        return self

    def ens(self, *c):
        self.ensures += c
        return self

    def loop(self, n, invariant=None, decreases=None, iter=None, ensures=None, invariant_except_break=None, nodec=False):
        self.loops[n] = dict(invariant=clauses(invariant), decreases=decreases, iter=iter,
                             ensures=clauses(ensures), invariant_except_break=clauses(invariant_except_break), nodec=nodec)
        return self

    def hint(self, anchor, text):
        """anchor: 'begin' | 'loop N begin' | 'loop N end' | 'before loop N' | 'after loop N' |
        'before: <token pattern>' | 'after: <token pattern>'"""
        self.hints.append((anchor, text))
        return self

    def closure(self, n, requires=None, ensures=None, ret=None, tuple_param=None, params=None):
        self.closures[n] = dict(requires=clauses(requires), ensures=clauses(ensures), ret=ret, tuple_param=tuple_param, params=params)
        return self

    def opt(self, **kw):
        self.opts.update(kw)
        return self

    def mapfold(self, prefix="mf", nth=0):
        """R5: desugar the nth `.map(G).fold(INIT, H)` statement of this fn into an explicit loop"""
        self.unit.prepasses.setdefault(self.file, []).append(
            dict(kind="mapfold", fn=self.name, impl=self.impl, fnnth=self.nth, prefix=prefix, nth=nth))
        return self

    def anf(self, head, prefix, bind_root=False, nth=0, bind_operands=False):
        """R19: name the intermediate values of the arithmetic expression that follows `head` (vx_<prefix>1, ...)"""
        self.unit.prepasses.setdefault(self.file, []).append(
            dict(fn=self.name, impl=self.impl, fnnth=self.nth, head=head, prefix=prefix, bind_root=bind_root, nth=nth, bind_operands=bind_operands))
        return self


def _respace(src, it):
    """text of the Self type of an impl item (tokens after the top-level `for`, before `where`/`{`)"""
    toks = src.toks
    k, depth, start = it.start + 1, 0, None
    while k < it.hdr_end:
        t = toks[k].text
        if t == "<":
            depth += 1
        elif t == ">":
            depth -= 1
        elif depth == 0 and t == "for":
            start = k + 1
        elif depth == 0 and t == "where":
            break
        k += 1
    if start is None:      # inherent impl
        start = it.start + 1
        if toks[start].text == "<":
            start = find_angle_close(src, start) + 1
    return src.text[toks[start].start:toks[k - 1].end]


def strip(impl):
    return norm(impl) if impl else ""


class ImplSpec:
    def __init__(self, unit, file, impl, header=None, keep_assoc=True):
        self.unit, self.file, self.impl = unit, file, impl
        self.header = header      # replacement header text (mechanical rule applies if None)
        self.fns = []
        self.keep_assoc = keep_assoc
        self.only_hoisted = False
        self.extra = ""          # spec items added inside the impl block (e.g. spec fn bodies of a trait)

    def fn(self, name, nth=None):
        f = FnSpec(self.unit, self.file, name, impl=self.impl, nth=nth)
        self.fns.append(f)
        self.unit.fnspecs.append(f)
        return f


class Unit:
    def __init__(self, prop, name, preludes=("real",), cfg=None):
        self.prop, self.name = prop, name
        self.preludes = list(preludes)
        self.cfg = cfg or Config()
        self.blocks = []      # ('spec', text) | ('fn', FnSpec) | ('impl', ImplSpec) | ('item', file, kind, name)
        self.fnspecs = []
        self.lemmas = []      # names of proof fns in spec text (collected automatically)
        self.srcs = {}
        self.rewrite_log = []
        self.nra = []         # NRA lemma objects (vx.nra)
        self.prepasses = {}   # file -> list of let-introduction requests
        self.notes = []

    # ---- definition API -------------------------------------------------
    def spec(self, text):
        self.blocks.append(("spec", text))
        return self

    def fn(self, file, name, nth=None):
        f = FnSpec(self, file, name, nth=nth)
        self.blocks.append(("fn", f))
        self.fnspecs.append(f)
        return f

    def impl(self, file, impl, header=None, keep_assoc=True, cfg=None):
        b = ImplSpec(self, file, impl, header, keep_assoc)
        b.cfg = cfg
        self.blocks.append(("impl", b))
        return b

    def item(self, file, kind, name, prefix="", drop_fields=(), cfg=None):
        self.blocks.append(("item", file, kind, name, prefix, tuple(drop_fields), cfg))
        return self

    def src(self, rel):
        if rel not in self.srcs:
            s = Src(REPO, rel)
            # R19 let-introduction pre-passes (vx/anf.py): applied to the text, one statement at a time
            for pp in self.prepasses.get(rel, []):
                from .anf import anf_text, mapfold_text
                it = s.find("fn", pp["fn"], impl=pp["impl"], nth=pp["fnnth"])
                span = (s.toks[it.start].start, s.toks[it.end - 1].end)
                if pp.get("kind") == "mapfold":
                    new_text, log = mapfold_text(s.text, rel, span, pp["nth"], pp["prefix"])
                else:
                    new_text, log = anf_text(s.text, rel, span, pp["head"], pp["prefix"], pp["bind_root"], pp["nth"], pp["bind_operands"])
                if log:
                    log["at"] = f"{rel}:{s.toks[it.start].line}"
                    log["fn"] = pp["fn"]
                    self.rewrite_log.append(log)
                    s = Src(REPO, rel, text=new_text)
            self.srcs[rel] = s
        return self.srcs[rel]

    # ---- generation -----------------------------------------------------
    def next_canary(self):
        self._canary_n += 1
        return f"assert(vx_canary_{self._canary_n}());"

    def build(self, canary=False):
        chunks = []
        self._canary_n = 0
        chunks.append(Chunk("".join(a + "\n" for a in getattr(self, "crate_attrs", [])) + rules.FILE_HEADER, ("gen", "header")))
        for p in self.preludes:
            text = open(os.path.join(VERIF, "prelude", p + ".rs")).read()
            chunks.append(Chunk(text + "\n", ("prelude", p)))
        for b in self.blocks:
            if b[0] == "spec":
                chunks.append(Chunk(b[1] + "\n", ("spec", self.name)))
            elif b[0] == "fn":
                chunks += self.emit_fn(b[1], canary)
                chunks.append(Chunk("\n\n", ("gen", "sep")))
            elif b[0] == "impl":
                chunks += self.emit_impl(b[1], canary)
                chunks.append(Chunk("\n\n", ("gen", "sep")))
            elif b[0] == "item":
                chunks += self.emit_item(*b[1:])
                chunks.append(Chunk("\n\n", ("gen", "sep")))
        if canary:
            # distinct uninterpreted booleans: a reachable canary cannot be proved, and assuming it
            # afterwards does not make later canaries vacuous
            decl = "".join(f"pub uninterp spec fn vx_canary_{i}() -> bool;\n" for i in range(1, self._canary_n + 1))
            chunks.append(Chunk(decl, ("gen", "canary-decl")))
        chunks.append(Chunk(rules.FILE_FOOTER, ("gen", "footer")))
        text, spans, pos = [], [], 0
        for c in chunks:
            text.append(c.text)
            spans.append((pos, pos + len(c.text.encode("utf-8")), c.origin))
            pos += len(c.text.encode("utf-8"))
        return "".join(text), spans

    def emit_item(self, file, kind, name, prefix, drop_fields, cfg=None):
        src = self.src(file)
        saved_cfg = self.cfg
        if cfg is not None:
            self.cfg = cfg
        try:
            return self._emit_item(src, file, kind, name, prefix, drop_fields)
        finally:
            self.cfg = saved_cfg

    def _emit_item(self, src, file, kind, name, prefix, drop_fields):
        it = src.find(kind, name)
        rw = Rewriter(src, it.start, it.end)
        toks = src.toks
        # generics directly after the name
        k = it.start
        while toks[k].text != kind:
            k += 1
        k += 2
        skip = []
        if toks[k].text == "<":
            c = find_angle_close(src, k)
            rewrite_generics(rw, src, k, c, self.cfg)
            skip.append((k, c + 1))
            k = c + 1
        if toks[k].kind == "ident" and toks[k].text == "where":
            rewrite_where(rw, src, k, it.hdr_end, self.cfg)
            skip.append((k, it.hdr_end))
        if drop_fields and toks[it.hdr_end].text == "{":
            for a, b in split_top(src, it.hdr_end + 1, it.end - 1):
                j = a
                while toks[j].text in ("pub",) or toks[j].text == "(":
                    j = src.pairs[j] + 1 if toks[j].text == "(" else j + 1
                if toks[j].text in drop_fields:
                    e = b + 1 if toks[b].text == "," else b
                    rw.replace(a, e, "", "R2-drop-field")
                    skip.append((a, e))
        # R6: attributes inside the item (#[error(..)], #[from], #[doc..]) are dropped
        k2 = it.hdr_end
        while k2 < it.end:
            if toks[k2].text == "#" and toks[k2 + 1].text == "[":
                e2 = src.pairs[k2 + 1] + 1
                rw.replace(k2, e2, "", "R6-attribute")
                skip.append((k2, e2))
                k2 = e2
                continue
            k2 += 1
        if kind == "struct" and toks[it.hdr_end].text == "{":
            # R6-visibility: private fields become pub (Verus treats a struct with private fields
            # as opaque in pub contracts); visibility has no run-time meaning
            for a, b in split_top(src, it.hdr_end + 1, it.end - 1):
                if any(x <= a < y for x, y in skip):
                    continue
                if toks[a].text == "#":
                    continue
                if toks[a].text != "pub":
                    rw.insert(a, "pub ", "R6-visibility")
        apply_type_subst(rw, src, it.start, it.end, self.cfg, skip=skip)
        rules.apply_extra(rw, src, it.start, it.end, self.cfg, skip)
        out = [Chunk(prefix, ("gen", "attr"))] if prefix else []
        out += rw.render()
        self.rewrite_log += rw.log
        return out

    def emit_impl(self, b, canary):
        saved_cfg = self.cfg
        if getattr(b, "cfg", None) is not None:
            self.cfg = b.cfg
        try:
            return self._emit_impl(b, canary)
        finally:
            self.cfg = saved_cfg

    def _emit_impl(self, b, canary):
        src = self.src(b.file)
        it = src.find_impl(b.impl)
        toks = src.toks
        out = []
        if b.header is not None:
            out.append(Chunk(b.header + " {\n", ("rw", b.file, toks[it.start].line, "R4-impl-header")))
            self.rewrite_log.append({"rule": "R4-impl-header", "at": f"{b.file}:{toks[it.start].line}",
                                     "from": it.header[:80], "to": b.header[:80]})
        else:
            rw = Rewriter(src, it.start, it.hdr_end + 1)
            k = it.start + 1
            skip = []
            if toks[k].text == "<":
                c = find_angle_close(src, k)
                rewrite_generics(rw, src, k, c, self.cfg)
                skip.append((k, c + 1))
                k = c + 1
            w = k
            while w < it.hdr_end and not (toks[w].kind == "ident" and toks[w].text == "where"):
                w += 1
            if w < it.hdr_end:
                rewrite_where(rw, src, w, it.hdr_end, self.cfg)
                skip.append((w, it.hdr_end))
            apply_type_subst(rw, src, it.start, it.hdr_end, self.cfg, skip=skip)
            rules.apply_extra(rw, src, it.start, it.hdr_end, self.cfg, skip)
            out += rw.render()
            self.rewrite_log += rw.log
            out.append(Chunk("\n", ("gen", "sep")))
        if b.extra:
            out.append(Chunk(b.extra + "\n", ("spec", self.name)))
        # associated non-fn items kept verbatim (type Output = ...;)
        if b.keep_assoc:
            for ch in it.children:
                if ch.kind != "fn":
                    rw = Rewriter(src, ch.start, ch.end)
                    apply_type_subst(rw, src, ch.start, ch.end, self.cfg)
                    rules.apply_extra(rw, src, ch.start, ch.end, self.cfg, [])
                    out.append(Chunk("    ", ("gen", "sep")))
                    out += rw.render()
                    out.append(Chunk("\n", ("gen", "sep")))
                    self.rewrite_log += rw.log
        pre = []
        for n, f in enumerate(b.fns):
            out.append(Chunk("    ", ("gen", "sep")))
            if f.opts.get("hoist"):
                # R15: closures inside trait-impl methods lose their specifications in this Verus build;
                # the body is hoisted verbatim into a free function and the method delegates to it
                import copy as _copy
                from .extract import strip_impl_generics, _subst_text
                hdr = strip_impl_generics(it.header)
                self_ty = _subst_text(src, _respace(src, it), self.cfg)
                import zlib as _z
                name = f"vx_h_{f.name}_{_z.crc32(f.key.encode()) % 100000}"
                rs = lambda t: re.sub(r"\bself\b", "self_", t)
                g = _copy.copy(f)
                g.requires = [rs(c) for c in f.opts.get("hoist_req", [])]
                g.ensures = [rs(c) for c in f.ensures]
                g.loops = {k: dict(v, invariant=[rs(c) for c in v["invariant"]], ensures=[rs(c) for c in v["ensures"]],
                                   invariant_except_break=[rs(c) for c in v["invariant_except_break"]],
                                   decreases=rs(v["decreases"]) if v["decreases"] else None) for k, v in f.loops.items()}
                g.hints = [(a_, rs(t_)) for a_, t_ in f.hints]
                g.opts = dict(f.opts)
                if f.opts.get("hoist") == "assumed-here":
                    # proved in a sibling unit (same contract text); here only the contract is visible
                    g.attrs = list(g.attrs) + ["#[verifier::external_body] // contract proved in unit " + str(f.opts.get("proved_in"))]
                pre += self.emit_fn(g, canary, mode="free", self_type=self_ty, hoist_name=name)
                pre.append(Chunk("\n\n", ("gen", "sep")))
                f.n_loops, f.n_closures = g.n_loops, g.n_closures
                d = _copy.copy(f)
                d.loops, d.hints, d.closures, d.opts = {}, [], {}, {}
                if not b.only_hoisted:
                    out += self.emit_fn(d, canary, mode="delegate", hoist_name=name)
                    f.src_line = d.src_line
                else:
                    f.src_line = g.src_line
            else:
                out += self.emit_fn(f, canary)
            out.append(Chunk("\n\n", ("gen", "sep")))
        out.append(Chunk("}", ("gen", "sep")))
        if b.only_hoisted:
            return pre
        return pre + out

    def emit_fn(self, f, canary, mode="normal", self_type=None, hoist_name=None):
        """mode: normal | free (trait-impl body hoisted into a free fn, R15) | delegate (trait-impl fn calling the hoisted fn)"""
        src = self.src(f.file)
        it = src.find("fn", f.name, impl=f.impl, nth=f.nth)
        f.src_line = src.toks[it.start].line
        toks = src.toks
        p = parse_fn(src, it)
        if p.body is None:
            raise Undecided(f"{f.file}: fn {f.name} has no body")
        rw = Rewriter(src, it.start, it.end)
        skip = []
        body_open, body_close = p.body
        pre_body = []          # statements inserted at body start
        if p.gen:
            rewrite_generics(rw, src, p.gen[0], p.gen[1], self.cfg)
            skip.append((p.gen[0], p.gen[1] + 1))
        if p.where:
            rewrite_where(rw, src, p.where[0], p.where[1], self.cfg)
            skip.append(p.where)
        if f.rename:
            rw.replace(p.name_tok, p.name_tok + 1, f.rename, "R4-rename")
        if mode == "free":
            rw.replace(p.name_tok, p.name_tok + 1, hoist_name, "R15-hoist-trait-fn")
        if mode == "delegate":
            # the body becomes a call of the hoisted free function with the same arguments
            args = []
            for (x, y) in split_top(src, p.params[0] + 1, p.params[1]):
                q = x
                while toks[q].text in ("&", "mut") or toks[q].kind == "life":
                    q += 1
                args.append(toks[q].text)
            rw.replace(body_open + 1, body_close, f" {hoist_name}({', '.join(args)}) ", "R15-hoist-trait-fn", swallow=True)
        # parameters
        a, b = p.params
        self_renamed = False
        for n, (x, y) in enumerate(split_top(src, a + 1, b)):
            if toks[x].text == "(":
                close = src.pairs[x]
                pat = src.text[toks[x].start:toks[close].end]
                rw.replace(x, close + 1, f"arg{n}_", "R4-tuple-param")
                skip.append((x, close + 1))
                pre_body.append(f"let {pat} = arg{n}_;")
            elif mode == "free" and any(toks[q].text == "self" for q in range(x, y)):
                form = "".join(toks[q].text + " " for q in range(x, y)).strip()
                ty = {"self": self_type, "mut self": self_type, "& self": "&" + self_type.lstrip("&") if not self_type.startswith("&") else "&" + self_type,
                      "& mut self": "&mut " + self_type}[form]
                if form == "mut self":
                    rw.replace(x, y, f"self_0: {ty}", "R15-hoist-trait-fn")
                    pre_body.append("let mut self_ = self_0;")
                else:
                    rw.replace(x, y, f"self_: {ty}", "R15-hoist-trait-fn")
                skip.append((x, y))
                self_renamed = True
            elif toks[x].text == "mut" and toks[x + 1].text == "self":
                rw.replace(x, x + 2, "self", "R4-mut-self")
                skip.append((x, x + 2))
                pre_body.append("let mut self_ = self;")
                self_renamed = True
            elif toks[x].text == "mut" and f.opts.get("unmut_params", True):
                nm = toks[x + 1].text
                rw.replace(x, x + 1, "", "R4-mut-param")
                skip.append((x, x + 1))
                rw.replace(x + 1, x + 2, nm + "_0", "R4-mut-param")
                skip.append((x + 1, x + 2))
                pre_body.append(f"let mut {nm} = {nm}_0;")
        f.opts["_self_renamed"] = self_renamed
        if self_renamed:
            for k in range(body_open + 1, body_close):
                if toks[k].kind == "ident" and toks[k].text == "self":
                    rw.replace(k, k + 1, "self_", "R4-mut-self")
                    skip.append((k, k + 1))
        # return naming
        if p.ret:
            rw.insert(p.ret[0] + 1, f"({f.ret}: ", "R4-named-return")
            rw.insert_after(p.ret[1] - 1, ")", "R4-named-return")
        loops = find_loops(src, body_open + 1, body_close)
        f.n_loops = len(loops)
        # closures
        cls = find_closures(src, body_open + 1, body_close)
        f.n_closures = len(cls)
        for n, spec in f.closures.items():
            if n > len(cls):
                raise Undecided(f"anchor lost: {f.key} has {len(cls)} closures, contract names closure {n}")
            c = cls[n - 1]
            txt = ""
            tp = spec.get("tuple_param")
            if tp:
                # R7-closure-tuple-param: `|(a, b)|` over `&(T, U)` items -> `|vx_pN: &(T, U)| { let a = &vx_pN.0; let b = &vx_pN.1; ..`
                # (`|&(a, b)|` binds copies: `let a = vx_pN.0;`)
                b1, b2 = c["bar1"], c["bar2"]
                by_ref = toks[b1 + 1].text != "&"
                po = b1 + 1 if by_ref else b1 + 2
                if toks[po].text != "(" or src.pairs[po] != b2 - 1:
                    raise Undecided(f"{f.file}:{toks[b1].line}: closure {n} of {f.key} has no tuple parameter")
                names = [src.text[toks[x].start:toks[y - 1].end] for x, y in split_top(src, po + 1, b2 - 1)]
                rw.replace(b1 + 1, b2, f"vx_p{n}: {tp}", "R7-closure-tuple-param")
                binds = " ".join(f"let {nm} = {'&' if by_ref else ''}vx_p{n}.{ix};" for ix, nm in enumerate(names))
                if toks[c["body_lo"]].text == "{":
                    rw.insert_after(c["body_lo"], " " + binds + " ", "R7-closure-tuple-param")
                else:
                    spec["_binds"] = binds
            if spec.get("params"):
                rw.replace(c["bar1"] + 1, c["bar2"], spec["params"], "R7-closure-param-types")
            if spec["ret"]:
                txt += f" -> ({spec['ret']})"
                if c.get("ret"):
                    rw.replace(c["ret"][0], c["ret"][1], "", "R4-named-return", swallow=True)
            if spec["requires"]:
                txt += " requires " + ", ".join(spec["requires"]) + ","
            if spec["ensures"]:
                txt += " ensures " + ", ".join(spec["ensures"]) + ","
            needs_block = toks[c["body_lo"]].text != "{"
            rw.insert_after(c["bar2"], txt + (" { " + spec.get("_binds", "") if needs_block else ""), "closure-contract", ("clause", f.key, f"closure#{n}", 1))
            if needs_block:
                rw.insert_after(c["body_hi"] - 1, " }", "closure-contract")
        # type substitution, floats
        rewrite_floats_and_casts(rw, src, body_open, body_close, self.cfg, skip)
        apply_type_subst(rw, src, it.start, it.end, self.cfg, skip=skip)
        rules.apply_extra(rw, src, it.start, it.end, self.cfg, skip)
        rules.apply_body_rules(rw, src, f, body_open, body_close, loops, self.cfg)
        # loop contracts (after the body rules so that they follow rule insertions at the same place)
        for n, spec in f.loops.items():
            if n > len(loops):
                raise Undecided(f"anchor lost: {f.key} has {len(loops)} loops, contract names loop {n}")
        for n, lp in enumerate(loops, 1):
            spec = f.loops.get(n)
            if lp["kind"] == "for" and spec and spec["iter"]:
                rw.insert(lp["in"] + 1, f"{spec['iter']}: ", "R5-for-iter-name")
            if spec:
                ch = []
                for kind in ("invariant_except_break", "invariant", "ensures"):
                    if spec[kind]:
                        ch.append(Chunk(f"\n        {kind}\n", ("gen", "kw")))
                        for i, c in enumerate(spec[kind], 1):
                            ch.append(Chunk(f"            {c},\n", ("clause", f.key, f"loop#{n}/{kind}", i)))
                if spec["decreases"]:
                    ch.append(Chunk("        decreases\n", ("gen", "kw")))
                    ch.append(Chunk(f"            {spec['decreases']},\n", ("clause", f.key, f"loop#{n}/decreases", 1)))
                for c in ch:
                    rw.insert(lp["body_open"], c.text, "contract", c.origin)
            if canary:
                rw.insert_after(lp["body_open"], " " + self.next_canary() + " ", "canary", ("canary", f.key, f"loop#{n}"))
        # contracts before the body
        ch = []
        if f.requires:
            ch.append(Chunk("\n    requires\n", ("gen", "kw")))
            for i, c in enumerate(f.requires, 1):
                ch.append(Chunk(f"        {c},\n", ("clause", f.key, "requires", i)))
        if f.ensures:
            ch.append(Chunk("\n    ensures\n" if not f.requires else "    ensures\n", ("gen", "kw")))
            for i, c in enumerate(f.ensures, 1):
                ch.append(Chunk(f"        {c},\n", ("clause", f.key, "ensures", i)))
        if f.decreases:
            ch.append(Chunk("    decreases\n", ("gen", "kw")))
            ch.append(Chunk(f"        {f.decreases},\n", ("clause", f.key, "decreases", 1)))
        for c in ch:
            rw.insert(body_open, c.text, "contract", c.origin)
        # body start
        first = ""
        if canary:
            first += " " + self.next_canary() + " "
        if pre_body:
            first += "\n    " + "\n    ".join(pre_body)
        if first:
            rw.insert_after(body_open, first, "R4-body-prologue", ("canary", f.key, "entry") if canary else None)
        # hints
        for hi_n, (anchor, text) in enumerate(f.hints, 1):
            pos, after = rules.resolve_anchor(src, anchor, body_open, body_close, loops, f)
            org = ("hint", f.key, hi_n)
            if after:
                rw.insert_after(pos, "\n" + text + "\n", "hint", org)
            else:
                rw.insert(pos, "\n" + text + "\n", "hint", org)
        out = []
        attrs = list(f.attrs)
        if f.trusted:
            attrs.append("#[verifier::external_body]")
        if attrs:
            out.append(Chunk("\n".join(attrs) + "\n", ("gen", "attr")))
        out += rw.render()
        self.rewrite_log += [dict(l, fn=f.key) for l in rw.log if l["rule"] not in ("contract", "hint", "canary", "closure-contract")]
        return out

    # ---- obligations ----------------------------------------------------
    def obligations(self):
        obs = []
        for f in self.fnspecs:
            if f.trusted:
                continue
            base = f"{self.prop}/{self.name}/{f.key}"
            for i in range(1, len(f.ensures) + 1):
                obs.append(f"{base}/ensures#{i}")
            assumed_body = f.opts.get("hoist") == "assumed-here"
            for n, sp in sorted(f.loops.items() if not assumed_body else []):
                for kind in ("invariant_except_break", "invariant", "ensures"):
                    for i in range(1, len(sp[kind]) + 1):
                        obs.append(f"{base}/loop#{n}/{kind}#{i}")
                if sp["decreases"]:
                    obs.append(f"{base}/loop#{n}/decreases#1")
            if f.decreases:
                obs.append(f"{base}/decreases#1")
            for n, sp in sorted(f.closures.items() if not assumed_body else []):
                obs.append(f"{base}/closure#{n}#1")
            for i in range(1, (len(f.hints) if not assumed_body else 0) + 1):
                obs.append(f"{base}/hint#{i}")
            obs.append(f"{base}/safety")
        for b in self.blocks:
            if b[0] == "spec":
                for m in re.finditer(r"^\s*(?:pub\s+)?(?:broadcast\s+)?proof\s+fn\s+(\w+)", b[1], re.M):
                    # skip trusted (external_body) lemma stubs: they are assumptions, counted elsewhere
                    pre = b[1][:m.start()].rstrip().splitlines()
                    if pre and "external_body" in pre[-1]:
                        continue
                    obs.append(f"{self.prop}/{self.name}/lemma:{m.group(1)}")
        return obs
