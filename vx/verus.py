"""Run Verus on a generated unit and map its diagnostics to named obligations."""
import json
import os
import re
import subprocess
import time
from bisect import bisect_right

VERUS = os.environ.get("VERUS", "verus")

UNDECIDED_PAT = re.compile(
    r"rlimit|Resource limit|not supported|not yet support|unsupported|internal error|panicked|"
    r"cannot find|mismatched types|expected |unresolved|no method named|trait bound|E0\d\d\d|"
    r"cannot be used|is not allowed|cannot call|cannot use|must be|borrow|lifetime|syntax", re.I)

FAIL_MSGS = [
    ("postcondition not satisfied", "ensures"),
    ("invariant not satisfied", "invariant"),
    ("loop ensures", "ensures"),
    ("decreases not satisfied", "decreases"),
    ("could not prove termination", "decreases"),
    ("precondition not satisfied", "requires"),
    ("precondition not met", "requires"),       # vstd's wording for built-in preconditions ("index in bounds for this access")
    ("requires not satisfied", "assert"),        # the `requires` of an `assert(..) by(nonlinear_arith) requires ..` step of a hint
    ("assertion failed", "assert"),
    ("possible arithmetic underflow/overflow", "overflow"),
    ("possible division by zero", "divzero"),
    ("possible bit shift underflow/overflow", "overflow"),
    ("recommendation not met", "recommends"),
    ("unable to prove", "assert"),
    ("unreachable", "assert"),
    ("call to a function with a failing", "requires"),
    ("fails to satisfy `callee.requires(args)`", "requires"),
]


class Result:
    def __init__(self):
        self.ok = False
        self.failed = []       # list of dict(obligation, fn, kind, src, message, rendered)
        self.undecided = []    # list of str
        self.fn_times = {}     # verus fn name -> (ms, rlimit, success)
        self.verified = 0
        self.errors = 0
        self.wall = 0.0
        self.smt_ms = 0
        self.cmd = ""
        self.raw_err = ""


def run_verus(path, rlimit=30, timeout=600, multiple_errors=20, extra=(), seed=None):
    cmd = [VERUS, os.path.basename(path), "--output-json", "--time", "--rlimit", str(rlimit),
           "--multiple-errors", str(multiple_errors), "--triggers-mode", "silent",
           "--error-format=json"] + list(extra)
    if seed:
        cmd += ["--smt-option", f"smt.random_seed={seed}"]
    t0 = time.time()
    # own process group, so that a timeout also kills the z3 children
    import signal
    proc = subprocess.Popen(cmd, cwd=os.path.dirname(path), stdout=subprocess.PIPE, stderr=subprocess.PIPE, text=True, start_new_session=True)
    try:
        out, err = proc.communicate(timeout=timeout)
        rc = proc.returncode
    except subprocess.TimeoutExpired:
        try:
            os.killpg(proc.pid, signal.SIGKILL)
        except Exception:
            pass
        proc.communicate()
        out, err, rc = "", "TIMEOUT", -9
    return " ".join(cmd), out, err, rc, time.time() - t0


def origin_at(spans, starts, off):
    i = bisect_right(starts, off) - 1
    if i < 0:
        return None
    s, e, o = spans[i]
    if s <= off < e or (off == e and i == len(spans) - 1):
        if o[0] == "src":
            return ("src", o[1], o[2] + (off - s))
        return o
    return None


def classify(unit, spans, out, err, rc, wall, cmd):
    """-> Result"""
    r = Result()
    r.wall, r.cmd, r.raw_err = wall, cmd, err
    starts = [s for s, _, _ in spans]
    if err == "TIMEOUT" or rc == -9:
        r.undecided.append("verus timed out")
        return r
    try:
        j = json.loads(out)
    except Exception:
        j = None
    diags = []
    for line in err.splitlines():
        line = line.strip()
        if line.startswith("{"):
            try:
                diags.append(json.loads(line))
            except Exception:
                pass
    if j is None:
        msgs = [d.get("message", "") for d in diags if d.get("level") == "error"]
        r.undecided.append("verus produced no result: " + "; ".join(msgs[:5]) + (err[-600:] if not msgs else ""))
        r.diags = diags
        return r
    vr = j.get("verification-results", {})
    r.verified, r.errors = vr.get("verified", 0), vr.get("errors", 0)
    tm = j.get("times-ms", {})
    for m in tm.get("smt", {}).get("smt-run-module-times", []):
        for fb in m.get("function-breakdown", []):
            r.fn_times[fb["function"]] = (fb.get("time", 0), fb.get("rlimit", 0), fb.get("success", False))
    r.smt_ms = tm.get("smt", {}).get("total", 0)
    r.diags = diags
    fnspecs = {f.key: f for f in unit.fnspecs}
    for d in diags:
        if d.get("level") != "error":
            continue
        msg = d.get("message", "")
        if msg.startswith("aborting due to"):
            continue
        kind = None
        for pat, k in FAIL_MSGS:
            if pat in msg:
                kind = k
                break
        origins = []
        for sp in d.get("spans", []):
            o = origin_at(spans, starts, sp["byte_start"])
            origins.append((o, sp))
        if kind is None:
            r.undecided.append(f"verus error (not a proof failure): {msg} " +
                               "; ".join(fmt_origin(unit, o) for o, _ in origins if o))
            continue
        # attribute
        fn_key, clause, src_loc, hint, lemma, canary = None, None, None, None, None, None
        for o, sp in origins:
            if o is None:
                continue
            if o[0] == "clause":
                if o[2] == "requires":
                    # a failed precondition of a callee: belongs to the caller's safety
                    clause_req = o
                    continue
                clause = o
                fn_key = fn_key or o[1]
            elif o[0] == "hint":
                hint = o
                fn_key = fn_key or o[1]
            elif o[0] == "canary":
                canary = o
                fn_key = fn_key or o[1]
            elif o[0] == "src":
                src_loc = src_loc or o
            elif o[0] == "rw":
                src_loc = src_loc or ("srcline", o[1], o[2])
            elif o[0] == "spec":
                lemma = o
        if src_loc and fn_key is None:
            fn_key = fn_of_src(unit, src_loc)
        if fn_key is None and lemma is not None:
            # failure inside spec text (lemma)
            name = lemma_at(unit, spans, starts, [sp for o, sp in origins if o and o[0] == "spec"][0]["byte_start"])
            r.failed.append(dict(obligation=f"{unit.prop}/{unit.name}/lemma:{name}", fn=None, kind=kind,
                                 src=None, message=msg, rendered=d.get("rendered", "")))
            continue
        if fn_key is None:
            r.undecided.append(f"unattributed verifier failure: {msg}: {d.get('rendered','')[:300]}")
            continue
        base = f"{unit.prop}/{unit.name}/{fn_key}"
        if canary is not None:
            ob = f"{base}/canary:{canary[2]}"
        elif clause is not None and kind in ("ensures", "invariant", "decreases"):
            ob = f"{base}/{clause[2]}#{clause[3]}"
        elif clause is not None and clause[2].startswith("closure"):
            ob = f"{base}/{clause[2]}#1"
        elif hint is not None and kind == "assert":
            ob = f"{base}/hint#{hint[2]}"
        else:
            ob = f"{base}/safety"
        src = None
        if src_loc:
            if src_loc[0] == "src":
                s = unit.srcs[src_loc[1]]
                src = f"{src_loc[1]}:{s.line_of(src_loc[2])}"
            else:
                src = f"{src_loc[1]}:{src_loc[2]}"
        r.failed.append(dict(obligation=ob, fn=fn_key, kind=kind, src=src, message=msg,
                             rendered=d.get("rendered", "")))
    # cross-check with the function breakdown: a function reported unsuccessful but with no
    # mapped diagnostic is undecided (e.g. rlimit)
    if r.errors and not r.failed and not r.undecided:
        r.undecided.append(f"verus reports {r.errors} errors but none could be mapped")
    if vr.get("encountered-vir-error") or (vr.get("encountered-error") and not r.failed and not r.undecided):
        r.undecided.append("verus encountered an error before/while verifying: " +
                           "; ".join(d.get("message", "") for d in diags if d.get("level") == "error")[:500])
    r.ok = vr.get("success", False) and not r.failed and not r.undecided
    return r


def fn_of_src(unit, o):
    rel = o[1]
    s = unit.srcs.get(rel)
    if s is None:
        return None
    line = s.line_of(o[2]) if o[0] == "src" else o[2]
    best = None
    for f in unit.fnspecs:
        if f.file != rel:
            continue
        it = s.find("fn", f.name, impl=f.impl, nth=f.nth)
        l0, l1 = s.toks[it.start].line, s.toks[it.end - 1].line
        if l0 <= line <= l1:
            best = f.key
    return best


def lemma_at(unit, spans, starts, off):
    i = bisect_right(starts, off) - 1
    s, e, o = spans[i]
    # find the spec block text
    idx = 0
    for b in unit.blocks:
        if b[0] == "spec":
            pass
    # reconstruct: spec chunk text is the block text; locate by order
    spec_blocks = [b[1] for b in unit.blocks if b[0] == "spec"]
    spec_spans = [sp for sp in spans if sp[2][0] == "spec"]
    k = spec_spans.index(spans[i])
    text = (spec_blocks[k] + "\n").encode("utf-8")[: off - s].decode("utf-8", "ignore")
    ms = list(re.finditer(r"(?:proof\s+|spec\s+|exec\s+)?fn\s+(\w+)", text))
    return ms[-1].group(1) if ms else "?"


def fmt_origin(unit, o):
    if o is None:
        return "?"
    if o[0] == "src":
        s = unit.srcs[o[1]]
        return f"{o[1]}:{s.line_of(o[2])}"
    return ":".join(str(x) for x in o)
