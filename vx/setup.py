"""setup: nothing to build (pure Python + installed verus/z3); verify the tools are present and warm Verus."""
import shutil, subprocess, sys, os, tempfile
ok = True
for t in ("verus", "z3", "cvc5"):
    if not shutil.which(t):
        print("missing tool:", t); ok = False
d = tempfile.mkdtemp(prefix="vxsetup")
open(os.path.join(d, "w.rs"), "w").write("use vstd::prelude::*;\nverus!{ proof fn t() ensures 1 + 1 == 2int {} }\nfn main(){}\n")
try:
    p = subprocess.run(["verus", "w.rs"], cwd=d, capture_output=True, text=True, timeout=300)
    print(p.stdout.strip()[-200:])
    ok = ok and p.returncode == 0
finally:
    shutil.rmtree(d, ignore_errors=True)
sys.exit(0 if ok else 1)
