"""setup: verify the tools are present, warm Verus, and build the witness probes (real crate, path dependency on /repo; cargo
rebuilds them from the current tree at every check)."""
import shutil, subprocess, sys, os, tempfile
ok = True
for t in ("verus", "z3", "cvc5"):
    if not shutil.which(t):
        print("missing tool:", t); ok = False
d = tempfile.mkdtemp(prefix="vxsetup")
open(os.path.join(d, "w.rs"), "w").write("use vstd::prelude::*;\nverus!{ proof fn t() ensures 1 + 1 == 2int {} }\nfn main(){}\n")
try:
    p = subprocess.run(["verus", "w.rs"], cwd=d, capture_output=True, text=True, timeout=300)
    print(p.stdout.strip()[-200:])
    ok = ok and p.returncode == 0
finally:
    shutil.rmtree(d, ignore_errors=True)
V = os.path.dirname(os.path.dirname(os.path.abspath(__file__)))
try:
    p = subprocess.run("CARGO_NET_OFFLINE=true cargo build -q --offline --bins", shell=True, cwd=os.path.join(V, "witness"), capture_output=True, text=True, timeout=1500)
    print("witness probes built" if p.returncode == 0 else "witness build failed:\n" + p.stderr[-1500:])
    ok = ok and p.returncode == 0
except Exception as e:
    print("witness build:", e); ok = False
sys.exit(0 if ok else 1)
