"""Check driver:  python3 -m vx.run <PROP> [--tier quick|thorough] [--update-baseline]

exit 0  every baseline obligation discharged (KNOWN-FINDING lines for listed findings)
exit 1  VIOLATION property=<id> replay=<path>   (a named obligation failed)
exit 2  UNDECIDED ...                           (never an alarm)
"""
import argparse
import concurrent.futures as cf
import importlib.util
import json
import os
import re
import shutil
import sys
import time
import traceback

from .extract import Undecided
from .unit import Unit, VERIF, WORK, REPO
from . import verus as V

BASELINE = os.path.join(VERIF, "baseline_obligations.json")
KNOWN = os.path.join(VERIF, "known_findings.json")

GLOBAL_ASSUMPTIONS = [
    "machine arithmetic treated as mathematical: the number type N / f64 is instantiated by R whose view is an exact real (no rounding, NaN, infinity, signed zero); x/0 is an unspecified real",
    "the verified text is extracted mechanically from /repo on every run by /verif/vx (rules R1-R8, DESIGN.md section 3); the extractor and contract splicer are trusted",
    "Verus 0.2026.09.13 and its bundled z3 are trusted",
]


def load_spec(prop):
    import sys as _sys
    for dep in ("polycommon", "ivpcommon"):
        dp = os.path.join(VERIF, "specs", dep + ".py")
        if os.path.exists(dp) and ("specs_" + dep) not in _sys.modules:
            sp = importlib.util.spec_from_file_location("specs_" + dep, dp)
            m = importlib.util.module_from_spec(sp)
            _sys.modules["specs_" + dep] = m
            sp.loader.exec_module(m)
    path = os.path.join(VERIF, "specs", prop + ".py")
    spec = importlib.util.spec_from_file_location("specs_" + prop, path)
    mod = importlib.util.module_from_spec(spec)
    spec.loader.exec_module(mod)
    return mod


def scan_trusted(text):
    """mechanical scan of a generated unit for assumption-introducing constructs"""
    counts = {}
    for kw in ("external_body", "assume_specification", "admit(", "assume(", "uninterp", "axiom", "external_fn_specification", "exec_allows_no_decreases_clause"):
        n = len(re.findall(re.escape(kw), text))
        if n:
            counts[kw] = n
    return counts


def trusted_items(text):
    """names of the items marked external_body / uninterp / assume_specification"""
    out = []
    lines = text.splitlines()
    for i, l in enumerate(lines):
        if "external_body" in l:
            for k in range(i, min(i + 4, len(lines))):
                m = re.search(r"fn\s+(\w+)", lines[k])
                if m:
                    out.append("external_body fn " + m.group(1))
                    break
        m = re.search(r"uninterp\s+spec\s+fn\s+(\w+)", l)
        if m:
            out.append("uninterp spec fn " + m.group(1))
        m = re.search(r"assume_specification\s*(?:<[^>]*>)?\s*\[\s*([^\]]+)\]", l)
        if m:
            out.append("assume_specification " + m.group(1).strip())
    return out


def run_unit(u, tier, seed, canary):
    t0 = time.time()
    d = os.path.join(WORK, u.prop)
    os.makedirs(d, exist_ok=True)
    text, spans = u.build(canary=canary)
    path = os.path.join(d, f"{u.name}{'_canary' if canary else ''}.rs")
    with open(path, "w") as fh:
        fh.write(text)
    rl = getattr(u, "rlimit", 30)
    if canary:
        # the canary run only has to show that no canary is PROVABLE: every assertion in it fails by design and costs the whole resource
        # limit, so it runs with the default limit (a contradictory context proves a canary almost for free) and a longer backstop
        rl = min(rl, 30)
    cmd, out, err, rc, wall = V.run_verus(path, rlimit=rl, timeout=getattr(u, "timeout", 900) * (2 if canary else 1),
                                          multiple_errors=(200 if canary else 20),
                                          # the canary run (assertions that MUST fail) always uses z3's default seed: a failing proof explores
                                          # up to the resource limit per assertion and may take far longer under another seed
                                          seed=(None if canary else int(os.environ["VERIF_Z3_SEED"]) if os.environ.get("VERIF_Z3_SEED") else (seed if tier == "thorough" and seed else None)))
    res = V.classify(u, spans, out, err, rc, wall, cmd)
    used = (None if canary else int(os.environ["VERIF_Z3_SEED"]) if os.environ.get("VERIF_Z3_SEED") else (seed if tier == "thorough" and seed else None))
    if used is not None and not os.environ.get("VERIF_Z3_SEED") and (res.failed or res.undecided):
        # a proof found under ANY z3 seed is a proof: what does not go through with the tier's seed is tried once more with the default seed
        cmd2, out2, err2, rc2, wall2 = V.run_verus(path, rlimit=rl, timeout=getattr(u, "timeout", 900), multiple_errors=20, seed=None)
        res2 = V.classify(u, spans, out2, err2, rc2, wall + wall2, cmd2)
        res2.note = f"z3 seed {used}: {len(res.failed)} failed / {len(res.undecided)} undecided; re-run with the default seed"
        res = res2
    res.path, res.text = path, text
    return res


def main(argv=None):
    ap = argparse.ArgumentParser()
    ap.add_argument("prop")
    ap.add_argument("--tier", default=os.environ.get("VERIF_TIER", "quick"))
    ap.add_argument("--update-baseline", action="store_true")
    ap.add_argument("--no-canary", action="store_true")
    ap.add_argument("--only", default=None)
    ap.add_argument("--replay", default=None)
    ap.add_argument("-v", action="store_true")
    a = ap.parse_args(argv)
    prop = a.prop
    seed = int(os.environ.get("VERIF_SEED", "0") or 0)
    t0 = time.time()
    if a.replay:
        return replay(prop, a.replay)
    try:
        mod = load_spec(prop)
        ctx = dict(tier=a.tier, seed=seed)
        units = mod.units(ctx)
        if a.only:
            units = [u for u in units if u.name == a.only]
        extra = getattr(mod, "extra_obligations", None)
        results, canaries = {}, {}
        with cf.ThreadPoolExecutor(max_workers=14) as ex:
            futs = {}
            for u in units:
                futs[ex.submit(run_unit, u, a.tier, seed, False)] = ("main", u)
            if not a.no_canary:
                for u in mod.units(ctx):
                    if a.only and u.name != a.only:
                        continue
                    futs[ex.submit(run_unit, u, a.tier, seed, True)] = ("canary", u)
            extra_fut = ex.submit(extra, ctx) if extra else None
            for fu in cf.as_completed(futs):
                kind, u = futs[fu]
                res = fu.result()
                (results if kind == "main" else canaries)[u.name] = (u, res)
            extra_res = extra_fut.result() if extra_fut else None
    except Undecided as e:
        return undecided(prop, a.tier, seed, t0, [str(e)])
    except Exception as e:
        traceback.print_exc()
        return undecided(prop, a.tier, seed, t0, [f"internal error in checker: {e!r}"])

    obligations, failed, und = [], [], []
    trusted, rewrites, fns, by_backend, smt_ms = [], [], [], {"verus-z3": 0}, 0
    fn_times = {}
    cmds = []
    for name, (u, res) in sorted(results.items()):
        obs = u.obligations()
        obligations += obs
        by_backend["verus-z3"] += len(obs)
        failed += res.failed
        und += [f"{name}: {x}" for x in res.undecided]
        smt_ms += res.smt_ms
        cmds.append(res.cmd + f"   (cwd {os.path.dirname(res.path)})")
        for t in trusted_items(res.text):
            if t not in trusted:
                trusted.append(t)
        rewrites += u.rewrite_log
        for f in u.fnspecs:
            fns.append({"fn": f.key, "file": f.file, "line": getattr(f, "src_line", None), "unit": name,
                        "trusted_contract": f.trusted,
                        "ensures": len(f.ensures), "requires": len(f.requires), "loops_with_invariants": len(f.loops)})
        fn_times.update({k: v for k, v in res.fn_times.items()})
        for n in getattr(u, "notes", []):
            pass
    # canaries: every canary must FAIL
    canary_total, canary_failed = 0, 0
    for name, (u, res) in sorted(canaries.items()):
        expected = []
        for f in u.fnspecs:
            if f.trusted:
                continue
            expected.append(f"{u.prop}/{u.name}/{f.key}/canary:entry")
            for n in range(1, getattr(f, "n_loops", 0) + 1):
                expected.append(f"{u.prop}/{u.name}/{f.key}/canary:loop#{n}")
        got = {x["obligation"] for x in res.failed if "/canary:" in x["obligation"]}
        canary_total += len(expected)
        canary_failed += len(got & set(expected))
        if res.undecided and not got:
            und.append(f"{name}(canary): " + "; ".join(res.undecided)[:300])
        else:
            for e in expected:
                if e not in got:
                    und.append(f"vacuity: canary {e} did not fail (contradictory precondition or unreachable code)")
    if extra_res:
        obligations += extra_res["obligations"]
        failed += extra_res.get("failed", [])
        und += extra_res.get("undecided", [])
        for k, v in extra_res.get("by_backend", {}).items():
            by_backend[k] = by_backend.get(k, 0) + v
        trusted += extra_res.get("trusted", [])
        smt_ms += extra_res.get("solver_ms", 0)
        cmds += extra_res.get("cmds", [])

    if not obligations and not und:
        und.append("vacuity: this run generated zero obligations")
    failed_names = sorted({x["obligation"] for x in failed})
    # a failing obligation must be one we know
    for n in failed_names:
        if n not in obligations and "/canary:" not in n:
            obligations.append(n)
    known = json.load(open(KNOWN)) if os.path.exists(KNOWN) else {"findings": [], "fixed": []}
    known_map = {k["obligation"]: k for k in known.get("findings", []) if k.get("property") == prop}
    # a finding is tied to the exact text of the function it was recorded for: if that function has been edited and
    # the obligation still fails, it is reported as a (possibly different) violation again
    fn_hashes = {}
    for name, (u, res) in results.items():
        for f in u.fnspecs:
            try:
                fn_hashes[f"{u.prop}/{u.name}/{f.key}"] = fn_text_hash(u, f)
            except Exception:
                pass
    for ob, k in list(known_map.items()):
        want = k.get("fn_hash")
        if want:
            base_key = ob.rsplit("/", 1)[0] if "/loop#" not in ob else ob.split("/loop#")[0]
            if fn_hashes.get(base_key) != want:
                del known_map[ob]
    if os.environ.get("VX_PRINT_FN_HASHES"):
        for kk, vv in sorted(fn_hashes.items()):
            print("FNHASH", kk, vv)
    new_fail = [x for x in failed if x["obligation"] not in known_map]
    known_hit = sorted({x["obligation"] for x in failed if x["obligation"] in known_map})
    # baseline
    base = json.load(open(BASELINE)) if os.path.exists(BASELINE) else {}
    if a.update_baseline:
        if new_fail or und:
            print("refusing to update baseline: not green", sorted({x["obligation"] for x in new_fail})[:10], und[:5])
        else:
            base[prop] = sorted(obligations)
            json.dump(base, open(BASELINE, "w"), indent=0, sort_keys=True)
            print(f"baseline updated: {len(obligations)} obligations for {prop}")
    elif not a.only:
        b = set(base.get(prop, []))
        cur = set(obligations)
        if b != cur and not und:
            missing, newo = sorted(b - cur)[:5], sorted(cur - b)[:5]
            und.append(f"obligation set differs from committed baseline (missing {missing}, new {newo}); contracts no longer attach as recorded")
    # obligations that fail exactly as recorded in known_findings.json are findings, not proof obligations of this run:
    # they are reported under coverage.known_findings and not counted as obligations (nor as discharged)
    obligations = [o for o in obligations if o not in known_hit]
    discharged = len([o for o in obligations if o not in failed_names])

    # both tiers: once every obligation is discharged, the property's witness probe (real crate, public API, fixed catalogue of
    # inputs) is run as a BOUNDED stand-in for the clauses the contracts do not decide (convergence, accuracy, functions not under
    # contract); it is labelled bounded, never counted as an obligation, and a failing input it finds on the current tree is a
    # violation with a concrete replay.  VERIF_NO_PROBE=1 switches it off.
    bounded_runs, bounded_hit = [], None
    if not new_fail and not und and not a.only and not os.environ.get("VERIF_NO_PROBE"):
        wfn = getattr(mod, "witness", None) or default_witness(prop)
        if wfn:
            try:
                w = wfn([], ctx)
            except Exception as e:
                w = {"found": False, "error": repr(e)}
            bounded_runs.append({"what": f"witness probe witness/src/bin/{prop.lower()}.rs on the real crate", "label": "bounded",
                                 "bound": "the fixed catalogue of inputs written in the probe (not a proof; covers clauses listed as not decided)",
                                 "cmd": w.get("cmd"), "found_failing_input": bool(w.get("found")), "failures": w.get("failures", [])[:8], "error": w.get("error")})
            if w.get("found"):
                bounded_hit = filter_known_failures(prop, w)
    wall = time.time() - t0
    samples = []
    for f in fns[:6]:
        samples.append({"obligation": f"{prop}/{f['unit']}/{f['fn']}/ensures#1", "at": f"{f['file']}:{f['line']}"})
    ev = {
        "property_id": prop, "tier": a.tier, "seed": seed, "level": "proof",
        "coverage": {
            "obligations": len(obligations), "discharged": discharged,
            "checker_cmd": " ; ".join(cmds)[:4000],
            "trusted_base": trusted + getattr(mod, "TRUSTED", []),
            "functions_under_contract": fns,
            "by_backend": by_backend, "solver_ms": smt_ms,
            "rewrites_applied": summarize_rewrites(rewrites),
            "canaries": canary_total, "canaries_failed_as_expected": canary_failed,
            "failed_obligations": [n for n in failed_names if n not in known_hit], "undecided": und,
            "known_findings": [{"obligation": k, "what": known_map[k].get("what")} for k in known_hit],
            "clauses_decided": getattr(mod, "DECIDED", []), "clauses_not_decided": getattr(mod, "NOT_DECIDED", []),
            "bounded": getattr(mod, "BOUNDED", []) + bounded_runs,
            "samples": samples + (extra_res.get("samples", []) if extra_res else []),
            "slowest_functions_ms": sorted(((v[0], k) for k, v in fn_times.items()), reverse=True)[:8],
            "exhaustive": bool(getattr(mod, "EXHAUSTIVE", False)),
        },
        "assumptions": GLOBAL_ASSUMPTIONS + getattr(mod, "ASSUMPTIONS", []),
        "wall_s": round(wall, 2), "violations": len({x["obligation"] for x in new_fail}) + (1 if bounded_hit else 0),
    }
    os.makedirs(os.path.join(VERIF, "evidence"), exist_ok=True)
    if not a.only and not os.environ.get("VERIF_NO_EVIDENCE"):
        json.dump(ev, open(os.path.join(VERIF, "evidence", prop + ".json"), "w"), indent=1)

    for k in known_hit:
        print(f"KNOWN-FINDING: property={prop} {known_map[k].get('what', k)}")
    if und and not new_fail:
        w = witness_on_undecided(prop, mod, und, ctx)
        if w is not None:
            return w
        for x in und[:20]:
            print("UNDECIDED", prop, x)
        if a.v:
            for name, (u, res) in results.items():
                print(res.raw_err[-3000:])
        return 2
    if new_fail:
        os.makedirs(os.path.join(VERIF, "replay"), exist_ok=True)
        path = os.path.join(VERIF, "replay", f"{prop}.json")
        witness = None
        wfn = getattr(mod, "witness", None) or default_witness(prop)
        if wfn:
            try:
                witness = wfn(new_fail, ctx)
            except Exception as e:
                witness = {"found": False, "error": repr(e)}
        rep = {"property": prop, "failed_obligations": new_fail, "witness": witness,
               "note": "Verus gives no counterexample; 'witness' holds the result of the property's witness probe on the real crate, if any",
               "rerun": f"cd /verif && python3 -m vx.run {prop} --replay {path}"}
        json.dump(rep, open(path, "w"), indent=1)
        for x in new_fail[:40]:
            print(f"FAILED {x['obligation']} [{x['kind']}] {x['src'] or ''}: {x['message']}")
        tail = "" if (witness and witness.get("found")) else " no-failing-input-found"
        print(f"VIOLATION property={prop} replay={path}{tail}")
        for x in und[:10]:
            print("UNDECIDED", prop, x)
        return 1
    if bounded_hit:
        os.makedirs(os.path.join(VERIF, "replay"), exist_ok=True)
        path = os.path.join(VERIF, "replay", f"{prop}.json")
        json.dump({"property": prop, "failed_obligations": [], "bounded_check": "witness probe (thorough tier)", "witness": bounded_hit,
                   "note": "every contract obligation was discharged; the bounded witness probe found a failing input on the real crate",
                   "rerun": bounded_hit.get("cmd")}, open(path, "w"), indent=1)
        for fl in bounded_hit.get("failures", [])[:8]:
            print("WITNESS", prop, str(fl)[:300])
        print(f"VIOLATION property={prop} replay={path}")
        return 1
    print(f"OK {prop}: {discharged}/{len(obligations)} obligations discharged, {len(fns)} functions under contract, "
          f"{canary_failed}/{canary_total} canaries failed as expected, {wall:.1f}s")
    return 0


def fn_text_hash(u, f):
    import hashlib
    src = u.src(f.file)
    it = src.find("fn", f.name, impl=f.impl, nth=f.nth)
    txt = " ".join(t.text for t in src.toks[it.start:it.end])
    return hashlib.sha1(txt.encode()).hexdigest()[:16]


def default_witness(prop):
    """the property's witness probe on the real crate (/verif/witness/src/bin/<prop>.rs), if there is one"""
    wdir = os.environ.get("VERIF_WITNESS", os.path.join(VERIF, "witness"))
    src = os.path.join(wdir, "src", "bin", prop.lower() + ".rs")
    if not os.path.exists(src):
        return None

    def run(failed, ctx):
        import subprocess
        cmd = f"cd {wdir} && CARGO_NET_OFFLINE=true cargo run -q --offline --bin {prop.lower()}"
        import signal
        # own process group, so that a probe that loops forever on changed code is killed together with cargo
        proc = subprocess.Popen(cmd, shell=True, stdout=subprocess.PIPE, stderr=subprocess.PIPE, text=True, start_new_session=True)
        try:
            so, se = proc.communicate(timeout=int(os.environ.get("VERIF_PROBE_TIMEOUT", "600")))
        except subprocess.TimeoutExpired:
            try:
                os.killpg(proc.pid, signal.SIGKILL)
            except Exception:
                pass
            proc.communicate()
            # on the unchanged tree every probe finishes within seconds: ten minutes without an answer is a routine that does not terminate
            return {"found": True, "cmd": cmd, "failures": [f"witness probe {prop.lower()} did not finish within its time limit (600 s by default; seconds on the unchanged tree): a routine it calls does not terminate on the probe's inputs"]}

        class _P:
            pass
        p = _P()
        p.stdout, p.stderr, p.returncode = so, se, proc.returncode
        last = [l for l in p.stdout.splitlines() if l.startswith("{")]
        out = {"found": False, "cmd": cmd, "exit": p.returncode}
        if last:
            try:
                out.update(json.loads(last[-1]))
            except Exception:
                out["raw"] = last[-1][:2000]
        else:
            out["stderr"] = p.stderr[-1500:]
            # the probe itself panicked on the crate's behaviour (index out of range, unwrap on an Err, overflow, ...): on the
            # unchanged tree no probe panics, so this is a failing input, reported with the panic message
            if p.returncode != 0 and "panicked at" in p.stderr and "could not compile" not in p.stderr:
                msg = [l for l in p.stderr.splitlines() if "panicked at" in l or l.strip().startswith(("called `", "attempt to", "index out", "assertion"))]
                out["found"] = True
                out["failures"] = ["the probe panicked: " + " | ".join(m.strip() for m in msg[:3])[:400]]
        return out
    return run


def summarize_rewrites(rw):
    out = {}
    for r in rw:
        d = out.setdefault(r["rule"], {"count": 0, "examples": []})
        d["count"] += 1
        if len(d["examples"]) < 3:
            d["examples"].append(f"{r['at']}: {r['from']!r} -> {r['to']!r}")
    return out


def filter_known_failures(prop, w):
    """failing inputs of the witness probe that belong to a listed known finding are not reported again; None if nothing is left"""
    try:
        kf = json.load(open(os.path.join(VERIF, "known_findings.json"))).get("findings", [])
    except Exception:
        kf = []
    pre = [f.get("witness_failure_prefix") for f in kf if f.get("property") == prop and f.get("witness_failure_prefix")]
    fails = w.get("failures", [])
    rest = [x for x in fails if not any(str(x).startswith(p_) for p_ in pre)]
    if fails and not rest:
        return None
    return dict(w, failures=rest or fails)


def witness_on_undecided(prop, mod, msgs, ctx):
    """The contracts could not be attached or discharged (anchor lost, unsupported construct, ...): that alone is
    never an alarm.  If the property's witness probe finds a concrete failing input on the real crate, that input is
    reported as a violation (it is a counterexample, not a failed proof)."""
    wfn = (getattr(mod, "witness", None) if mod else None) or default_witness(prop)
    if not wfn:
        return None
    try:
        w = wfn([], ctx)
    except Exception as e:
        return None
    if not (w and w.get("found")):
        return None
    w = filter_known_failures(prop, w)
    if w is None:
        return None
    os.makedirs(os.path.join(VERIF, "replay"), exist_ok=True)
    path = os.path.join(VERIF, "replay", f"{prop}.json")
    json.dump({"property": prop, "failed_obligations": [], "undecided": msgs, "witness": w,
               "note": "the deductive check was undecided on this tree; the witness probe found a concrete failing input on the real crate",
               "rerun": w.get("cmd")}, open(path, "w"), indent=1)
    for f_ in (w.get("failures") or [])[:10]:
        print("WITNESS", prop, f_)
    for x in msgs[:5]:
        print("UNDECIDED", prop, x)
    print(f"VIOLATION property={prop} replay={path}")
    return 1


def undecided(prop, tier, seed, t0, msgs):
    ev = {"property_id": prop, "tier": tier, "seed": seed, "level": "proof",
          "coverage": {"obligations": 1, "discharged": 0, "checker_cmd": "python3 -m vx.run " + prop,
                       "trusted_base": [], "undecided": msgs, "samples": []},
          "assumptions": GLOBAL_ASSUMPTIONS, "wall_s": round(time.time() - t0, 2), "violations": 0}
    os.makedirs(os.path.join(VERIF, "evidence"), exist_ok=True)
    if not os.environ.get("VERIF_NO_EVIDENCE"):
        json.dump(ev, open(os.path.join(VERIF, "evidence", prop + ".json"), "w"), indent=1)
    w = witness_on_undecided(prop, None, msgs, {"tier": tier, "seed": seed})
    if w is not None:
        return w
    for m in msgs:
        print("UNDECIDED", prop, m)
    return 2


def replay(prop, path):
    rep = json.load(open(path))
    print(json.dumps(rep, indent=1)[:6000])
    w = rep.get("witness")
    if w and w.get("cmd"):
        print("re-running witness:", w["cmd"])
        return os.system(w["cmd"]) >> 8
    # re-run the check itself: the failed obligation is the replay
    return main([prop, "--no-canary"])


if __name__ == "__main__":
    sys.exit(main())
