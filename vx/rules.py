"""Fixed rewrite rules beyond type substitution (DESIGN.md section 3, R5/R7/R8)."""
from .extract import Undecided, norm, split_top
from .lexer import lex

FILE_HEADER = """#![allow(unused_imports, unused_variables, unused_mut, dead_code, unused_parens, unused_assignments, non_snake_case, unused_braces)]
use vstd::prelude::*;
use vstd::std_specs::ops::*;
use vstd::std_specs::cmp::*;
use vstd::std_specs::iter::*;
use core::cmp::Ordering;
use core::ops;
use core::marker::PhantomData;
verus! {
"""
FILE_FOOTER = """
} // verus!
fn main() {}
"""


def _find_pattern(src, pat_toks, lo, hi):
    toks = src.toks
    n = len(pat_toks)
    hits = []
    for k in range(lo, hi - n + 1):
        if all(toks[k + i].text == pat_toks[i] for i in range(n)):
            hits.append(k)
    return hits


def resolve_anchor(src, anchor, body_open, body_close, loops, f):
    """-> (token index, after?)"""
    a = anchor.strip()
    if a == "begin":
        return body_open, True
    if a == "end":
        return body_close, False
    parts = a.split()
    if parts[0] == "loop" or (parts[0] in ("before", "after") and len(parts) > 1 and parts[1] == "loop"):
        if parts[0] == "loop":
            n, where = int(parts[1]), parts[2]
        else:
            where, n = parts[0], int(parts[2])
        if n > len(loops):
            raise Undecided(f"anchor lost: hint names loop {n} of {f.key}")
        lp = loops[n - 1]
        if where == "begin":
            return lp["body_open"], True
        if where == "end":
            return lp["body_close"], False
        if where == "before":
            k = lp["kw"]
            if lp["label"]:
                k -= 2
            return k, False
        if where == "after":
            return lp["body_close"], True
    if a.startswith(("before:", "after:")):
        where, pat = a.split(":", 1)
        nth = 0
        if pat.strip().startswith("#"):
            num, pat = pat.strip()[1:].split(" ", 1)
            nth = int(num) - 1
        pt = [t.text for t in lex(pat)]
        hits = _find_pattern(src, pt, body_open + 1, body_close)
        if len(hits) <= nth:
            raise Undecided(f"anchor lost: hint pattern {pat.strip()!r} not found in {f.key}")
        if len(hits) > 1 and not pat.strip() and nth == 0:
            raise Undecided(f"anchor ambiguous: {pat!r} in {f.key}")
        k = hits[nth]
        if where == "before":
            return k, False
        # after: end of the statement containing the pattern (next ';' at depth 0)
        j = k
        toks = src.toks
        while j < body_close:
            if toks[j].text in ("(", "[", "{"):
                j = src.pairs[j] + 1
                continue
            if toks[j].text == ";":
                return j, True
            j += 1
        raise Undecided(f"anchor lost: no statement end after {pat!r} in {f.key}")
    raise Undecided(f"bad anchor {anchor!r}")


def apply_extra(rw, src, lo, hi, cfg, skip):
    """Configured token-pattern substitutions (cfg.extra)"""
    toks = src.toks
    # R18: `polynomial![a, b]` is expanded as its macro_rules definition in src/polynomial/mod.rs says:
    #      $crate::polynomial::Polynomial::from_slice(&[a, b])
    if getattr(cfg, "expand_polynomial_macro", False):
        for k in range(lo, hi - 2):
            if toks[k].kind == "ident" and toks[k].text == "polynomial" and toks[k + 1].text == "!" and toks[k + 2].text == "[":
                close = src.pairs[k + 2]
                rw.replace(k, k + 3, getattr(cfg, "polynomial_macro_type", "Polynomial") + "::from_slice(&[", "R18-polynomial-macro")
                rw.replace(close, close + 1, "])", "R18-polynomial-macro")
    extra = getattr(cfg, "extra", None)
    if not extra:
        return
    for pat, rep, rule in extra:
        pt = [t.text for t in lex(pat)]
        for k in _find_pattern(src, pt, lo, hi):
            if any(a < k + len(pt) and k < b for a, b in skip):
                continue
            rw.replace(k, k + len(pt), rep, rule)


def rules_recv(recv, f):
    # inside a `mut self` function the receiver was renamed (R4-mut-self)
    import re as _re
    if f.opts.get("_self_renamed"):
        return _re.sub(r"\bself\b", "self_", recv)
    return recv


def apply_body_rules(rw, src, f, body_open, body_close, loops, cfg):
    toks = src.toks
    for pat, rep, rule in f.opts.get("subst", []):
        pt = [t.text for t in lex(pat)]
        hits = _find_pattern(src, pt, body_open, body_close + 1)
        if not hits:
            raise Undecided(f"anchor lost: rewrite pattern {pat!r} not found in {f.key}")
        for k in hits:
            rw.replace(k, k + len(pt), rep, rule, swallow=True)
    # R34-bind-tail: the function's tail expression `E` (it starts at the unique match of the given pattern and runs to the end of the
    #      body) becomes `let vx_res = E; <proof hint> vx_res`, so that a proof hint can talk about the value being returned
    bt = f.opts.get("bind_tail")
    if bt:
        pt = [t.text for t in lex(bt)]
        hits = _find_pattern(src, pt, body_open + 1, body_close)
        if len(hits) != 1:
            raise Undecided(f"anchor lost: tail expression {bt!r} not found exactly once in {f.key}")
        rw.insert(hits[0], "let vx_res = ", "R34-bind-tail")
        rw.insert_after(body_close - 1, ";\n" + f.opts.get("tail_hint", "") + "\nvx_res\n", "R34-bind-tail")
    # R5-tail-loop: a `loop { .. break VALUE .. }` that is the function's tail expression: `break VALUE` -> `return VALUE`
    if f.opts.get("tail_loop_return"):
        tail = [lp for lp in loops if lp["kind"] == "loop" and lp["body_close"] == body_close - 1]
        if not tail:
            raise Undecided(f"anchor lost: {f.key} no longer ends in a `loop` expression")
        lp = tail[0]
        inner = [(l2["kw"], l2["body_close"]) for l2 in loops if l2 is not lp and lp["body_open"] < l2["kw"] < lp["body_close"]]
        for q in range(lp["body_open"] + 1, lp["body_close"]):
            if any(a <= q <= b for a, b in inner):
                continue
            if toks[q].kind == "ident" and toks[q].text == "break" and toks[q + 1].text not in (";", "}", ",") and toks[q + 1].kind != "life":
                rw.replace(q, q + 1, "return", "R5-tail-loop-break-value")
    # R21: `for i in a..=b {`  ->  `for i in a..(b) + 1 {`   (vstd has no usable specification for RangeInclusive;
    #      equal whenever b + 1 does not overflow, which Verus then has to prove)
    for lp in loops:
        if lp["kind"] != "for":
            continue
        k = lp["in"] + 1
        while k < lp["body_open"]:
            if toks[k].text in ("(", "["):
                k = src.pairs[k] + 1
                continue
            if toks[k].text == "..=":
                rw.replace(k, k + 1, "..(", "R21-inclusive-range")
                rw.insert_after(lp["body_open"] - 1, ") + 1", "R21-inclusive-range")
                break
            k += 1
    # R20: `<chain>.collect()` that builds a Polynomial (FromIterator for Polynomial) -> `Polynomial::vx_from_vec(<chain>.collect())`,
    #      vx_from_vec being that FromIterator impl extracted at I = Vec<R>
    want = f.opts.get("collect_polynomial")
    if want:
        from .extract import postfix_operand_start
        occ = [q for q in range(body_open + 1, body_close - 3)
               if toks[q].text == "." and toks[q + 1].text == "collect" and toks[q + 2].text == "(" and toks[q + 3].text == ")"]
        for n in want:
            if n > len(occ):
                raise Undecided(f"anchor lost: {f.key} has {len(occ)} collect() calls, rule names #{n}")
            q = occ[n - 1]
            s0 = postfix_operand_start(src, q + 3, body_open)
            rw.insert(s0, "Polynomial::vx_from_vec(", "R20-collect-into-polynomial")
            rw.insert_after(q + 3, ")", "R20-collect-into-polynomial")
    # R22: `m[(i, j)] = e;` on a shim matrix type -> `m.vx_set((i, j), e);`  (IndexMut assignment spelled as a call)
    for name in f.opts.get("index_assign", ()):
        for q in range(body_open + 1, body_close):
            if toks[q].kind == "ident" and toks[q].text == name and toks[q + 1].text == "[":
                cl = src.pairs[q + 1]
                if toks[cl + 1].text != "=":
                    continue
                e = cl + 2
                while toks[e].text != ";":
                    e = src.pairs[e] + 1 if toks[e].text in ("(", "[", "{") else e + 1
                rw.replace(q + 1, q + 2, ".vx_set(", "R22-index-assign")
                rw.replace(cl, cl + 2, ",", "R22-index-assign")
                rw.insert(e, ")", "R22-index-assign")
    # R22d: `m[(i, j)] *= e;` on a named shim matrix -> `m.vx_mul_at((i, j), e);`
    for name in f.opts.get("index_mul_assign", ()):
        for q in range(body_open + 1, body_close):
            if toks[q].kind == "ident" and toks[q].text == name and toks[q + 1].text == "[" and toks[q - 1].text != ".":
                cl = src.pairs[q + 1]
                if toks[cl + 1].text != "*=":
                    continue
                e = cl + 2
                while toks[e].text != ";":
                    e = src.pairs[e] + 1 if toks[e].text in ("(", "[", "{") else e + 1
                rw.replace(q + 1, q + 2, ".vx_mul_at(", "R22-index-mul-assign")
                rw.replace(cl, cl + 2, ",", "R22-index-mul-assign")
                rw.insert(e, ")", "R22-index-mul-assign")
    # R29b: `&a - &b` with a, b plain identifiers naming shim vectors -> `a.vx_sub_ref(&b)` (this Verus build fails internally on user
    #       operator instances whose operands are references)
    names = f.opts.get("ref_sub", ())
    if names:
        for q in range(body_open + 1, body_close - 4):
            if (toks[q].text == "&" and toks[q + 1].kind == "ident" and toks[q + 1].text in names and toks[q + 2].text == "-"
                    and toks[q + 3].text == "&" and toks[q + 4].kind == "ident" and toks[q + 4].text in names
                    and toks[q - 1].text in ("=", "(", ",", "{", ";", "return")):
                rw.replace(q, q + 4, toks[q + 1].text + ".vx_sub_ref(&", "R29-ref-operator-as-call")
                rw.insert_after(q + 4, ")", "R29-ref-operator-as-call")
    # R22b: `v[i] += e;` / `v[i] -= e;` / `v[i]` (read) on a named shim vector -> `v.vx_add_at(i, e);` / `v.vx_sub_at(i, e);` / `v.vx_at(i)`
    for name in f.opts.get("index_vector", ()):
        for q in range(body_open + 1, body_close):
            if toks[q].kind == "ident" and toks[q].text == name and toks[q + 1].text == "[" and toks[q - 1].text != ".":
                cl = src.pairs[q + 1]
                if toks[cl + 1].text in ("+=", "-="):
                    e = cl + 2
                    while toks[e].text != ";":
                        e = src.pairs[e] + 1 if toks[e].text in ("(", "[", "{") else e + 1
                    rw.replace(q + 1, q + 2, ".vx_add_at(" if toks[cl + 1].text == "+=" else ".vx_sub_at(", "R22-index-assign")
                    rw.replace(cl, cl + 2, ",", "R22-index-assign")
                    rw.insert(e, ")", "R22-index-assign")
                elif toks[cl + 1].text not in ("=",):
                    rw.replace(q + 1, q + 2, ".vx_at(", "R22-index-read")
                    rw.replace(cl, cl + 1, ")", "R22-index-read")
    # R31: in a call `g(self, a, b, ..)` of a named callee, the arguments that read `self` are bound to locals first
    # (same values, same order; Verus' lifetime pass has no two-phase borrows for the implicit reborrow of `self`)
    for name in f.opts.get("bind_self_args", ()):
        cnt = 0
        for q in range(body_open + 1, body_close):
            if toks[q].kind == "ident" and toks[q].text == name and toks[q + 1].text == "(" and toks[q - 1].text not in (".", "::", "fn"):
                cl = src.pairs[q + 1]
                args = split_top(src, q + 2, cl)
                if not args or src.text[toks[args[0][0]].start:toks[args[0][1] - 1].end].strip() != "self":
                    continue
                cnt += 1
                lets, outs = [], ["self"]
                for n_, (a_, b_) in enumerate(args[1:], 1):
                    if b_ <= a_:
                        continue
                    txt = src.text[toks[a_].start:toks[b_ - 1].end]
                    if any(toks[k_].text == "self" for k_ in range(a_, b_)):
                        if toks[a_].text == "&" and toks[a_ + 1].text == "mut":
                            inner = src.text[toks[a_ + 2].start:toks[b_ - 1].end]
                            lets.append(f"let mut vx_g{cnt}_{n_} = {inner};")
                            outs.append(f"&mut vx_g{cnt}_{n_}")
                        else:
                            lets.append(f"let vx_g{cnt}_{n_} = {txt};")
                            outs.append(f"vx_g{cnt}_{n_}")
                    else:
                        outs.append(txt)
                rw.replace(q, cl + 1, "{ " + " ".join(lets) + f" {name}(" + ", ".join(outs) + ") }", "R31-bind-self-arguments")
    # R32: `for .. { A; if C { continue; } B }`  ->  `for .. { A; if C { } else { B } }`  (Verus: "for-loops do not yet support
    # continue"; the two forms run the same statements in the same order)
    if f.opts.get("continue_to_else"):
        for lp in loops:
            if lp["kind"] != "for":
                continue
            bo, bc = lp["body_open"], lp["body_close"]
            q = bo + 1
            while q < bc:
                tx = toks[q].text
                if tx in ("(", "[", "{"):
                    # an `if C {` at depth 0 whose block is exactly `continue ;`
                    if tx == "{" and src.pairs[q] == q + 3 and toks[q + 1].text == "continue" and toks[q + 2].text == ";":
                        cl = src.pairs[q]
                        rw.replace(q + 1, q + 3, "", "R32-continue-to-else")
                        rw.insert_after(cl, " else {", "R32-continue-to-else")
                        rw.insert(bc, "} ", "R32-continue-to-else")
                        q = cl + 1
                        continue
                    q = src.pairs[q] + 1
                    continue
                q += 1
    # R22c: `v += e;` on a named shim vector / matrix -> `v.vx_add_assign(e);`  (AddAssign spelled as a call)
    for name in f.opts.get("add_assign", ()):
        for q in range(body_open + 1, body_close):
            if toks[q].kind == "ident" and toks[q].text == name and toks[q + 1].text == "+=" and toks[q - 1].text in (";", "{", "}"):
                e = q + 2
                while toks[e].text != ";":
                    e = src.pairs[e] + 1 if toks[e].text in ("(", "[", "{") else e + 1
                rw.replace(q + 1, q + 2, ".vx_add_assign(", "R22-add-assign")
                rw.insert(e, ")", "R22-add-assign")
    # R12: `for x in &mut E {`  ->  `for x in E.iter_mut() {`   (IntoIterator for &mut Vec<T> is iter_mut())
    for lp in loops:
        if lp["kind"] == "for" and toks[lp["in"] + 1].text == "&" and toks[lp["in"] + 2].text == "mut":
            rw.replace(lp["in"] + 1, lp["in"] + 3, "", "R12-for-mut-ref")
            rw.insert_after(lp["body_open"] - 1, ".iter_mut()", "R12-for-mut-ref")
    # R11: `for v in E.iter_mut().take(M)..` -> hoist `let mut vx_im = E.iter_mut();` and state the trusted
    # axiom that the elements a Take adapter never yields keep their values
    for n, lp in enumerate(loops, 1):
        if lp["kind"] != "for":
            continue
        k = lp["in"] + 1
        bo = lp["body_open"]
        hit = None
        while k < bo - 6:
            if toks[k].text in ("(", "["):
                k = src.pairs[k] + 1
                continue
            if [t.text for t in toks[k:k + 6]] == [".", "iter_mut", "(", ")", ".", "take"]:
                hit = k
                break
            k += 1
        if hit is None:
            continue
        tk_open = hit + 6
        tk_close = src.pairs[tk_open]
        m_txt = src.text[toks[tk_open + 1].start:toks[tk_close - 1].end]
        first = lp["kw"] - 2 if lp["label"] else lp["kw"]
        recv = src.text[toks[lp["in"] + 1].start:toks[hit - 1].end]
        rw.replace(lp["in"] + 1, hit + 4, f"vx_im{n}", "R11-iter-mut-take", swallow=True)
        rw.insert(first, f"let mut vx_im{n} = {{RECV{n}}}.iter_mut();\n        proof {{ axiom_iter_mut_unvisited(IteratorSpec::remaining(&vx_im{n}), ({m_txt}) as int); }}\n        ".replace(f"{{RECV{n}}}", rules_recv(recv, f)), "R11-iter-mut-take")
    # R5-enumerate: `for (i, pat) in E.enumerate()[.skip(k)] { body }`
    #   ->  `let mut i: usize = k; for pat in E[.skip(k)] { body; i += 1; }`
    for lp in loops:
        if lp["kind"] != "for":
            continue
        kw, inn, bo, bc = lp["kw"], lp["in"], lp["body_open"], lp["body_close"]
        # find `.enumerate()` at depth 0 of the iterable expression
        k, en = inn + 1, None
        while k < bo:
            if toks[k].text in ("(", "["):
                k = src.pairs[k] + 1
                continue
            if toks[k].text == "." and toks[k + 1].text == "enumerate" and toks[k + 2].text == "(" and toks[k + 3].text == ")":
                en = k
                break
            k += 1
        if en is None:
            continue
        if toks[kw + 1].text != "(":
            raise Undecided(f"{src.rel}:{toks[kw].line}: enumerate() loop without tuple pattern")
        pc = src.pairs[kw + 1]
        parts = split_top(src, kw + 2, pc)
        if len(parts) != 2 or parts[0][1] - parts[0][0] != 1:
            raise Undecided(f"{src.rel}:{toks[kw].line}: unsupported enumerate() pattern")
        idx = toks[parts[0][0]].text
        start = "0"
        rest = en + 4
        if rest < bo:
            if toks[rest].text == "." and toks[rest + 1].text == "skip" and src.pairs[rest + 2] == bo - 1:
                start = src.text[toks[rest + 3].start:toks[bo - 2].end]
            else:
                raise Undecided(f"{src.rel}:{toks[kw].line}: unsupported adapter after enumerate()")
        for q in range(bo + 1, bc):
            if toks[q].kind == "ident" and toks[q].text == "continue":
                raise Undecided(f"{src.rel}:{toks[q].line}: `continue` inside an enumerate() loop")
        pat = src.text[toks[parts[1][0]].start:toks[parts[1][1] - 1].end]
        if pat.startswith("&") and pat[1:].strip().isidentifier():
            # R27: a reference pattern `&x` is bound through a named reference: `for vx_r in E { let x = *vx_r; ..`
            nm = pat[1:].strip()
            rw.insert_after(bo, f" let {nm} = *vx_r_{nm};", "R27-ref-pattern")
            pat = f"vx_r_{nm}"
        rw.replace(kw + 1, pc + 1, pat, "R5-enumerate")
        rw.replace(en, en + 4, "", "R5-enumerate")
        first = kw - 2 if lp["label"] else kw
        rw.insert(first, f"let mut {idx}: usize = {start};\n        ", "R5-enumerate")
        rw.insert(bc, f"    {idx} += 1;\n        ", "R5-enumerate")


COPIED = [(".copied()", ".map(|c_: &R| -> (y_: R) ensures y_ == *c_ { *c_ })", "R5-copied")]
