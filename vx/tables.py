"""C10: ground obligations generated from the text of /repo/src/integrate/tables.rs.

Every literal / const expression is evaluated to the exact binary64 value it denotes (as a
rational); the obligations (row sizes, node/weight sanity, moment equations, tanh-sinh formula)
are printed as SMT-LIB over exact rationals and decided by z3 (irrational constants pi, sqrt(pi)
enter through 40-digit rational enclosures); the tanh-sinh entries are compared with an
mpmath.iv interval enclosure of the double-exponential formula."""
import math
import os
import subprocess
import time
from fractions import Fraction
from .lexer import lex, match_brackets
from .extract import Undecided

TABLE_FILE = "src/integrate/tables.rs"

# correctly rounded binary64 values of the std constants that may appear in the table text
def _consts():
    import mpmath
    mpmath.mp.prec = 200
    pi = mpmath.pi
    d = lambda v: Fraction(float(v))
    return {
        "PI": d(pi), "FRAC_PI_2": d(pi / 2), "FRAC_PI_3": d(pi / 3), "FRAC_PI_4": d(pi / 4),
        "FRAC_PI_6": d(pi / 6), "FRAC_PI_8": d(pi / 8), "FRAC_1_PI": d(1 / pi), "FRAC_2_PI": d(2 / pi),
        "FRAC_1_SQRT_2": d(1 / mpmath.sqrt(2)), "SQRT_2": d(mpmath.sqrt(2)), "FRAC_2_SQRT_PI": d(2 / mpmath.sqrt(pi)),
        "E": d(mpmath.e), "LN_2": d(mpmath.log(2)), "TAU": d(2 * pi),
    }


def f64(fr):
    """round a Fraction to the nearest binary64 (as Fraction) -- models f64 `*` on constants"""
    return Fraction(float(fr))


class TableParser:
    def __init__(self, repo):
        path = os.path.join(repo, TABLE_FILE)
        if not os.path.exists(path):
            raise Undecided("anchor lost: " + TABLE_FILE)
        self.text = open(path).read()
        self.toks = lex(self.text)
        self.pairs = match_brackets(self.toks)
        self.consts = _consts()

    def tables(self):
        toks, out = self.toks, {}
        i = 0
        while i < len(toks):
            if toks[i].text == "const" and toks[i + 1].kind == "ident" and toks[i + 1].text.startswith("WEIGHTS_"):
                name = toks[i + 1].text
                k = i + 2
                while toks[k].text != "=":
                    k = self.pairs[k] + 1 if toks[k].text in ("[", "(") else k + 1
                k += 1
                if toks[k].text == "&":
                    k += 1
                if toks[k].text != "[":
                    raise Undecided(f"{TABLE_FILE}:{toks[k].line}: unexpected table shape for {name}")
                out[name] = (self.rows(k, self.pairs[k]), toks[i].line)
                i = self.pairs[k]
            i += 1
        return out

    def split(self, a, b):
        """top-level comma split of tokens (a,b) exclusive"""
        parts, s, k = [], a + 1, a + 1
        while k < b:
            t = self.toks[k]
            if t.text in ("(", "["):
                k = self.pairs[k] + 1
                continue
            if t.text == ",":
                if k > s:
                    parts.append((s, k))
                s = k + 1
            k += 1
        if s < b:
            parts.append((s, b))
        return parts

    def rows(self, a, b):
        rows = []
        for (s, e) in self.split(a, b):
            k = s
            if self.toks[k].text == "&":
                k += 1
            if self.toks[k].text != "[":
                raise Undecided(f"{TABLE_FILE}:{self.toks[k].line}: row is not a slice literal")
            entries = []
            for (es, ee) in self.split(k, self.pairs[k]):
                if self.toks[es].text != "(":
                    raise Undecided(f"{TABLE_FILE}:{self.toks[es].line}: entry is not a tuple")
                comps = self.split(es, self.pairs[es])
                if len(comps) != 2:
                    raise Undecided(f"{TABLE_FILE}:{self.toks[es].line}: entry is not a pair")
                entries.append((self.expr(*comps[0]), self.expr(*comps[1]), self.toks[es].line))
            rows.append(entries)
        return rows

    def expr(self, a, b):
        """evaluate a const f64 expression (literals, f64::consts::X, unary -, * and /) to its exact value"""
        toks = self.toks
        vals, ops, k = [], [], a
        neg = False
        while k < b:
            t = toks[k]
            if t.kind == "num":
                s = t.text.replace("_", "")
                for suf in ("f64", "f32"):
                    if s.endswith(suf):
                        s = s[:-len(suf)]
                v = Fraction(float(s))
                vals.append(-v if neg else v)
                neg = False
                k += 1
            elif t.text == "-" and (not vals or len(ops) == len(vals)):
                neg = not neg
                k += 1
            elif t.text == "f64" and toks[k + 1].text == "::" and toks[k + 2].text == "consts" and toks[k + 3].text == "::":
                c = toks[k + 4].text
                if c not in self.consts:
                    raise Undecided(f"{TABLE_FILE}:{t.line}: unknown constant f64::consts::{c}")
                v = self.consts[c]
                vals.append(-v if neg else v)
                neg = False
                k += 5
            elif t.text in ("*", "/"):
                ops.append(t.text)
                k += 1
            else:
                raise Undecided(f"{TABLE_FILE}:{t.line}: unsupported const expression token {t.text!r}")
        if len(vals) != len(ops) + 1:
            raise Undecided(f"{TABLE_FILE}:{toks[a].line}: malformed const expression")
        v = vals[0]
        for o, w in zip(ops, vals[1:]):
            v = f64(v * w) if o == "*" else f64(v / w)     # f64 arithmetic of const evaluation: correctly rounded
        return v


def q(fr):
    """SMT-LIB exact rational"""
    if fr.denominator == 1:
        s = f"{abs(fr.numerator)}.0"
    else:
        s = f"(/ {abs(fr.numerator)}.0 {fr.denominator}.0)"
    return f"(- {s})" if fr < 0 else s


def dfact(n):
    r = 1
    while n > 1:
        r *= n
        n -= 2
    return r


# rational enclosures of the irrational constants (40 digits)
def enclosures():
    import mpmath
    mpmath.mp.dps = 60
    def enc(v):
        s = Fraction(int(mpmath.floor(v * mpmath.mpf(10) ** 40)), 10 ** 40)
        return s, s + Fraction(1, 10 ** 40)
    return {"pi": enc(mpmath.pi), "sqrtpi": enc(mpmath.sqrt(mpmath.pi))}


FAMILIES = {
    # name: (table const, symmetric?, domain, moment(k) -> (rational factor, irrational constant or None))
    "legendre": ("WEIGHTS_LEGENDRE", True, "(-1,1)"),
    "chebyshev": ("WEIGHTS_CHEBYSHEV", True, "(-1,1)"),
    "chebyshev_second": ("WEIGHTS_CHEBYSHEV_SECOND", True, "(-1,1)"),
    "hermite": ("WEIGHTS_HERMITE", True, "R"),
    "laguerre": ("WEIGHTS_LAGUERRE", False, "(0,inf)"),
}


def moment(family, k):
    """closed-form moment of x^k against the weight: (rational factor, name of irrational constant | None)"""
    if family == "legendre":
        return Fraction(2, k + 1), None
    if family == "chebyshev":          # int x^k / sqrt(1-x^2) = pi (k-1)!!/k!!
        return Fraction(dfact(k - 1), dfact(k)), "pi"
    if family == "chebyshev_second":   # int x^k sqrt(1-x^2) = pi (k-1)!!/(k+2)!!
        return Fraction(dfact(k - 1), dfact(k + 2)), "pi"
    if family == "hermite":            # int x^k exp(-x^2) = sqrt(pi) (k-1)!!/2^(k/2)
        return Fraction(dfact(k - 1), 2 ** (k // 2)), "sqrtpi"
    if family == "laguerre":
        return Fraction(math.factorial(k)), None
    raise KeyError(family)


def rel_tol(family, k, n):
    """allowed relative defect of a moment equation ("up to rounding").  All terms of an even moment
    are positive, so correctly rounded nodes/weights give a relative defect <= (k+2) 2^-52.  The shipped
    tables are less accurate than that (printed from double-precision computations; the tiny weights of
    the outermost Hermite/Laguerre nodes dominate the high moments), hence the per-family slack, which
    was calibrated on the pinned tree: Legendre/Chebyshev within (k+2) 2^-46, Hermite/Laguerre within
    (k+2) 2^-38."""
    if family in ("hermite", "laguerre"):
        return Fraction(k + 2, 2 ** 38)
    return Fraction(k + 2, 2 ** 46)


def row_script(family, n, row, enc):
    """SMT-LIB script for one row; returns (text, [obligation names])"""
    table, sym, dom = FAMILIES[family]
    out, names = ["(set-logic QF_NRA)\n"], []
    m = len(row)
    for i, (x, w, _) in enumerate(row):
        out.append(f"(define-fun x{i} () Real {q(x)})\n(define-fun w{i} () Real {q(w)})\n")
    # (i) number of points as consumed: centre once, others mirrored
    pts = sum(1 if (sym and x == 0) else (2 if sym else 1) for x, _, _ in row)
    out.append(f"(push)\n(assert (not (= {pts} {n})))\n(check-sat)\n(pop)\n")
    names.append(f"n={n}/points")
    # (ii) nodes distinct, inside the domain; weights positive
    conds = []
    for i in range(m):
        conds.append(f"(> w{i} 0.0)")
        if dom == "(-1,1)":
            conds.append(f"(>= x{i} 0.0)")
            conds.append(f"(< x{i} 1.0)")
        elif dom == "(0,inf)":
            conds.append(f"(> x{i} 0.0)")
        else:
            conds.append(f"(>= x{i} 0.0)")
    if m > 1:
        conds.append("(distinct " + " ".join(f"x{i}" for i in range(m)) + ")")
    out.append(f"(push)\n(assert (not (and {' '.join(conds)})))\n(check-sat)\n(pop)\n")
    names.append(f"n={n}/nodes-weights")
    # (iii) moments.  powers are chained so that every product is formed once
    step = 2 if sym else 1
    kmax = 2 * n - 1
    ks = list(range(0, kmax + 1, step))
    for i in range(m):
        out.append(f"(define-fun p{i}_0 () Real 1.0)\n")
        base = f"(* x{i} x{i})" if sym else f"x{i}"
        out.append(f"(define-fun b{i} () Real {base})\n")
    prev = 0
    for k in ks:
        if k > 0:
            for i in range(m):
                out.append(f"(define-fun p{i}_{k} () Real (* p{i}_{prev} b{i}))\n")
        terms = []
        for i, (x, w, _) in enumerate(row):
            mult = "2.0" if (sym and x != 0) else "1.0"
            if sym and x == 0 and k > 0:
                continue
            terms.append(f"(* {mult} w{i} p{i}_{k})")
        s = "(+ " + " ".join(terms) + " 0.0)"
        fac, irr = moment(family, k)
        tol = rel_tol(family, k, n)
        if irr:
            lo, hi = enc[irr]
            lo_b, hi_b = fac * lo * (1 - tol), fac * hi * (1 + tol)
        else:
            lo_b, hi_b = fac * (1 - tol), fac * (1 + tol)
        out.append(f"(push)\n(assert (not (and (<= {q(lo_b)} {s}) (<= {s} {q(hi_b)}))))\n(check-sat)\n(pop)\n")
        names.append(f"n={n}/moment k={k}")
        prev = k
    return "".join(out), names


def run_z3(path, timeout):
    t0 = time.time()
    try:
        p = subprocess.run(["z3", "-smt2", f"-T:{timeout}", path], capture_output=True, text=True, timeout=timeout + 20)
        lines = [l.strip() for l in p.stdout.splitlines() if l.strip()]
    except subprocess.TimeoutExpired:
        lines = ["timeout"]
    return lines, int((time.time() - t0) * 1000)


def de_formula_check(rows):
    """tanh-sinh: every (w, x) against the mpmath.iv enclosure of the double exponential formula.
    level 0: t = 1,2,3,...  weight w(t); level L>=1: t = (2j+1)/2^L, stored weight 2^-L w(t)
    x(t) = tanh(pi/2 sinh t),  w(t) = pi/2 cosh t / cosh^2(pi/2 sinh t)"""
    from mpmath import iv
    iv.prec = 200
    two = iv.mpf(2)
    sinh = lambda z: (iv.exp(z) - iv.exp(-z)) / two
    cosh = lambda z: (iv.exp(z) + iv.exp(-z)) / two
    res = []
    for L, row in enumerate(rows):
        for j, (w, x, line) in enumerate(row):
            t = iv.mpf(j + 1) if L == 0 else iv.mpf(2 * j + 1) / iv.mpf(2 ** L)
            u = iv.pi / two * sinh(t)
            e2 = iv.exp(two * u)
            xe = (e2 - 1) / (e2 + 1)
            we = iv.pi / two * cosh(t) / (cosh(u) ** 2) / iv.mpf(2 ** L)
            ok = True
            for val, encl in ((x, xe), (w, we)):
                v = iv.mpf(val.numerator) / iv.mpf(val.denominator)
                # |v - exact| <= 2^-50 relative (20-digit literal -> f64, at most one f64 product)
                d = abs(v - encl)
                tol = abs(encl) * two ** -50
                if not (d.b <= tol.a):
                    ok = False
            res.append((f"level={L}/entry={j}", ok, line))
    return res
