"""A small Rust lexer: enough to find items, brackets, loops and operators.

Tokens carry byte offsets into the original text so that every rewrite is a
span replacement on the *original* source text (the copied code stays verbatim
outside the replaced spans)."""
import re
from dataclasses import dataclass


@dataclass
class Tok:
    kind: str   # ident, life, num, str, char, punct
    text: str
    start: int
    end: int
    line: int   # 1-based line of start

    def __repr__(self):
        return f"{self.kind}:{self.text}@{self.line}"


PUNCT3 = ["..=", "<<=", ">>=", "..."]
PUNCT2 = ["::", "->", "=>", "==", "!=", "<=", ">=", "&&", "||", "+=", "-=", "*=",
          "/=", "%=", "^=", "&=", "|=", ".."]
# note: "<<" and ">>" are deliberately lexed as two tokens (generics); use
# joined() to recognise shifts.

_ident = re.compile(r"[A-Za-z_][A-Za-z0-9_]*")
_num = re.compile(
    r"0x[0-9a-fA-F_]+[a-z0-9]*|0b[01_]+[a-z0-9]*|"
    r"[0-9][0-9_]*(?:\.(?![.A-Za-z_])[0-9_]*)?(?:[eE][+-]?[0-9_]+)?(?:[a-z][a-z0-9]*)?")


class LexError(Exception):
    pass


def lex(text):
    toks = []
    i, n, line = 0, len(text), 1
    while i < n:
        c = text[i]
        if c == "\n":
            line += 1
            i += 1
            continue
        if c.isspace():
            i += 1
            continue
        if text.startswith("//", i):
            j = text.find("\n", i)
            i = n if j < 0 else j
            continue
        if text.startswith("/*", i):
            depth, j = 1, i + 2
            while j < n and depth:
                if text.startswith("/*", j):
                    depth += 1
                    j += 2
                elif text.startswith("*/", j):
                    depth -= 1
                    j += 2
                else:
                    j += 1
            line += text.count("\n", i, j)
            i = j
            continue
        # raw strings / byte strings
        m = re.match(r'b?r(#*)"', text[i:i + 40])
        if m:
            hashes = m.group(1)
            endpat = '"' + hashes
            j = text.find(endpat, i + m.end())
            if j < 0:
                raise LexError(f"unterminated raw string at line {line}")
            j += len(endpat)
            toks.append(Tok("str", text[i:j], i, j, line))
            line += text.count("\n", i, j)
            i = j
            continue
        if c == '"' or (c == "b" and text.startswith('b"', i)):
            j = i + (2 if c == "b" else 1)
            while j < n and text[j] != '"':
                j += 2 if text[j] == "\\" else 1
            j += 1
            toks.append(Tok("str", text[i:j], i, j, line))
            line += text.count("\n", i, j)
            i = j
            continue
        if c == "'":
            # char literal or lifetime
            m = re.match(r"'(\\.[^']*|[^\\'])'", text[i:i + 16])
            if m:
                j = i + m.end()
                toks.append(Tok("char", text[i:j], i, j, line))
                i = j
                continue
            m = _ident.match(text, i + 1)
            if m:
                toks.append(Tok("life", text[i:m.end()], i, m.end(), line))
                i = m.end()
                continue
            raise LexError(f"stray quote at line {line}")
        m = _ident.match(text, i)
        if m:
            toks.append(Tok("ident", m.group(), i, m.end(), line))
            i = m.end()
            continue
        if c.isdigit():
            m = _num.match(text, i)
            toks.append(Tok("num", m.group(), i, m.end(), line))
            i = m.end()
            continue
        for p in PUNCT3:
            if text.startswith(p, i):
                toks.append(Tok("punct", p, i, i + 3, line))
                i += 3
                break
        else:
            for p in PUNCT2:
                if text.startswith(p, i):
                    toks.append(Tok("punct", p, i, i + 2, line))
                    i += 2
                    break
            else:
                toks.append(Tok("punct", c, i, i + 1, line))
                i += 1
    return toks


OPEN = {"(": ")", "[": "]", "{": "}"}
CLOSE = {v: k for k, v in OPEN.items()}


def match_brackets(toks):
    """Return dict open_index -> close_index (and reverse) for ()[]{}."""
    stack, pairs = [], {}
    for i, t in enumerate(toks):
        if t.kind != "punct":
            continue
        if t.text in OPEN:
            stack.append(i)
        elif t.text in CLOSE:
            if not stack or toks[stack[-1]].text != CLOSE[t.text]:
                raise LexError(f"unbalanced {t.text} at line {t.line}")
            j = stack.pop()
            pairs[j] = i
            pairs[i] = j
    if stack:
        raise LexError(f"unclosed {toks[stack[-1]].text} at line {toks[stack[-1]].line}")
    return pairs


def is_float_literal(t):
    if t.kind != "num":
        return False
    s = t.text
    if s.startswith(("0x", "0b")):
        return False
    return ("." in s) or ("e" in s.lower() and not s.lower().endswith(("usize", "isize"))
                          and re.search(r"[eE][+-]?[0-9]", s) is not None) or s.endswith(("f64", "f32"))


def float_to_ratio(s):
    """Exact decimal value of a Rust float literal as (p, q) integers."""
    from fractions import Fraction
    s = s.replace("_", "")
    for suf in ("f64", "f32"):
        if s.endswith(suf):
            s = s[: -len(suf)]
    fr = Fraction(s)
    return fr.numerator, fr.denominator
