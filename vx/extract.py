"""Mechanical extraction of items from /repo source files.

The extractor copies the text of an item verbatim and applies a fixed list of
span rewrites (DESIGN.md section 3).  Every rewrite is logged with its rule
name.  Anything it does not understand raises Undecided (exit 2 upstream)."""
import os
import re
from bisect import bisect_right
from .lexer import lex, match_brackets, Tok, is_float_literal, float_to_ratio, LexError


class Undecided(Exception):
    """Lost anchor / unsupported construct: never an alarm."""


def norm(s):
    return re.sub(r"\s+", "", s)


class Item:
    def __init__(self, src, kind, name, start, hdr_end, end, header, parent=None):
        self.src = src          # Src
        self.kind = kind        # fn, impl, struct, enum, trait, mod, other
        self.name = name
        self.start = start      # token index of first token of the item (after attrs)
        self.hdr_end = hdr_end  # token index of body '{' (or ';')
        self.end = end          # token index one past the closing '}' or ';'
        self.header = header    # normalised header text
        self.parent = parent
        self.children = []

    def __repr__(self):
        return f"<{self.kind} {self.name} {self.src.rel}:{self.src.toks[self.start].line}>"


ITEM_KW = {"fn", "impl", "struct", "enum", "trait", "mod", "type", "const", "static",
           "use", "macro_rules", "extern"}
MODIFIERS = {"pub", "unsafe", "async", "default", "crate"}


class Src:
    def __init__(self, repo, rel, text=None):
        self.repo, self.rel = repo, rel
        path = os.path.join(repo, rel)
        if not os.path.exists(path):
            raise Undecided(f"anchor lost: file {rel} missing")
        self.text = open(path, encoding="utf-8").read() if text is None else text
        try:
            self.toks = lex(self.text)
            self.pairs = match_brackets(self.toks)
        except LexError as e:
            raise Undecided(f"cannot lex {rel}: {e}")
        self.line_starts = [0]
        for m in re.finditer("\n", self.text):
            self.line_starts.append(m.end())
        self.items = self._walk(0, len(self.toks), None)

    def line_of(self, off):
        return bisect_right(self.line_starts, off)

    def tstr(self, i, j):
        """normalised text of tokens i..j-1"""
        return "".join(self._sp(k, j) for k in range(i, j))

    def _sp(self, k, j):
        t = self.toks[k]
        if k + 1 < j and t.kind in ("ident", "num", "life") and self.toks[k + 1].kind in ("ident", "num", "life"):
            return t.text + " "
        return t.text

    def _walk(self, i, end, parent):
        toks, items = self.toks, []
        while i < end:
            t = toks[i]
            if t.kind == "punct" and t.text == "#":
                # attribute  #[...] or #![...]
                j = i + 1
                if toks[j].text == "!":
                    j += 1
                i = self.pairs[j] + 1
                continue
            start = i
            j = i
            while j < end and toks[j].kind == "ident" and toks[j].text in MODIFIERS:
                j += 1
                if j < end and toks[j].text == "(" and toks[j - 1].text == "pub":
                    j = self.pairs[j] + 1
            if j < end and toks[j].kind == "ident" and toks[j].text == "const" and j + 1 < end and toks[j + 1].text == "fn":
                j += 1
            kw = toks[j].text if j < end else None
            if kw == "extern" and toks[j + 1].kind == "str" and toks[j + 2].text == "fn":
                j += 2
                kw = "fn"
            if kw not in ITEM_KW:
                raise Undecided(f"{self.rel}:{t.line}: unexpected token {t.text!r} at item level")
            # find end of header: first '{' or ';' at depth 0
            k = j + 1
            while k < end:
                tk = toks[k]
                if tk.kind == "punct" and tk.text in ("(", "["):
                    k = self.pairs[k] + 1
                    continue
                if tk.kind == "punct" and tk.text in ("{", ";"):
                    break
                k += 1
            if k >= end:
                raise Undecided(f"{self.rel}:{t.line}: unterminated item")
            if kw in ("const", "static", "type", "use", "extern") and toks[k].text == "{":
                # const X: T = Foo { .. };  or use a::{b, c};
                while toks[k].text != ";":
                    k = self.pairs[k] + 1 if toks[k].text in ("{", "(", "[") else k + 1
            if toks[k].text == ";":
                close = k
            else:
                close = self.pairs[k]
                if kw == "macro_rules":
                    pass
            name = None
            if kw in ("fn", "struct", "enum", "trait", "mod", "type", "const", "static"):
                name = toks[j + 1].text if toks[j + 1].kind == "ident" else None
                if kw == "macro_rules":
                    name = toks[j + 2].text
            header = self.tstr(j, k)
            it = Item(self, kw, name, start, k, close + 1, header, parent)
            if kw in ("impl", "trait", "mod") and toks[k].text == "{":
                it.children = self._walk(k + 1, close, it)
            items.append(it)
            i = close + 1
            # struct Foo(..);  handled by ';' ; struct Foo {..} no trailing ';'
        return items

    # ---- lookup -------------------------------------------------------
    def all_items(self):
        out = []

        def rec(lst):
            for it in lst:
                out.append(it)
                rec(it.children)
        rec(self.items)
        return out

    def find(self, kind, name=None, impl=None, mod=None, nth=None):
        cands = []
        for it in self.all_items():
            if it.kind != kind:
                continue
            if name is not None and it.name != name:
                continue
            p = it.parent
            if impl is not None:
                if p is None or p.kind != "impl":
                    continue
                if not impl_matches(p.header, impl):
                    continue
            elif kind == "fn" and p is not None and p.kind in ("impl", "trait"):
                continue
            if mod is not None:
                q = p
                while q is not None and not (q.kind == "mod" and q.name == mod):
                    q = q.parent
                if q is None:
                    continue
            else:
                q, in_test = p, False
                while q is not None:
                    if q.kind == "mod" and q.name in ("test", "tests"):
                        in_test = True
                    q = q.parent
                if in_test:
                    continue
            cands.append(it)
        what = f"{kind} {name or ''}" + (f" in impl {impl}" if impl else "")
        if not cands:
            raise Undecided(f"anchor lost: {what} not found in {self.rel}")
        if nth is not None:
            if nth >= len(cands):
                raise Undecided(f"anchor lost: {what} #{nth} not found in {self.rel}")
            return cands[nth]
        if len(cands) > 1:
            raise Undecided(f"anchor ambiguous: {what} matches {len(cands)} items in {self.rel}")
        return cands[0]

    def find_impl(self, impl):
        cands = [it for it in self.all_items() if it.kind == "impl" and impl_matches(it.header, impl)]
        if len(cands) != 1:
            raise Undecided(f"anchor {'lost' if not cands else 'ambiguous'}: impl {impl} in {self.rel}")
        return cands[0]


def strip_impl_generics(h):
    """'impl<N: A + B> X for Y where ...' -> 'X for Y'"""
    h = norm(h)
    assert h.startswith("impl")
    h = h[4:]
    if h.startswith("<"):
        depth = 0
        for i, c in enumerate(h):
            if c == "<":
                depth += 1
            elif c == ">" and h[i - 1] != "-":
                depth -= 1
                if depth == 0:
                    h = h[i + 1:]
                    break
    # cut where clause (top level)
    depth = 0
    for m in re.finditer(r"[<>()]|where", h):
        s = m.group()
        if s in "<(":
            depth += 1
        elif s in ">)":
            if not (s == ">" and h[m.start() - 1] == "-"):
                depth -= 1
        elif depth == 0 and (m.start() == 0 or not (h[m.start() - 1].isalnum() or h[m.start() - 1] == "_")):
            h = h[: m.start()]
            break
    return h


def impl_matches(header, sel):
    return strip_impl_generics(header) == norm(sel)


# ----------------------------------------------------------------------
class Chunk:
    __slots__ = ("text", "origin")

    def __init__(self, text, origin):
        self.text, self.origin = text, origin


class Config:
    """Per-unit extraction configuration (which generics are instantiated)."""

    def __init__(self, type_subst=None, drop_generics=("N",), drop_where=None,
                 float_lit="R::lit({p}i128, {q}u128)", cast_f64="R::cast({e})",
                 extra_subst=None, keep_traits=()):
        base = [
            ("Complex<<N as ComplexField>::RealField>", "C"),
            ("Complex::<<N as ComplexField>::RealField>", "C"),
            ("Complex<N::RealField>", "C"),
            ("Complex::<N::RealField>", "C"),
            ("<N as ComplexField>::RealField", "R"),
            ("N::RealField", "R"),
            ("Self::RealField", "R"),
            ("Self::Field", "R"),
            ("N", "R"),
            ("f64::consts::PI", "R::pi()"),
            ("f64", "R"),
        ]
        self.type_subst = [(self._pt(a), b) for a, b in (list(extra_subst or []) + (type_subst if type_subst is not None else base))]
        self.drop_generics = set(drop_generics)
        self.drop_where = [norm(x) for x in (drop_where if drop_where is not None else
                                              ["N", "<N as ComplexField>::RealField", "N::RealField", "DefaultAllocator"])]
        self.float_lit, self.cast_f64 = float_lit, cast_f64
        self.keep_traits = set(keep_traits)

    @staticmethod
    def _pt(s):
        return [t.text for t in lex(s)]


class Rewriter:
    """Collects span edits over a token range of one Src and renders chunks."""

    def __init__(self, src, lo, hi):
        self.src, self.lo, self.hi = src, lo, hi
        self.edits = []   # (tok_i, tok_j, text, rule, origin)  replace tokens [i,j) ; i==j -> insert before i
        self.swallow = []
        self.log = []

    def replace(self, i, j, text, rule, origin=None, swallow=False):
        """replace tokens [i,j); with swallow=True smaller edits fully inside the span are dropped"""
        self.edits.append((i, j, text, rule, origin))
        if swallow:
            self.swallow.append((i, j))

    def insert(self, i, text, rule, origin=None):
        self.edits.append((i, i, text, rule, origin))

    def insert_after(self, i, text, rule, origin=None):
        """insert immediately after token i (before following whitespace)"""
        self.edits.append((i + 1, i + 1, text, rule, origin, "after"))

    def render(self):
        toks, text = self.src.toks, self.src.text
        # order: by position; insertions before replacements at same index; stable
        def key(e):
            return (e[0], 0 if e[0] == e[1] else 1)
        live = []
        for e in self.edits:
            if any(a <= e[0] and e[1] <= b and (e[0], e[1]) != (a, b) and not (e[0] == e[1] and e[0] in (a, b)) for a, b in self.swallow):
                continue
            live.append(e)
        eds = sorted(enumerate(live), key=lambda p: (key(p[1]), p[0]))
        eds = [e for _, e in eds]
        # overlap check
        last_end = self.lo
        for e in eds:
            if e[0] < last_end and e[0] != e[1]:
                raise Undecided(f"overlapping rewrites at {self.src.rel}:{toks[e[0]].line} ({e[3]})")
            if e[0] < last_end and e[0] == e[1] and e[0] < last_end:
                # insertion inside a replaced span
                if e[0] != last_end:
                    raise Undecided(f"insertion inside rewritten span at {self.src.rel}:{toks[min(e[0], len(toks)-1)].line} ({e[3]})")
            last_end = max(last_end, e[1])
        chunks = []
        pos = toks[self.lo].start
        end_pos = toks[self.hi - 1].end
        for e in eds:
            i, j, new, rule, origin = e[:5]
            after = len(e) > 5
            if i == j:
                at = toks[i - 1].end if after else (toks[i].start if i < len(toks) else end_pos)
            else:
                at = toks[i].start
            if at > pos:
                chunks.append(Chunk(text[pos:at], ("src", self.src.rel, pos)))
                pos = at
            line = self.src.line_of(at)
            chunks.append(Chunk(new, origin or ("rw", self.src.rel, line, rule)))
            self.log.append({"rule": rule, "at": f"{self.src.rel}:{line}",
                             "from": text[toks[i].start:toks[j - 1].end][:80] if j > i else "", "to": new[:80]})
            if j > i:
                pos = toks[j - 1].end
        if pos < end_pos:
            chunks.append(Chunk(text[pos:end_pos], ("src", self.src.rel, pos)))
        return chunks


# ----------------------------------------------------------------------
def split_top(src, i, j, sep=",", angle=True):
    """Split token range [i,j) at top-level separators; returns list of (a,b)."""
    toks, parts, depth_angle, a, k = src.toks, [], 0, i, i
    while k < j:
        t = toks[k]
        if t.kind == "punct":
            if t.text in ("(", "[", "{"):
                k = src.pairs[k] + 1
                continue
            if angle and t.text == "<":
                depth_angle += 1
            elif angle and t.text == ">":
                depth_angle -= 1
            elif t.text == sep and depth_angle == 0:
                parts.append((a, k))
                a = k + 1
        k += 1
    if a < j:
        parts.append((a, j))
    return parts


def find_angle_close(src, i):
    """toks[i] is '<'; return index of matching '>'."""
    toks, depth, k = src.toks, 0, i
    while k < len(toks):
        t = toks[k]
        if t.kind == "punct":
            if t.text in ("(", "[", "{"):
                k = src.pairs[k] + 1
                continue
            if t.text == "<":
                depth += 1
            elif t.text == ">":
                depth -= 1
                if depth == 0:
                    return k
        k += 1
    raise Undecided(f"{src.rel}:{toks[i].line}: unmatched '<'")


class FnParts:
    pass


def parse_fn(src, it):
    """Locate the pieces of a fn item."""
    toks = src.toks
    p = FnParts()
    k = it.start
    while toks[k].text != "fn":
        k += 1
    p.fn_kw, p.name_tok = k, k + 1
    k += 2
    p.gen = None
    if toks[k].text == "<":
        c = find_angle_close(src, k)
        p.gen = (k, c)
        k = c + 1
    if toks[k].text != "(":
        raise Undecided(f"{src.rel}:{toks[k].line}: cannot parse signature of {it.name}")
    p.params = (k, src.pairs[k])
    k = src.pairs[k] + 1
    p.ret = None
    p.where = None
    body = it.hdr_end
    if toks[k].text == "->":
        r0 = k
        k += 1
        while k < body and not (toks[k].kind == "ident" and toks[k].text == "where"):
            k = src.pairs[k] + 1 if toks[k].text in ("(", "[") else k + 1
        p.ret = (r0, k)
    if k < body and toks[k].text == "where":
        p.where = (k, body)
    p.body = (body, it.end - 1) if toks[body].text == "{" else None
    return p


def rewrite_generics(rw, src, lt, gt, cfg, rule="R4-generics"):
    parts = split_top(src, lt + 1, gt)
    keep = []
    for a, b in parts:
        t = src.toks[a]
        name = src.toks[a + 1].text if t.text == "const" else t.text
        if name in cfg.drop_generics:
            continue
        keep.append((a, b))
    if not keep:
        rw.replace(lt, gt + 1, "", rule)
    else:
        # delete dropped params individually (keep text of the others verbatim, type substitution applied)
        kept = ", ".join(src.text[src.toks[a].start:src.toks[b - 1].end] for a, b in keep)
        new = "<" + _subst_text(src, kept, cfg) + ">"
        if new != src.text[src.toks[lt].start:src.toks[gt].end]:
            rw.replace(lt, gt + 1, new, rule)


def _subst_text(src, text, cfg):
    """apply type substitution to a detached piece of text"""
    toks = lex(text)
    out, pos, k = [], 0, 0
    while k < len(toks):
        m = _match_subst([t.text for t in toks], k, cfg, prev=toks[k - 1].text if k else None)
        if m:
            n, rep = m
            out.append(text[pos:toks[k].start])
            out.append(rep)
            pos = toks[k + n - 1].end
            k += n
        else:
            k += 1
    out.append(text[pos:])
    return "".join(out)


def _match_subst(texts, k, cfg, prev):
    best = None
    for pat, rep in cfg.type_subst:
        n = len(pat)
        if texts[k:k + n] == pat:
            if n == 1 and (prev == "." or (k + 1 < len(texts) and texts[k + 1] == ":" and False)):
                continue
            if best is None or n > best[0]:
                best = (n, rep)
    return best


def rewrite_where(rw, src, w0, w1, cfg, rule="R1-where"):
    parts = split_top(src, w0 + 1, w1)
    keep = []
    for a, b in parts:
        # subject = tokens up to first top-level ':'
        sub_end = a
        depth = 0
        while sub_end < b:
            tx = src.toks[sub_end].text
            if tx == "<":
                depth += 1
            elif tx == ">":
                depth -= 1
            elif tx == ":" and depth == 0:
                break
            sub_end += 1
        subj = src.tstr(a, sub_end)
        if any(norm(subj) == d or norm(subj).startswith(d + "::") for d in cfg.drop_where):
            continue
        if norm(src.tstr(a, b)) in getattr(cfg, "drop_pred", ()):
            continue
        keep.append((a, b))
    if len(keep) == len(parts):
        # nothing dropped: the clause is kept, with the type instantiation applied to its bounds
        orig = ",\n    ".join(src.text[src.toks[a].start:src.toks[b - 1].end] for a, b in keep)
        kept = ",\n    ".join(_subst_text(src, src.text[src.toks[a].start:src.toks[b - 1].end], cfg) for a, b in keep)
        if kept != orig:
            rw.replace(w0, w1, "where\n    " + kept + ",\n", rule)
        return
    if not keep:
        rw.replace(w0, w1, "", rule)
    else:
        kept = ",\n    ".join(_subst_text(src, src.text[src.toks[a].start:src.toks[b - 1].end], cfg) for a, b in keep)
        rw.replace(w0, w1, "where\n    " + kept + ",\n", rule)


def apply_type_subst(rw, src, lo, hi, cfg, skip=()):
    """R1/R2: token-pattern type substitution over [lo,hi) except inside skip ranges."""
    toks = src.toks
    texts = [t.text for t in toks[lo:hi]]
    k = 0
    n = hi - lo
    while k < n:
        gi = lo + k
        if any(a <= gi < b for a, b in skip):
            k += 1
            continue
        if toks[gi].kind not in ("ident", "punct"):
            k += 1
            continue
        prev = texts[k - 1] if k else None
        m = _match_subst(texts, k, cfg, prev)
        if m:
            ln, rep = m
            if any(a < gi + ln and gi < b for a, b in skip):
                k += 1
                continue
            rw.replace(gi, gi + ln, rep, "R1-type")
            k += ln
        else:
            k += 1


def postfix_operand_start(src, k, lo):
    """toks[k] is the last token of a postfix expression; return index of its first token."""
    toks = src.toks
    i = k
    while True:
        t = toks[i]
        if t.kind == "punct" and t.text in (")", "]"):
            i = src.pairs[i]
            # call / index: continue with what precedes if it is part of the chain
            if i - 1 >= lo and (toks[i - 1].kind in ("ident",) or toks[i - 1].text in (")", "]", ">")):
                if toks[i - 1].kind == "ident" and toks[i - 1].text in ("as", "in", "return", "if", "while", "match", "else"):
                    return i
                if toks[i - 1].text == ">":
                    return i  # turbofish calls are not expected before a cast
                i -= 1
                continue
            return i
        if t.kind in ("ident", "num"):
            if i - 1 >= lo and toks[i - 1].kind == "punct" and toks[i - 1].text in (".", "::"):
                i -= 2
                continue
            return i
        raise Undecided(f"{src.rel}:{t.line}: cannot find operand of cast")


def rewrite_floats_and_casts(rw, src, lo, hi, cfg, skip=None):
    toks = src.toks
    for k in range(lo, hi):
        t = toks[k]
        if is_float_literal(t):
            p, q = float_to_ratio(t.text)
            rw.replace(k, k + 1, cfg.float_lit.format(p=p, q=q), "R3-float-literal")
        elif t.kind == "ident" and t.text == "as" and toks[k + 1].text == "f64":
            s = postfix_operand_start(src, k - 1, lo)
            rw.insert(s, cfg.cast_f64.split("{e}")[0], "R3-cast-f64")
            rw.replace(k, k + 2, cfg.cast_f64.split("{e}")[1], "R3-cast-f64")
            if skip is not None:
                skip.append((k, k + 2))


def find_loops(src, lo, hi):
    """Loops inside token range, in source order: list of dict(kind, kw, body_open, label)."""
    toks, loops = src.toks, []
    k = lo
    while k < hi:
        t = toks[k]
        if t.kind == "ident" and t.text in ("for", "while", "loop"):
            prev = toks[k - 1]
            # exclude `for<'a>` HRTB and `impl X for Y`
            if t.text == "for" and (toks[k + 1].text == "<" or prev.kind == "ident" and prev.text not in ("else",) and prev.kind == "ident" and False):
                k += 1
                continue
            # header end: first '{' at depth 0
            j = k + 1
            while j < hi:
                if toks[j].kind == "punct" and toks[j].text in ("(", "["):
                    j = src.pairs[j] + 1
                    continue
                if toks[j].kind == "punct" and toks[j].text == "{":
                    break
                j += 1
            if j >= hi:
                raise Undecided(f"{src.rel}:{t.line}: loop without body")
            label = None
            if prev.text == ":" and toks[k - 2].kind == "life":
                label = toks[k - 2].text
            d = {"kind": t.text, "kw": k, "body_open": j, "body_close": src.pairs[j], "label": label}
            if t.text == "for":
                # find `in` at depth 0
                m = k + 1
                while m < j and not (toks[m].kind == "ident" and toks[m].text == "in"):
                    m = src.pairs[m] + 1 if toks[m].text in ("(", "[") else m + 1
                d["in"] = m
            loops.append(d)
        k += 1
    return loops


def find_closures(src, lo, hi):
    """Closure literals |params| body inside [lo,hi) in source order.

    Returns list of dict(bar1, bar2, body_lo, body_hi) ; a '|' starts a closure
    when it is in expression-start position."""
    toks, out = src.toks, []
    k = lo
    while k < hi:
        t = toks[k]
        if t.kind == "punct" and t.text in ("|", "||"):
            prev = toks[k - 1]
            starts = (prev.kind == "punct" and prev.text in ("(", ",", "=", "{", ";", "[", "=>", "return")) or \
                     (prev.kind == "ident" and prev.text in ("move", "return"))
            if starts:
                if t.text == "||":
                    b2 = k
                else:
                    b2 = k + 1
                    while toks[b2].text != "|":
                        b2 = src.pairs[b2] + 1 if toks[b2].text in ("(", "[") else b2 + 1
                # body (after an optional explicit return type `-> T`)
                s = b2 + 1
                ret = None
                if toks[s].text == "->":
                    r0 = s
                    while toks[s].text != "{":
                        s = src.pairs[s] + 1 if toks[s].text in ("(", "[") else s + 1
                    ret = (r0, s)
                if toks[s].text == "{":
                    e = src.pairs[s] + 1
                else:
                    e = s
                    while e < hi:
                        tx = toks[e]
                        if tx.kind == "punct" and tx.text in ("(", "[", "{"):
                            e = src.pairs[e] + 1
                            continue
                        if tx.kind == "punct" and tx.text in (",", ")", ";", "]", "}"):
                            break
                        e += 1
                out.append({"bar1": k, "bar2": b2, "body_lo": s, "body_hi": e, "ret": ret})
                k = b2 + 1
                continue
        k += 1
    return out
