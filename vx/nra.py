"""NRA side lemmas: one neutral statement, printed twice (SMT-LIB for z3/cvc5 and a Verus
proof-fn stub / spec fn), so that heavy polynomial identities are discharged by stand-alone
solvers instead of Verus' by(nonlinear_arith) (DESIGN.md 2.2)."""
import ast
import os
import subprocess
import time
from fractions import Fraction


class Expr:
    """parsed neutral expression (python syntax)"""

    def __init__(self, s):
        self.s = s
        self.tree = ast.parse(s.strip(), mode="eval").body


def _num(v):
    if isinstance(v, int):
        return Fraction(v)
    return Fraction(repr(v))


def to_smt(node, fnames=()):
    if isinstance(node, str):
        node = ast.parse(node.strip(), mode="eval").body
    t = lambda n: to_smt(n, fnames)
    if isinstance(node, ast.Constant):
        if isinstance(node.value, bool):
            return "true" if node.value else "false"
        f = _num(node.value)
        s = f"{abs(f.numerator)}.0" if f.denominator == 1 else f"(/ {abs(f.numerator)}.0 {f.denominator}.0)"
        return f"(- {s})" if f < 0 else s
    if isinstance(node, ast.Name):
        return node.id
    if isinstance(node, ast.UnaryOp):
        if isinstance(node.op, ast.USub):
            return f"(- {t(node.operand)})"
        if isinstance(node.op, ast.Not):
            return f"(not {t(node.operand)})"
        if isinstance(node.op, ast.UAdd):
            return t(node.operand)
    if isinstance(node, ast.BinOp):
        if isinstance(node.op, ast.Pow):
            n = node.right.value
            assert isinstance(n, int) and n >= 0
            if n == 0:
                return "1.0"
            b = t(node.left)
            return b if n == 1 else "(* " + " ".join([b] * n) + ")"
        op = {ast.Add: "+", ast.Sub: "-", ast.Mult: "*", ast.Div: "/"}[type(node.op)]
        return f"({op} {t(node.left)} {t(node.right)})"
    if isinstance(node, ast.BoolOp):
        op = "and" if isinstance(node.op, ast.And) else "or"
        return f"({op} " + " ".join(t(v) for v in node.values) + ")"
    if isinstance(node, ast.Compare):
        parts, left = [], node.left
        for op, right in zip(node.ops, node.comparators):
            o = {ast.Eq: "=", ast.NotEq: "distinct", ast.Lt: "<", ast.LtE: "<=", ast.Gt: ">", ast.GtE: ">="}[type(op)]
            parts.append(f"({o} {t(left)} {t(right)})")
            left = right
        return parts[0] if len(parts) == 1 else "(and " + " ".join(parts) + ")"
    if isinstance(node, ast.Call):
        f = node.func.id
        args = [t(x) for x in node.args]
        if f == "implies":
            return f"(=> {args[0]} {args[1]})"
        if f == "abs":
            return f"(ite (< {args[0]} 0.0) (- {args[0]}) {args[0]})"
        if f == "ite":
            return f"(ite {args[0]} {args[1]} {args[2]})"
        if f == "min":
            return f"(ite (<= {args[0]} {args[1]}) {args[0]} {args[1]})"
        if f == "max":
            return f"(ite (>= {args[0]} {args[1]}) {args[0]} {args[1]})"
        return f"({f} " + " ".join(args) + ")"
    if isinstance(node, ast.IfExp):
        return f"(ite {t(node.test)} {t(node.body)} {t(node.orelse)})"
    raise ValueError("unsupported expression: " + ast.dump(node))


def to_verus(node):
    if isinstance(node, str):
        node = ast.parse(node.strip(), mode="eval").body
    t = to_verus
    if isinstance(node, ast.Constant):
        if isinstance(node.value, bool):
            return "true" if node.value else "false"
        f = _num(node.value)
        s = f"{abs(f.numerator)}real" if f.denominator == 1 else f"({abs(f.numerator)}real / {f.denominator}real)"
        return f"(-{s})" if f < 0 else s
    if isinstance(node, ast.Name):
        return node.id
    if isinstance(node, ast.UnaryOp):
        if isinstance(node.op, ast.USub):
            return f"(-{t(node.operand)})"
        if isinstance(node.op, ast.Not):
            return f"(!{t(node.operand)})"
        return t(node.operand)
    if isinstance(node, ast.BinOp):
        if isinstance(node.op, ast.Pow):
            n = node.right.value
            if n == 0:
                return "1real"
            b = t(node.left)
            return "(" + " * ".join([b] * n) + ")"
        op = {ast.Add: "+", ast.Sub: "-", ast.Mult: "*", ast.Div: "/"}[type(node.op)]
        return f"({t(node.left)} {op} {t(node.right)})"
    if isinstance(node, ast.BoolOp):
        op = " && " if isinstance(node.op, ast.And) else " || "
        return "(" + op.join(t(v) for v in node.values) + ")"
    if isinstance(node, ast.Compare):
        parts, left = [], node.left
        for op, right in zip(node.ops, node.comparators):
            o = {ast.Eq: "==", ast.NotEq: "!=", ast.Lt: "<", ast.LtE: "<=", ast.Gt: ">", ast.GtE: ">="}[type(op)]
            parts.append(f"({t(left)} {o} {t(right)})")
            left = right
        return parts[0] if len(parts) == 1 else "(" + " && ".join(parts) + ")"
    if isinstance(node, ast.Call):
        f = node.func.id
        args = [t(x) for x in node.args]
        if f == "implies":
            return f"({args[0]} ==> {args[1]})"
        if f == "abs":
            return f"rabs({args[0]})"
        if f == "ite":
            return f"(if {args[0]} {{ {args[1]} }} else {{ {args[2]} }})"
        if f in ("min", "max"):
            return f"r{f}({args[0]}, {args[1]})"
        return f"{f}(" + ", ".join(args) + ")"
    if isinstance(node, ast.IfExp):
        return f"(if {t(node.test)} {{ {t(node.body)} }} else {{ {t(node.orelse)} }})"
    raise ValueError("unsupported expression: " + ast.dump(node))


class Def:
    """a named real function  name(params) = expr"""

    def __init__(self, name, params, expr):
        self.name, self.params, self.expr = name, list(params), expr

    def verus(self):
        ps = ", ".join(f"{p}: real" for p in self.params)
        return f"pub open spec fn {self.name}({ps}) -> real {{ {to_verus(self.expr)} }}\n"

    def smt(self):
        ps = " ".join(f"({p} Real)" for p in self.params)
        return f"(define-fun {self.name} ({ps}) Real {to_smt(self.expr)})\n"


class Lemma:
    def __init__(self, name, vars, hyps, concl, defs=(), uninterp=(), note=""):
        self.name, self.vars, self.hyps, self.concl = name, list(vars), list(hyps), concl
        self.defs, self.uninterp, self.note = list(defs), list(uninterp), note

    def smt(self, logic="QF_NRA"):
        out = [f"(set-logic {logic})\n"] if logic else []
        for name, arity in self.uninterp:
            out.append(f"(declare-fun {name} ({' '.join(['Real'] * arity)}) Real)\n")
        for v in self.vars:
            out.append(f"(declare-const {v} Real)\n")
        for d in self.defs:
            out.append(d.smt())
        for h in self.hyps:
            out.append(f"(assert {to_smt(h)})\n")
        out.append(f"(assert (not {to_smt(self.concl)}))\n(check-sat)\n")
        return "".join(out)

    def verus_stub(self):
        """the same statement as a Verus proof fn, discharged outside Verus (external_body)"""
        ps = ", ".join(f"{v}: real" for v in self.vars)
        req = "".join(f"        {to_verus(h)},\n" for h in self.hyps)
        s = f"// NRA lemma discharged by stand-alone z3/cvc5 (see evidence): {self.note}\n#[verifier::external_body]\npub proof fn {self.name}({ps})\n"
        if req:
            s += "    requires\n" + req
        s += f"    ensures\n        {to_verus(self.concl)},\n{{ }}\n"
        return s


SOLVERS = {
    "z3": ["z3", "-smt2", "-T:{t}"],
    "z3-new": ["z3-new", "-smt2", "-T:{t}"],
    "cvc5": ["cvc5", "--lang=smt2", "--tlimit={tms}"],
}


def solve(lemma, workdir, solver="z3", timeout=60):
    os.makedirs(workdir, exist_ok=True)
    path = os.path.join(workdir, f"{lemma.name}.smt2")
    uf = bool(lemma.uninterp)
    logic = "QF_UFNRA" if uf else "QF_NRA"
    with open(path, "w") as fh:
        fh.write(lemma.smt(logic))
    cmd = [c.format(t=timeout, tms=timeout * 1000) for c in SOLVERS[solver]] + [path]
    t0 = time.time()
    try:
        p = subprocess.run(cmd, capture_output=True, text=True, timeout=timeout + 10)
        out = p.stdout.strip().splitlines()
        status = out[0].strip() if out else "error: " + p.stderr[:200]
    except subprocess.TimeoutExpired:
        status = "timeout"
    return {"lemma": lemma.name, "solver": solver, "status": status, "ms": int((time.time() - t0) * 1000),
            "cmd": " ".join(cmd)}


def run_lemmas(prop, unit_name, lemmas, ctx, solvers=None, timeout=120):
    """-> dict in the format expected by vx.run (extra_obligations)"""
    import concurrent.futures as cf
    from .unit import WORK
    tier = ctx.get("tier", "quick")
    solvers = solvers or (["z3", "cvc5", "z3-new"] if tier == "thorough" else ["z3"])
    wd = os.path.join(WORK, prop, "nra")
    res = {"obligations": [], "failed": [], "undecided": [], "by_backend": {}, "trusted": [], "solver_ms": 0,
           "cmds": [], "samples": []}
    jobs = []
    with cf.ThreadPoolExecutor(max_workers=8) as ex:
        for lm in lemmas:
            for s in solvers:
                jobs.append((lm, s, ex.submit(solve, lm, os.path.join(wd, s), s, timeout)))
        per = {}
        for lm, s, fu in jobs:
            per.setdefault(lm.name, []).append(fu.result())
    for lm in lemmas:
        ob = f"{prop}/{unit_name}/nra:{lm.name}"
        res["obligations"].append(ob)
        rs = per[lm.name]
        res["solver_ms"] += sum(r["ms"] for r in rs)
        primary = rs[0]
        if any(r["status"] == "sat" for r in rs):
            bad = [r for r in rs if r["status"] == "sat"][0]
            res["failed"].append(dict(obligation=ob, fn=None, kind="nra", src=None,
                                      message=f"NRA lemma refuted by {bad['solver']} (sat): {lm.note}", rendered=lm.smt()))
        elif primary["status"] != "unsat":
            # cross-check solvers may time out; the primary must close it
            res["undecided"].append(f"NRA lemma {lm.name} not closed by {primary['solver']}: {primary['status']}")
        key = primary["solver"] + "-nra"
        res["by_backend"][key] = res["by_backend"].get(key, 0) + 1
        if len(res["samples"]) < 3:
            res["samples"].append({"obligation": ob, "statement": f"{lm.hyps} ==> {lm.concl}", "results": rs})
    res["cmds"].append(f"{' / '.join(solvers)} on {len(lemmas)} SMT-LIB files under {wd}")
    res["trusted"].append("stand-alone z3 4.8.12" + (" / cvc5 1.0 / z3 5.1.0 cross-check" if len(solvers) > 1 else "") + " for NRA lemmas")
    return res
