"""R19 let-introduction (A-normal form) for one statement.

`let next = &a * &b - (&c * k);`  ->  `let vx_n1 = &a * &b; let vx_n2 = &c * k; let next = vx_n1 - vx_n2;`

Only the tree of the arithmetic operators  * / % + -  reachable from the root of the expression (through
parentheses) is split; every other sub-expression (calls, arguments, if-expressions, unary operators applied to
atoms) is moved verbatim.  Temporaries are bound in evaluation order (left operand first), so the rewrite is
semantics-preserving.  It is applied to the source TEXT before extraction (the result stays on the same lines)
and is anchored only on the head of the statement, so that edits inside the expression do not lose the anchor."""
from .lexer import lex, match_brackets
from .extract import Undecided

PREC = {"*": 12, "/": 12, "%": 12, "+": 11, "-": 11}
STOP = {";", ","}
# binary operators of lower precedence than + - : if one occurs at depth 0 the expression is not split
LOWER = {"==", "!=", "<", ">", "<=", ">=", "&&", "||", "..", "..=", "=", "+=", "-=", "*=", "/=", "as"}


class Node:
    def __init__(self, kind, lo, hi, op=None, left=None, right=None, inner=None):
        self.kind, self.lo, self.hi, self.op, self.left, self.right, self.inner = kind, lo, hi, op, left, right, inner


class Parser:
    def __init__(self, toks, pairs, lo, hi, rel):
        self.t, self.p, self.i, self.hi, self.rel = toks, pairs, lo, hi, rel

    def peek(self):
        return self.t[self.i] if self.i < self.hi else None

    def expr(self, minprec=0):
        left = self.operand()
        while True:
            tk = self.peek()
            if tk is None or tk.kind != "punct" or tk.text not in PREC or PREC[tk.text] < minprec:
                return left
            op = self.i
            self.i += 1
            right = self.expr(PREC[tk.text] + 1)
            left = Node("bin", left.lo, right.hi, op=op, left=left, right=right)

    def operand(self):
        lo = self.i
        # unary prefixes
        while self.peek() is not None and (self.peek().text in ("-", "*", "&", "!") or (self.peek().kind == "ident" and self.peek().text == "mut" and self.i > lo)):
            self.i += 1
        start_primary = self.i
        tk = self.peek()
        if tk is None:
            raise Undecided(f"{self.rel}: malformed expression for let-introduction")
        if tk.text == "(" and start_primary == lo:
            close = self.p[self.i]
            sub = Parser(self.t, self.p, self.i + 1, close, self.rel)
            inner = sub.expr()
            self.i = close + 1
            if sub.i == close and not self._postfix_follows():
                return Node("paren", lo, self.i, inner=inner)
            # tuple / something else / postfix chain: atom
        elif tk.kind == "ident" and tk.text == "if":
            self._skip_if()
            return Node("atom", lo, self.i)
        elif tk.text in ("(", "[", "{"):
            self.i = self.p[self.i] + 1
        else:
            self.i += 1
        # postfix chain and paths
        while self.i < self.hi:
            tk = self.t[self.i]
            if tk.text in ("(", "["):
                self.i = self.p[self.i] + 1
            elif tk.text in (".", "::", "?", "!"):
                self.i += 1
                if tk.text == "::" and self.i < self.hi and self.t[self.i].text == "<":
                    d = 0
                    while self.i < self.hi:
                        if self.t[self.i].text == "<":
                            d += 1
                        elif self.t[self.i].text == ">":
                            d -= 1
                            if d == 0:
                                self.i += 1
                                break
                        self.i += 1
            elif tk.kind in ("ident", "num") and self.t[self.i - 1].text in (".", "::"):
                self.i += 1
            elif tk.text == "{" and self.t[self.i - 1].kind == "ident" and self.t[self.i - 1].text[0].isupper():
                self.i = self.p[self.i] + 1      # struct literal
            else:
                break
        return Node("atom", lo, self.i)

    def _postfix_follows(self):
        tk = self.peek()
        return tk is not None and tk.text in (".", "?", "(", "[")

    def _skip_if(self):
        # if COND { } [else if COND { }]* [else { }]
        while True:
            self.i += 1
            while self.t[self.i].text != "{":
                self.i = self.p[self.i] + 1 if self.t[self.i].text in ("(", "[") else self.i + 1
            self.i = self.p[self.i] + 1
            if self.i < self.hi and self.t[self.i].kind == "ident" and self.t[self.i].text == "else":
                self.i += 1
                if self.t[self.i].kind == "ident" and self.t[self.i].text == "if":
                    continue
                self.i = self.p[self.i] + 1
            return


def anf_text(text, rel, fn_span, head, prefix, bind_root=False, nth=0, bind_operands=False):
    """Rewrite one statement inside the character span fn_span=(a,b) of `text`.  Returns (new_text, log_entry)."""
    a, b = fn_span
    sub = text[a:b]
    toks = lex(sub)
    pairs = match_brackets(toks)
    ht = [t.text for t in lex(head)]
    hits = [k for k in range(len(toks) - len(ht) + 1) if all(toks[k + j].text == ht[j] for j in range(len(ht)))]
    if len(hits) <= nth:
        raise Undecided(f"anchor lost: statement head {head!r} not found in {rel}")
    k = hits[nth]
    lo = k + len(ht)
    # statement start: go back to previous ; { }
    s0 = k
    # expression end: first STOP token or unmatched closer at depth 0
    hi = lo
    while hi < len(toks):
        tx = toks[hi].text
        if tx in ("(", "[", "{"):
            hi = pairs[hi] + 1
            continue
        if tx in STOP or tx in (")", "]", "}"):
            break
        hi += 1
    p = Parser(toks, pairs, lo, hi, rel)
    root = p.expr()
    if p.i != hi:
        raise Undecided(f"{rel}: cannot parse the expression after {head!r} for let-introduction")
    lets, counter = [], [0]

    def txt(n):
        return sub[toks[n.lo].start:toks[n.hi - 1].end]

    def strip(n):
        while n.kind == "paren":
            n = n.inner
        return n

    def emit(n, is_root):
        n0 = n
        n = strip(n)
        if n.kind != "bin":
            simple = (n.hi - n.lo == 1) or (n.hi - n.lo == 2 and toks[n.lo].text in ("&", "*", "-"))
            if (bind_operands and not simple and not is_root) or (bind_root and is_root and not simple):
                counter[0] += 1
                name = f"vx_{prefix}{counter[0]}"
                lets.append(f"let {name} = {txt(n0)};")
                return name
            return txt(n0)
        l = emit(n.left, False)
        r = emit(n.right, False)
        e = f"{l} {toks[n.op].text} {r}"
        if is_root and not bind_root:
            return e
        counter[0] += 1
        name = f"vx_{prefix}{counter[0]}"
        lets.append(f"let {name} = {e};")
        return name

    root_txt = emit(root, True)
    if not lets:
        return text, None
    stmt_start = toks[s0].start
    expr_start, expr_end = toks[lo].start, toks[hi - 1].end
    new_sub = sub[:stmt_start] + " ".join(lets) + " " + sub[stmt_start:expr_start] + root_txt + sub[expr_end:]
    # keep the line structure: the rewritten statement must span the same number of lines
    old_nl = sub[stmt_start:expr_end].count("\n")
    new_nl = (" ".join(lets) + " " + sub[stmt_start:expr_start] + root_txt).count("\n")
    pad = "\n" * (old_nl - new_nl) if old_nl > new_nl else ""
    new_sub = sub[:stmt_start] + " ".join(lets) + " " + sub[stmt_start:expr_start] + root_txt + pad + sub[expr_end:]
    log = {"rule": "R19-let-intro", "from": " ".join(sub[stmt_start:expr_end].split())[:160],
           "to": (" ".join(lets) + " " + " ".join((sub[stmt_start:expr_start] + root_txt).split()))[:200]}
    return text[:a] + new_sub + text[b:], log


def mapfold_text(text, rel, fn_span, nth=0, prefix="mf"):
    """R5 map/fold desugaring of one statement

        let NAME = RECV.iter().map(G).fold(INIT, H);
    ->  let vx_<p>g = G; let vx_<p>h = H; let mut vx_<p>acc = INIT;
        for vx_<p>e in RECV.iter() { vx_<p>acc = vx_<p>h(vx_<p>acc, vx_<p>g(vx_<p>e)); } let NAME = vx_<p>acc;

    which is the definition of Iterator::map / Iterator::fold (G and H are evaluated once, items in order)."""
    a, b = fn_span
    sub = text[a:b]
    toks = lex(sub)
    pairs = match_brackets(toks)
    hits = []
    for k in range(len(toks) - 3):
        if toks[k].text == "." and toks[k + 1].text == "map" and toks[k + 2].text == "(":
            c = pairs[k + 2]
            if c + 3 < len(toks) and toks[c + 1].text == "." and toks[c + 2].text == "fold" and toks[c + 3].text == "(":
                hits.append(k)
    if len(hits) <= nth:
        raise Undecided(f"anchor lost: no .map(..).fold(..) chain #{nth + 1} in {rel}")
    k = hits[nth]
    mc = pairs[k + 2]
    fo = mc + 3
    fc = pairs[fo]
    if toks[fc + 1].text != ";":
        raise Undecided(f"{rel}: .map().fold() chain is not the end of a statement")
    # statement start: previous ; { }
    s0 = k
    while s0 > 0 and toks[s0 - 1].text not in (";", "{", "}"):
        s0 -= 1
    if toks[s0].text != "let":
        raise Undecided(f"{rel}: .map().fold() chain is not a `let` initialiser")
    eq = s0
    while toks[eq].text != "=":
        eq += 1
    head = sub[toks[s0].start:toks[eq].end]                     # `let area =`
    recv = sub[toks[eq + 1].start:toks[k - 1].end]              # `weights .iter()`
    g = sub[toks[k + 3].start:toks[mc - 1].end]
    # fold args: INIT , H
    j = fo + 1
    while toks[j].text != ",":
        j = pairs[j] + 1 if toks[j].text in ("(", "[", "{") else j + 1
    init = sub[toks[fo + 1].start:toks[j - 1].end]
    h = sub[toks[j + 1].start:toks[fc - 1].end].rstrip().rstrip(",")
    p = prefix
    new = (f"let vx_{p}g = {g}; let vx_{p}h = {h}; let mut vx_{p}acc = {init}; "
           f"for vx_{p}e in {recv} {{ vx_{p}acc = vx_{p}h(vx_{p}acc, vx_{p}g(vx_{p}e)); }} {head} vx_{p}acc;")
    old = sub[toks[s0].start:toks[fc + 1].end]
    pad = "\n" * max(0, old.count("\n") - new.count("\n"))
    new_sub = sub[:toks[s0].start] + new + pad + sub[toks[fc + 1].end:]
    log = {"rule": "R5-map-fold", "from": " ".join(old.split())[:160], "to": " ".join(new.split())[:220]}
    return text[:a] + new_sub + text[b:], log
